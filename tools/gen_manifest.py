#!/venv/bin/python
"""Regenerates /verif/MANIFEST.json from the metadata of the check modules."""
import importlib
import json
import os
import sys

sys.path.insert(0, '/verif')
ALL = ['C%02d' % i for i in range(1, 21)]
PY = '/venv/bin/python'

NOT_YET = 'check not built yet in this session (see DESIGN.md build order)'


def main():
    checks, claimed = [], []
    na = []
    for prop in ALL:
        path = '/verif/vcheck/checks/%s.py' % prop.lower()
        if not os.path.exists(path):
            na.append({'property_id': prop, 'reason': NOT_YET})
            continue
        mod = importlib.import_module('vcheck.checks.%s' % prop.lower())
        meta = getattr(mod, 'META', None)
        if meta is None or meta.get('claimed') is False:
            na.append({'property_id': prop,
                       'reason': (meta or {}).get('reason', NOT_YET)})
            continue
        claimed.append(prop)
        checks.append({
            'property_id': prop,
            'quick_cmd': 'cd /verif && %s -m vcheck run %s --tier quick' % (PY, prop),
            'thorough_cmd': 'cd /verif && %s -m vcheck run %s --tier thorough'
            % (PY, prop),
            'evidence_file': '/verif/evidence/%s.json' % prop,
            'replay_cmd_template': 'cd /verif && %s -m vcheck replay {path}' % PY,
            'engine': 'vcheck',
            'level_claimed': {
                'category': 'model_checking',
                'text': meta['level_text'],
                'design_ref': meta.get('design_ref', 'DESIGN.md §4 ' + prop)},
            'level_note': meta['level_note'],
            'technique': meta['technique'],
        })
    manifest = {
        'version': 1,
        'setup_cmd': 'cd /verif && %s -m compileall -q vcheck && %s -m '
                     'vcheck.tests.selftest' % (PY, PY),
        'hooks': {
            'guard': 'CHI_VERIF',
            'enable': 'none needed: no hook is compiled into chi; the harness '
                      'installs its environment seams (solver stand-in, RNG seam, '
                      'pints run seam) in its own process at import time',
            'baseline_off_cmd': 'cd /repo && /venv/bin/python -m pytest -ra -q -p '
                                'no:cacheprovider --timeout=900 '
                                '--continue-on-collection-errors',
            'source_commits': [],
            'add_only': True},
        'engines': [{
            'name': 'vcheck', 'path': '/verif/vcheck',
            'serves_properties': claimed,
            'kind_free_text': 'hand-written bounded-exhaustive / explicit-state '
                              'explorer that executes the real chi code on every '
                              'enumerated configuration, history or environment '
                              'answer and compares with chi-independent reference '
                              'models'}],
        'checks': checks,
        'notes': 'All checks: `python -m vcheck run <id> --tier quick|thorough`; '
                 'VERIF_SEED rotates value alphabets only, structure enumeration is '
                 'always complete. Known findings: /verif/known_findings.json.',
        'not_applicable': na,
    }
    with open('/verif/MANIFEST.json', 'w') as f:
        json.dump(manifest, f, indent=1)
    print('claimed:', claimed)


if __name__ == '__main__':
    main()
