#!/bin/bash
# usage: try_seed.sh <patch.diff> <PROP> [tier]  -- applies a seeded change to /repo, runs the check, reverts.
PATCH=$1; PROP=$2; TIER=${3:-quick}
cd /repo || exit 9
if ! git diff --quiet; then echo "repo dirty"; exit 9; fi
git apply "$PATCH" || { echo "patch does not apply"; exit 8; }
cd /verif && /venv/bin/python -m vcheck run $PROP --tier $TIER > /tmp/try_seed.out 2>&1
RC=$?
cd /repo && git checkout -- . 
echo "exit=$RC"
grep -c "^VIOLATION" /tmp/try_seed.out
grep -A6 "violation groups" /tmp/try_seed.out | cut -c1-200
tail -4 /tmp/try_seed.out | cut -c1-200
