#!/venv/bin/python
"""List, per behaviour tag, the shortest failing history/case among the replay files."""
import glob, json, sys
prop = sys.argv[1]
best = {}
for f in glob.glob('/verif/replays/%s/*.json' % prop):
    b = json.load(open(f))
    k = (b.get('part'), b.get('behaviour'), (b.get('message') or '')[:70])
    size = len(json.dumps(b['case']))
    if k not in best or size < best[k][0]:
        best[k] = (size, b['case'], f, b)
for k, (size, case, f, b) in sorted(best.items(), key=lambda x: str(x[0])):
    print(k); print('   case:', json.dumps(case)[:300]); print('   file:', f)
    if len(sys.argv) > 2:
        print('   expected:', str(b.get('expected'))[:400]); print('   observed:', str(b.get('observed'))[-600:])
