#!/bin/bash
# usage: try_seed_wt.sh <patch.diff> <PROP> [tier] [tree]  -- development aid: like try_seed.sh but on a
# scratch checkout (default /tmp/clean_wt, selected through VCHECK_TREE) so that /repo can stay busy.
PATCH=$1; PROP=$2; TIER=${3:-quick}; TREE=${4:-/tmp/clean_wt}
cd $TREE || exit 9
if ! git diff --quiet; then echo "tree dirty"; exit 9; fi
git apply "$PATCH" || { echo "patch does not apply"; exit 8; }
OUT=/tmp/try_seed_wt.$$.out
cd /verif && VCHECK_TREE=$TREE /venv/bin/python -m vcheck run $PROP --tier $TIER > $OUT 2>&1
RC=$?
cd $TREE && git checkout -- .
echo "exit=$RC"
grep -c "^VIOLATION" $OUT
grep -A6 "violation groups" $OUT | cut -c1-200
tail -4 $OUT | cut -c1-200
rm -f $OUT
