#!/venv/bin/python
"""Maintenance helper: add an entry to known_findings.json / sync 'fixed' commit hashes
with /repo's git log (by commit subject). Never used by checks at run time."""
import json, subprocess, sys
P = '/verif/known_findings.json'


def sync():
    d = json.load(open(P))
    log = subprocess.run(['git', '-C', '/repo', 'log', '--format=%h %s'],
                         capture_output=True, text=True).stdout.strip().split('\n')
    by_subject = {l.split(' ', 1)[1]: l.split(' ', 1)[0] for l in log}
    for f in d['findings']:
        if f.get('status') == 'fixed':
            h = by_subject.get(f['subject'])
            if h is None:
                print('WARNING: no commit for', f['id'])
                continue
            f['commit'] = h
            f['record'] = 'fixed: property=%s %s %s' % (f['property'], h, f['what'])
    json.dump(d, open(P, 'w'), indent=1)


def add(entry):
    d = json.load(open(P))
    d['findings'] = [f for f in d['findings'] if f['id'] != entry['id']] + [entry]
    json.dump(d, open(P, 'w'), indent=1)


if __name__ == '__main__':
    if sys.argv[1] == 'sync':
        sync()
    else:
        add(json.loads(sys.stdin.read()))
        sync()
