#!/venv/bin/python
"""Runs every kept seeded change against the quick check of its property (and of any
extra check listed in meta['also']), records the verdict in meta.json and writes
/verif/seeded/RESULTS.md. Applies each patch to /repo and restores the tree afterwards."""
import glob, json, os, subprocess, sys, time

ROOT = '/verif/seeded'
only = sys.argv[1:]
# development aid: SEED_TREE=<scratch checkout of /repo HEAD> runs the matrix there
# (through VCHECK_TREE) so that several shards can run side by side; default /repo
TREE = os.environ.get('SEED_TREE', '/repo')
ENV = '' if TREE == '/repo' else 'VCHECK_TREE=%s ' % TREE


def sh(cmd, **kw):
    return subprocess.run(cmd, shell=True, capture_output=True, text=True, **kw)


def main():
    if sh('git -C %s diff --quiet' % TREE).returncode != 0:
        print('repo dirty'); sys.exit(9)
    rows = []
    for d in sorted(glob.glob(ROOT + '/C*-*')):
        name = os.path.basename(d)
        if only and name not in only and name.split('-')[0] not in only:
            continue
        meta = json.load(open(d + '/meta.json'))
        props = [meta['property']] + meta.get('also', [])
        if sh('git -C %s apply %s/patch.diff' % (TREE, d)).returncode != 0:
            meta['detected_by'] = {'error': 'patch does not apply to current tree'}
            meta['verdict'] = 'PATCH-DOES-NOT-APPLY'
            rows.append((name, meta['property'], 'PATCH-DOES-NOT-APPLY', ''))
            json.dump(meta, open(d + '/meta.json', 'w'), indent=1)
            print(rows[-1], flush=True)
            continue
        det = {}
        try:
            for p in props:
                t0 = time.time()
                r = sh('cd /verif && %s/venv/bin/python -m vcheck run %s --tier quick' % (ENV, p))
                groups = [l.strip() for l in r.stdout.split('\n') if l.startswith('   ') and "('" in l][:3]
                det[p] = {'exit': r.returncode,
                          'violation_lines': r.stdout.count('\nVIOLATION') + r.stdout.startswith('VIOLATION'),
                          'first_groups': groups, 'wall_s': round(time.time() - t0, 1)}
        finally:
            sh('git -C %s checkout -- .' % TREE)
        meta['detected_by'] = det
        meta['verdict'] = 'detected' if any(v['exit'] == 1 for v in det.values()) else 'MISSED'
        json.dump(meta, open(d + '/meta.json', 'w'), indent=1)
        rows.append((name, meta['property'], meta['verdict'],
                     ', '.join('%s:exit %d' % (k, v['exit']) for k, v in det.items())))
        print(rows[-1], flush=True)
    with open(ROOT + '/RESULTS.md', 'w') as f:
        f.write('| seed | property | verdict (quick tier) | checks run |\n|---|---|---|---|\n')
        for d in sorted(glob.glob(ROOT + '/C*-*')):
            m = json.load(open(d + '/meta.json'))
            db = m.get('detected_by') or {}
            f.write('| %s | %s | %s | %s |\n' % (
                os.path.basename(d), m['property'], m.get('verdict', '?'),
                ', '.join('%s: exit %s' % (k, v.get('exit')) for k, v in db.items() if isinstance(v, dict))))


if __name__ == '__main__':
    main()
