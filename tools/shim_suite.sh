#!/bin/bash
# usage: shim_suite.sh <tree> <out.txt>  -- runs the repo test suite of <tree> with the solver shim; writes passed test ids
TREE=$1; OUT=$2
cd $TREE && PYTHONPATH=$TREE:/verif/tools /venv/bin/python -m pytest -q -p vshim -p no:cacheprovider --timeout=900 --continue-on-collection-errors -x --co -q >/dev/null 2>&1
cd $TREE && PYTHONPATH=$TREE:/verif/tools /venv/bin/python -m pytest -q -p vshim -p no:cacheprovider --timeout=1800 --continue-on-collection-errors --junitxml=$OUT.xml > $OUT.log 2>&1
/venv/bin/python - $OUT.xml > $OUT <<'PY'
import sys
import xml.etree.ElementTree as ET
for tc in ET.parse(sys.argv[1]).getroot().iter('testcase'):
    st = 'PASS'
    for c in tc:
        if c.tag in ('failure', 'error'): st = 'FAIL'
        if c.tag == 'skipped': st = 'SKIP'
    print(st, tc.get('classname') + '::' + tc.get('name'))
PY
grep -c PASS $OUT; grep -c FAIL $OUT
