import sys, json, glob, os
pid = sys.argv[1]
n = sys.argv[2] if len(sys.argv) > 2 else '3'
prop = open('/tmp/prop_%s.txt' % pid).read()
prev = []
for d in sorted(glob.glob('/verif/seeded/%s-*' % pid)):
    p = d + '/notes.md'
    if os.path.exists(p):
        txt = open(p).read().strip().split('\n')
        prev.append(' '.join(l.strip() for l in txt[:6])[:500])
base = open('/tmp/prompt_%s.txt' % pid).read() if False else None
shim = ('A solver shim is provided so that SBML models CAN be simulated in demos: read /tmp/shim/README.txt and use it '
        '(sys.path.insert(0, "/tmp/shim"); import refsim; refsim.install()). Demonstrations may use SBML/PKPD models through that shim, or be written')
print(f"""You are helping to test a verification harness for the Python library DavAug/chi (a PKPD modelling library: mechanistic models, error models, population models, hierarchical log-likelihoods, predictive models, inference, plots). You work ONLY inside the git worktree /tmp/mut3_{pid} (a checkout of the library). Do not read or touch /verif or /repo. Do not use the network. NEVER use `git stash` (it is shared between worktrees); use `git diff > file`, `git apply`, `git apply -R`, `git checkout -- .`.

The library is claimed to satisfy this semantic property:

-----
{prop}
-----

Your job: produce {n} DIFFERENT realistic code changes ("seeded bugs") to the library source under /tmp/mut3_{pid}/chi (not the tests) such that each change
  (a) BREAKS the property above for some input / configuration / history,
  (b) still imports fine and still PASSES the library's existing test suite, and
  (c) needs something specific to manifest — a particular composition of sub-models, a multi-step sequence of calls, an unusual-but-valid input shape (e.g. a certain number of dimensions/individuals/outputs, overlapping time grids, a particular ordering), or two cooperating sites that each look fine alone — NOT something ordinary use would expose at once (the existing tests must not notice it).
Think of the kind of slip a maintainer could plausibly make: an index/offset/ordering mistake, a wrong axis, a stale cached value, an in-place mutation of shared state, a branch that only triggers for n_dim>1 or for the second output, a sign or factor in a rarely used term, a shortcut/"optimisation" that is wrong in a corner, a boundary condition (<= vs <), a default argument, a copy that became a reference, etc. Avoid trivial changes such as raising exceptions unconditionally or deleting a feature. Aim for variety: each of your {n} changes should live in a different function (preferably different files / classes) and need a different kind of trigger. Explore parts of the code behind this property that are less obvious (look at every class and method the property talks about, including wrappers, composed/reduced/covariate variants, controllers and helper functions).

These ideas were ALREADY used by somebody else for this property -- do NOT repeat them or close variants of them:
""" + '\n'.join('  - ' + p for p in prev) + f"""

How to run things (the interpreter with all dependencies is /venv/bin/python; make sure the worktree's code is imported, not the installed one):
  cd /tmp/mut3_{pid} && PYTHONPATH=/tmp/mut3_{pid} /venv/bin/python -m pytest -q -p no:cacheprovider --timeout=900 -x -q chi/tests/<relevant test files>
Note: in this sandbox tests that need to compile a myokit/sundials simulation fail even on the unchanged code (about 174 tests, e.g. most of test_mechanistic_models.py::TestSBMLModel/TestPKPDModel, test_log_pdfs.py, test_problems.py, test_inference.py, test_predictive_models.py). That is expected: your change must simply not make any test fail that passes on the unchanged code. To compare, run the full suite once on the unchanged worktree and once with each change:
  cd /tmp/mut3_{pid} && PYTHONPATH=/tmp/mut3_{pid} /venv/bin/python -m pytest -q -p no:cacheprovider --timeout=900 --continue-on-collection-errors -q --junitxml=/tmp/mut3_{pid}_X.xml 2>&1 | tail -5
(about 1 minute) and compare the sets of passing tests. {shim} with a small hand-written subclass of chi.MechanisticModel (implement copy, enable_sensitivities(enabled, parameter_names=None), has_sensitivities, n_outputs, n_parameters, outputs, parameters, set_outputs, simulate(parameters, times) returning an array of shape (n_outputs, n_times), or (that, sensitivities of shape (n_times, n_outputs, n_parameters)) when sensitivities are enabled) or with the model classes directly (error models, population models, filters, ...).

Deliverables, for each change k = 1..{n}, in the directory /tmp/mut3_{pid}/out/<k>/ :
  - patch.diff : `git diff` of the change against the unchanged worktree (source files only; apply-able with `git apply`)
  - demo.py    : a small self-contained, DETERMINISTIC program (run as `PYTHONPATH=<tree> /venv/bin/python demo.py`) that exits 0 on the unchanged code and exits non-zero (assertion failure) with the change applied, demonstrating the property violation through the public API
  - notes.md   : 5-10 lines: what the change is, which part of the property it breaks, what is needed for it to manifest, and the test-suite result you observed (numbers of passed/failed tests before and after)
Make sure the worktree is back to the unchanged state (git checkout -- .) at the end, with only the out/ directory added. Verify each patch yourself: apply it, run demo.py (must fail), run the test suite (no new failures), revert, run demo.py (must pass).
Report back a short summary of the {n} changes (file, function, what manifests it).""")
