#!/venv/bin/python
"""Print a python source file without docstrings and blank lines (reading aid)."""
import ast, sys
src = open(sys.argv[1]).read()
tree = ast.parse(src)
skip = set()
for node in ast.walk(tree):
    if isinstance(node, (ast.FunctionDef, ast.ClassDef, ast.Module, ast.AsyncFunctionDef)):
        b = node.body
        if b and isinstance(b[0], ast.Expr) and isinstance(getattr(b[0], 'value', None), ast.Constant) and isinstance(b[0].value.value, str):
            for l in range(b[0].lineno, b[0].end_lineno + 1):
                skip.add(l)
lo = int(sys.argv[2]) if len(sys.argv) > 2 else 1
hi = int(sys.argv[3]) if len(sys.argv) > 3 else 10**9
for i, line in enumerate(src.split('\n'), 1):
    if i in skip or not line.strip() or i < lo or i > hi:
        continue
    print('%d\t%s' % (i, line))
