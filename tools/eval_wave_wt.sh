#!/bin/bash
# usage: eval_wave_wt.sh <dir with out/<k>> <PROP> [extra props...]   (scratch-tree lane, see try_seed_wt.sh)
D=$1; shift
for k in $(ls $D/out | grep -E '^[0-9]+$'); do
  for P in "$@"; do
    R=$(/verif/tools/try_seed_wt.sh $D/out/$k/patch.diff $P quick | head -2 | tr '\n' ' ')
    echo "$D/out/$k vs $P: $R"
  done
done
