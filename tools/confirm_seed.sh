#!/bin/bash
# usage: confirm_seed.sh <agent_out_dir> <seed_name> <PROP>
# Confirms a seeded change in a scratch worktree of /repo HEAD: demo passes unchanged, fails
# with the change, stable baseline still passes; then stores it under /verif/seeded/<seed_name>/.
SRC=$1; NAME=$2; PROP=$3
WT=/tmp/confirm_$NAME
rm -rf $WT; git -C /repo worktree prune
git -C /repo worktree add -q $WT HEAD || exit 9
cd $WT
res() { echo "$1" ; }
PYTHONPATH=$WT timeout 600 /venv/bin/python $SRC/demo.py > $WT.demo0.log 2>&1; D0=$?
git apply $SRC/patch.diff || { echo "$NAME: PATCH DOES NOT APPLY"; git -C /repo worktree remove --force $WT; exit 8; }
PYTHONPATH=$WT timeout 600 /venv/bin/python $SRC/demo.py > $WT.demo1.log 2>&1; D1=$?
PYTHONPATH=$WT /venv/bin/python -m pytest -q -p no:cacheprovider --timeout=900 --continue-on-collection-errors --junitxml=$WT.junit.xml > $WT.pytest.log 2>&1
/venv/bin/python - "$WT.junit.xml" > $WT.base.log <<'PY'
import json, sys
import xml.etree.ElementTree as ET
base = set(json.load(open('/root/.vp/BASELINE.json'))['stable_pass'])
passed = set()
for tc in ET.parse(sys.argv[1]).getroot().iter('testcase'):
    if not any(c.tag in ('failure', 'error', 'skipped') for c in tc):
        passed.add(tc.get('classname') + '::' + tc.get('name'))
missing = sorted(base - passed)
print('%d/%d' % (len(base & passed), len(base)))
for m in missing: print('FAIL', m)
sys.exit(1 if missing else 0)
PY
B=$?
BASE=$(head -1 $WT.base.log)
cd /; git -C /repo worktree remove --force $WT
if [ $D0 -eq 0 ] && [ $D1 -ne 0 ] && [ $B -eq 0 ]; then
  mkdir -p /verif/seeded/$NAME
  cp $SRC/patch.diff $SRC/demo.py /verif/seeded/$NAME/
  [ -f $SRC/notes.md ] && cp $SRC/notes.md /verif/seeded/$NAME/
  /venv/bin/python - "$NAME" "$PROP" "$BASE" "$D1" <<'PY'
import json, sys, os
name, prop, base, d1 = sys.argv[1:5]
notes = ''
p = '/verif/seeded/%s/notes.md' % name
if os.path.exists(p):
    notes = open(p).read()
meta = {'seed': name, 'property': prop,
        'needs_to_manifest': notes[:1500],
        'confirmed': {'demo_exit_unchanged': 0, 'demo_exit_with_change': int(d1),
                      'stable_baseline_with_change': base,
                      'how': 'tools/confirm_seed.sh in a scratch worktree of /repo HEAD'},
        'detected_by': None}
json.dump(meta, open('/verif/seeded/%s/meta.json' % name, 'w'), indent=1)
PY
  echo "$NAME: CONFIRMED (demo 0 -> $D1, baseline $BASE)"
else
  echo "$NAME: REJECTED demo_unchanged=$D0 demo_changed=$D1 baseline_ok=$B ($BASE)"; tail -3 $WT.base.log
fi
rm -f $WT.demo0.log $WT.demo1.log $WT.junit.xml $WT.pytest.log $WT.base.log
