#!/bin/bash
# usage: run_all.sh <tier> <seed> [<seed> ...]   -- runs every claimed check; prints a one-line verdict each
TIER=${1:-quick}; shift
SEEDS=${@:-0}
cd /verif
PROPS=$(/venv/bin/python -c "import json;print(' '.join(c['property_id'] for c in json.load(open('MANIFEST.json'))['checks']))")
for s in $SEEDS; do
  for p in $PROPS; do
    OUT=$(VERIF_SEED=$s /venv/bin/python -m vcheck run $p --tier $TIER 2>&1); RC=$?
    echo "seed=$s $p exit=$RC $(echo "$OUT" | grep "^$p tier" | sed 's/.*: //')"
    if [ $RC -ne 0 ]; then echo "$OUT" | grep -A40 "violation groups\|HARNESS\|Traceback" | head -60; fi
  done
done
