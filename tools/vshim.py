"""pytest plugin: installs the RefSimulation solver stand-in so that the repository's
SBML-dependent tests can run in this sandbox (diagnostic only; not part of any check)."""
import sys
sys.path.insert(0, '/verif')
from vcheck.env import refsim  # noqa
refsim.install()
