#!/bin/bash
# Runs the repository's pinned test suite and compares with BASELINE.json stable_pass.
OUT=${1:-/tmp/vp_baseline.xml}
cd /repo && /venv/bin/python -m pytest -ra -q -p no:cacheprovider --timeout=900 --continue-on-collection-errors --junitxml=$OUT > /tmp/vp_baseline.log 2>&1
/venv/bin/python - "$OUT" <<'PY'
import json, sys
import xml.etree.ElementTree as ET
base = set(json.load(open('/root/.vp/BASELINE.json'))['stable_pass'])
passed = set()
for tc in ET.parse(sys.argv[1]).getroot().iter('testcase'):
    ok = not any(c.tag in ('failure', 'error', 'skipped') for c in tc)
    name = tc.get('classname') + '::' + tc.get('name')
    if ok:
        passed.add(name)
missing = sorted(base - passed)
print('stable baseline: %d/%d pass' % (len(base & passed), len(base)))
for m in missing:
    print('  NOW FAILING:', m)
sys.exit(1 if missing else 0)
PY
