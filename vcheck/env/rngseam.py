"""RngSeam: controllable random sources (DESIGN §2.2).

Inside a `with Seam(script) as seam:` block

* `numpy.random.default_rng(seed)` returns a `ScriptedGenerator` (a real
  numpy.random.Generator subclass): int seed -> a new stream identified by that seed
  starting at index 0; a Generator -> the same object; None -> a fresh unique stream;
* `numpy.random.seed(k)` re-seeds the scripted *global* stream ('global:k', index 0)
  and scipy's global RandomState (used by truncnorm.rvs) is the scripted one.

Every stream draws its *base variates* from `script(stream_id, index, kind)`:
kind 'z' (standard normal), 'u' (uniform(0,1)), 'i' (integer answer in [0, n)).
Library transforms are the documented one-liners: normal = loc + scale*z,
lognormal = exp(mean + sigma*z), uniform = low + (high-low)*u,
choice/integers = categorical answers. Every consumption is logged as
(stream_id, index, kind, call) so that checks can tell which variate fed which call.
"""
import numpy as np
import numpy.random.mtrand as _mt

_REAL_DEFAULT_RNG = np.random.default_rng
_REAL_SEED = np.random.seed
_REAL_RAND = _mt._rand


class Script(object):
    """Default script: generic distinct values, with optional overrides
    {(stream, index): value}."""
    def __init__(self, overrides=None, base=None):
        self.overrides = dict(overrides or {})
        self.base = base

    def __call__(self, stream, index, kind, n=None):
        if (stream, index) in self.overrides:
            return self.overrides[(stream, index)]
        if self.base is not None:
            return self.base(stream, index, kind, n)
        # deterministic generic value
        h = (hash_str(stream) * 0.6180339887 + (index + 1) * 0.7548776662) % 1.0
        if kind == 'z':
            return 2.4 * h - 1.2
        if kind == 'u':
            return 0.05 + 0.9 * h
        return int(h * n) % n


def hash_str(s):
    import zlib
    return zlib.crc32(str(s).encode()) % 9973


class _Stream(object):
    def __init__(self, seam, stream_id):
        self.seam = seam
        self.id = stream_id
        self.index = 0

    def draw(self, kind, size, call, n=None):
        shape = () if size is None else (
            (size,) if np.isscalar(size) else tuple(int(s) for s in size))
        count = int(np.prod(shape)) if shape else 1
        out = np.empty(count, dtype=float if kind != 'i' else int)
        for k in range(count):
            v = self.seam.script(self.id, self.index, kind, n)
            self.seam.log.append((self.id, self.index, kind, call))
            self.seam.n_of[(self.id, self.index)] = n
            out[k] = v
            self.index += 1
        return out.reshape(shape) if shape else out[0]


def _bshape(size, *args):
    if size is not None:
        return size
    return np.broadcast(*[np.asarray(a) for a in args]).shape or None


class ScriptedGenerator(np.random.Generator):
    def __init__(self, seam, stream_id):
        super().__init__(np.random.PCG64(0))
        self._s = _Stream(seam, stream_id)

    @property
    def stream_id(self):
        return self._s.id

    def normal(self, loc=0.0, scale=1.0, size=None):
        z = self._s.draw('z', _bshape(size, loc, scale), 'normal')
        return np.asarray(loc) + np.asarray(scale) * z

    def standard_normal(self, size=None, **kw):
        return self._s.draw('z', size, 'standard_normal')

    def lognormal(self, mean=0.0, sigma=1.0, size=None):
        z = self._s.draw('z', _bshape(size, mean, sigma), 'lognormal')
        return np.exp(np.asarray(mean) + np.asarray(sigma) * z)

    def uniform(self, low=0.0, high=1.0, size=None):
        u = self._s.draw('u', _bshape(size, low, high), 'uniform')
        return np.asarray(low) + (np.asarray(high) - np.asarray(low)) * u

    def random(self, size=None, **kw):
        return self._s.draw('u', size, 'random')

    def integers(self, low, high=None, size=None, **kw):
        if high is None:
            low, high = 0, low
        n = int(high) - int(low) + (1 if kw.get('endpoint') else 0)
        # (an index drawn this way is a choice among n alternatives)
        self._s.seam.choice_calls.append(
            {'stream': self._s.id, 'n': n, 'size': size, 'p': None,
             'via': 'integers'})
        i = self._s.draw('i', size, 'integers', n)
        return int(low) + i

    def choice(self, a, size=None, replace=True, p=None, **kw):
        arr = np.arange(a) if np.isscalar(a) else np.asarray(a)
        self._s.seam.choice_calls.append(
            {'stream': self._s.id, 'n': len(arr), 'size': size,
             'replace': bool(replace),
             'p': None if p is None else [float(x) for x in p]})
        i = self._s.draw('i', size, 'choice', len(arr))
        return arr[i]


class ScriptedRandomState(np.random.RandomState):
    """Scripted global RandomState (numpy.random.* functions, scipy's default)."""
    def __init__(self, seam):
        super().__init__(0)
        self._seam = seam
        self._s = _Stream(seam, 'global:unseeded')

    def seed(self, seed=None):
        self._seam.seed_calls.append(seed)
        self._s = _Stream(self._seam, 'global:%s' % (seed,))

    def uniform(self, low=0.0, high=1.0, size=None):
        u = self._s.draw('u', _bshape(size, low, high), 'g.uniform')
        return np.asarray(low) + (np.asarray(high) - np.asarray(low)) * u

    def random_sample(self, size=None):
        return self._s.draw('u', size, 'g.random')

    random = random_sample

    def normal(self, loc=0.0, scale=1.0, size=None):
        z = self._s.draw('z', _bshape(size, loc, scale), 'g.normal')
        return np.asarray(loc) + np.asarray(scale) * z

    def lognormal(self, mean=0.0, sigma=1.0, size=None):
        z = self._s.draw('z', _bshape(size, mean, sigma), 'g.lognormal')
        return np.exp(np.asarray(mean) + np.asarray(sigma) * z)

    def choice(self, a, size=None, replace=True, p=None):
        arr = np.arange(a) if np.isscalar(a) else np.asarray(a)
        self._seam.choice_calls.append(
            {'stream': self._s.id, 'n': len(arr), 'size': size,
             'replace': bool(replace),
             'p': None if p is None else [float(x) for x in p]})
        i = self._s.draw('i', size, 'g.choice', len(arr))
        return arr[i]

    def randint(self, low, high=None, size=None, dtype=int):
        if high is None:
            low, high = 0, low
        self._seam.choice_calls.append(
            {'stream': self._s.id, 'n': int(high) - int(low), 'size': size,
             'p': None, 'via': 'randint'})
        i = self._s.draw('i', size, 'g.randint', int(high) - int(low))
        return int(low) + i


_GLOBAL_FUNCS = ['seed', 'uniform', 'random', 'random_sample', 'normal',
                 'lognormal', 'choice', 'randint']


class Seam(object):
    def __init__(self, script=None):
        self.script = script or Script()
        self.log = []
        self.choice_calls = []
        self.n_of = {}          # (stream, index) -> number of alternatives ('i')
        self.seed_calls = []
        self._fresh = 0
        self.default_rng_calls = []

    def default_rng(self, seed=None):
        self.default_rng_calls.append(
            seed if not isinstance(seed, np.random.Generator) else 'generator')
        if isinstance(seed, np.random.Generator):
            return seed
        if seed is None:
            self._fresh += 1
            return ScriptedGenerator(self, 'fresh:%d' % self._fresh)
        return ScriptedGenerator(self, 'seed:%d' % int(seed))

    def __enter__(self):
        self._saved = {f: getattr(np.random, f) for f in _GLOBAL_FUNCS}
        self.global_state = ScriptedRandomState(self)
        np.random.default_rng = self.default_rng
        for f in _GLOBAL_FUNCS:
            setattr(np.random, f, getattr(self.global_state, f))
        _mt._rand = self.global_state
        # scipy distributions captured the global RandomState when scipy.stats was
        # imported; chi samples scipy.stats.truncnorm through it
        from scipy import stats
        self._saved_scipy = stats.truncnorm.random_state
        stats.truncnorm.random_state = self.global_state
        return self

    def __exit__(self, *exc):
        np.random.default_rng = _REAL_DEFAULT_RNG
        for f, v in self._saved.items():
            setattr(np.random, f, v)
        _mt._rand = _REAL_RAND
        from scipy import stats
        stats.truncnorm.random_state = self._saved_scipy
        return False

    def consumed(self):
        return [(s, i) for s, i, k, c in self.log]
