"""RefSimulation: pure-Python stand-in for myokit.Simulation (CVODES is not available
in this sandbox: no sundials headers). Environment model, see DESIGN.md §2.1.

Implements exactly the calls chi makes: constructor (model, protocol, sensitivities),
attribute `_model`, reset, set_state, set_constant, set_protocol,
run(duration, log, log_times) -> log dict, or (log dict, sens[time][output][param]).

The cloned myokit model is compiled once to a Python right-hand side (myokit's own
NumPy expression writer, variables in dependency order); the pacing level is computed
from the protocol events; integration is piecewise between protocol break points with
scipy LSODA (rtol 1e-10, atol 1e-12); forward sensitivities (incl. init(state)) are
obtained by integrating the augmented system whose directional derivatives come from
complex-step differentiation of the compiled right-hand side.

It counts constructions and runs and can be told to fail on chosen runs (fault
injection for the purity / error-path checks)."""
import math

import myokit
import myokit.formats.python as mfp
import numpy as np
from scipy.integrate import solve_ivp

RTOL = 1e-10
ATOL = 1e-12
H = 1e-30


class Counters(object):
    created = 0
    runs = 0
    fail_runs = set()      # global run indices (0-based) that raise SimulationError

    @classmethod
    def reset(cls):
        cls.created = 0
        cls.runs = 0
        cls.fail_runs = set()


def _uname(var):
    return 'v_' + var.qname().replace('.', '__')


class RefSimulation(object):

    def __init__(self, model, protocol=None, sensitivities=None, path=None):
        Counters.created += 1
        self._model = model.clone()
        self._protocol = protocol.clone() if protocol is not None else None
        m = self._model
        self._states = list(m.states())
        self._state_names = [s.qname() for s in self._states]
        self._default_state = [float(x) for x in m.initial_values(as_floats=True)]
        self._state = list(self._default_state)
        self._time = 0.0
        self._const_names = []
        self._const_values = []
        for v in m.variables(const=True, deep=True):
            if v.is_literal():
                self._const_names.append(v.qname())
                self._const_values.append(float(v.rhs().eval()))
        self._sens = None
        if sensitivities is not None:
            deps, indeps = sensitivities
            deps = [str(d) for d in deps]
            indeps = [str(i) for i in indeps]
            for d in deps:
                m.get(d)
            for i in indeps:
                name = i[5:-1] if i.startswith('init(') else i
                m.get(name)
            self._sens = (deps, indeps)
        self._compile()

    # ------------------------------------------------------------ compilation
    def _compile(self):
        m = self._model
        w = mfp.NumPyExpressionWriter()

        def lhs(e):
            if isinstance(e, myokit.Derivative):
                return 'd_' + _uname(e.var())[2:]
            return _uname(e.var())
        w.set_lhs_function(lhs)
        variables = list(m.variables(deep=True))
        # dependency order (states and bound/literal variables are sources)
        order, seen = [], set()
        cidx = {n: k for k, n in enumerate(self._const_names)}

        def visit(v, stack=()):
            if v.qname() in seen:
                return
            if v in stack:
                raise ValueError('cyclic dependency at ' + v.qname())
            if not (v.is_state() or v.is_bound()
                    or (v.is_literal() and v.qname() in cidx)):
                for ref in v.rhs().references():
                    rv = ref.var()
                    if isinstance(ref, myokit.Derivative):
                        continue
                    visit(rv, stack + (v,))
            seen.add(v.qname())
            order.append(v)
        for v in variables:
            if not v.is_state():
                visit(v)
        lines = []
        for i, s in enumerate(self._states):
            lines.append('    %s = y[%d]' % (_uname(s), i))
        for v in order:
            if v.is_state():
                continue
            if v.is_bound():
                b = v.binding()
                lines.append('    %s = %s' % (
                    _uname(v), {'time': 't', 'pace': 'pace'}.get(b, '0.0')))
            elif v.is_literal() and v.qname() in cidx:
                lines.append('    %s = c[%d]' % (_uname(v), cidx[v.qname()]))
            else:
                lines.append('    %s = %s' % (_uname(v), w.ex(v.rhs())))
        dl = []
        for s in self._states:
            dl.append('    d_%s = %s' % (_uname(s)[2:], w.ex(s.rhs())))
        body = '\n'.join(lines + dl)
        src = 'def rhs(t, y, c, pace):\n' + body + '\n    return [' + ', '.join(
            'd_' + _uname(s)[2:] for s in self._states) + ']\n'
        src += 'def allvars(t, y, c, pace):\n' + body + '\n    return locals()\n'
        ns = {'numpy': np, 'np': np, 'math': math}
        exec(src, ns)
        self._rhs = ns['rhs']
        self._allvars = ns['allvars']
        self._cidx = cidx

    # ------------------------------------------------------------ myokit API
    def reset(self):
        self._state = list(self._default_state)
        self._time = 0.0

    def set_state(self, state):
        state = [float(x) for x in state]
        if len(state) != len(self._states):
            raise ValueError('Wrong number of states.')
        self._state = state

    def state(self):
        return list(self._state)

    def set_constant(self, var, value):
        name = var.qname() if isinstance(var, myokit.Variable) else str(var)
        if name not in self._cidx:
            raise ValueError('Not a literal constant: ' + name)
        self._const_values[self._cidx[name]] = float(value)

    def set_protocol(self, protocol, label='pace'):
        self._protocol = protocol.clone() if protocol is not None else None

    # ------------------------------------------------------------ pacing
    def _events(self):
        if self._protocol is None:
            return []
        return [(e.level(), e.start(), e.duration(), e.period(), e.multiplier())
                for e in self._protocol.events()]

    def _pace(self, t):
        level = 0.0
        for lv, s, d, p, n in self._events():
            if t < s:
                continue
            if p == 0:
                if t < s + d:
                    level = lv
            else:
                k = math.floor((t - s) / p)
                if (n == 0 or k < n) and (t - s) - k * p < d:
                    level = lv
        return float(level)

    def _breaks(self, t0, t1):
        pts = set([t0, t1])
        for lv, s, d, p, n in self._events():
            k = 0
            while True:
                a = s + k * p
                if a > t1:
                    break
                for x in (a, a + d):
                    if t0 < x < t1:
                        pts.add(x)
                k += 1
                if p == 0 or (n > 0 and k >= n):
                    break
        return sorted(pts)

    # ------------------------------------------------------------ run
    def run(self, duration, log=None, log_times=None, **kwargs):
        idx = Counters.runs
        Counters.runs += 1
        if idx in Counters.fail_runs:
            raise myokit.SimulationError('injected solver failure (run %d)' % idx)
        t0 = self._time
        t1 = t0 + float(duration)
        log = list(log) if log is not None else list(self._state_names)
        # (a variable named twice is logged once, as by myokit)
        log = list(dict.fromkeys(log))
        log_times = np.asarray(log_times, dtype=float)
        if np.any(np.diff(log_times) < 0):
            raise ValueError('log_times must be non-decreasing')
        if len(log_times) and (log_times[0] < t0 or log_times[-1] >= t1):
            raise ValueError('log_times outside the simulated interval')
        ns = len(self._states)
        c = list(self._const_values)
        y = np.array(self._state, dtype=float)
        deps, indeps = self._sens if self._sens is not None else ([], [])
        npar = len(indeps)
        S = np.zeros((ns, npar))
        cpert = []
        for k, ind in enumerate(indeps):
            if ind.startswith('init('):
                S[self._state_names.index(ind[5:-1]), k] = 1.0
                cpert.append(None)
            else:
                cpert.append(self._cidx[ind])
        rhs = self._rhs

        def f(t, z, pace):
            yy = z[:ns]
            out = np.empty(ns * (1 + npar))
            out[:ns] = rhs(t, yy, c, pace)
            if npar:
                SS = z[ns:].reshape(ns, npar)
                cols = np.empty((ns, npar))
                for k in range(npar):
                    yc = yy + 1j * H * SS[:, k]
                    cc = c
                    if cpert[k] is not None:
                        cc = list(c)
                        cc[cpert[k]] = c[cpert[k]] + 1j * H
                    cols[:, k] = np.imag(np.array(rhs(t, yc, cc, pace))) / H
                out[ns:] = cols.reshape(-1)
            return out
        z = np.concatenate([y, S.reshape(-1)])
        uniq, inverse = np.unique(log_times, return_inverse=True)
        rows = {}
        pts = self._breaks(t0, t1)
        for a, b in zip(pts[:-1], pts[1:]):
            pace = self._pace(0.5 * (a + b))
            te = uniq[(uniq >= a) & (uniq < b)]
            tev = np.concatenate([te, [b]])
            sol = solve_ivp(f, (a, b), z, method='LSODA', rtol=RTOL, atol=ATOL,
                            t_eval=tev, args=(pace,))
            if not sol.success:
                raise myokit.SimulationError('reference integrator failed: '
                                             + str(sol.message))
            for j, t in enumerate(te):
                rows[float(t)] = (sol.y[:, j].copy(), pace)
            z = sol.y[:, -1].copy()
        self._state = [float(v) for v in z[:ns]]
        self._time = t1
        out = {name: [] for name in log}
        sens_out = []
        for t in uniq:
            zz, pace = rows[float(t)]
            loc = self._allvars(t, zz[:ns], c, pace)
            for name in log:
                out[name].append(float(np.real(loc[_uname(self._model.get(name))])))
            if self._sens is not None:
                SS = zz[ns:].reshape(ns, npar)
                block = np.empty((len(deps), npar))
                for k in range(npar):
                    yc = zz[:ns] + 1j * H * SS[:, k]
                    cc = c
                    if cpert[k] is not None:
                        cc = list(c)
                        cc[cpert[k]] = c[cpert[k]] + 1j * H
                    lk = self._allvars(t, yc, cc, pace)
                    for r, dep in enumerate(deps):
                        block[r, k] = np.imag(lk[_uname(self._model.get(dep))]) / H
                sens_out.append(block)
        # expand ties
        for name in log:
            out[name] = [out[name][i] for i in inverse]
        if self._sens is not None:
            sens_out = [sens_out[i] for i in inverse]
            return out, np.array(sens_out).reshape(len(log_times), len(deps), npar)
        return out


def install():
    """Assign the stand-in to myokit.Simulation (before chi builds any model)."""
    myokit.Simulation = RefSimulation
    return RefSimulation
