import sys
from vcheck.core.runner import main
sys.exit(main())
