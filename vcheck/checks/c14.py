"""C14 — the problem controller builds exactly the posterior the dataset describes.

Shape (A): long-format tables generated from individuals x unbalanced per-observable
time sets x dose rows x covariate rows x missing values / times x ID dtype x extra
columns x column keys x EVERY permutation of the per-individual row blocks and several
interleavings of the rows; with / without population model and fixed parameters; toy
models and the SBML one-compartment model with dosing (on RefSimulation). Oracle: the
posterior assembled by hand (rows routed by a 40-line reference router, one
chi.LogLikelihood per individual on a fresh model with that individual's own protocol,
chi.HierarchicalLogLikelihood with the routed covariates, same prior): score,
sensitivities, names, IDs must be equal; the caller's frame must be unchanged."""
import itertools

import myokit
import numpy as np
import pandas as pd
import pints

import chi
import chi.library

from ..core import tol, vals
from ..core.engine import Part, key_of
from ..gen import popbuild
from ..gen.toymodel import ToyModel
from ..ref import populations as rp

PROPERTY = 'C14'


# ------------------------------------------------------------ data generation

def fmt_id(i, id_type):
    if id_type == 'int':
        return int(i)
    if id_type == 'float':
        return float(i)
    return 'id%s' % i


def make_rows(case):
    """List of row dicts (before ordering) and the reference routing."""
    rows = []
    it = case['id_type']
    for ind in case['inds']:
        _id = fmt_id(ind['id'], it)
        block = []
        ren = case.get('obs_rename') or {}
        doses = list(ind.get('doses', []))
        joined = None
        if ind.get('same_row') and doses:
            # the first dose is recorded in the row of the measurement taken at
            # the time of administration
            joined = doses.pop(0)
        for obs, pairs in ind['obs'].items():
            for t, v in pairs:
                row = {'ID': _id, 'Time': t, 'Observable': ren.get(obs, obs),
                       'Value': np.nan if ind.get('unmeasured') else v,
                       'Dose': np.nan, 'Duration': np.nan}
                if joined is not None and t == joined[0] and \
                        obs == list(ind['obs'])[0]:
                    row['Dose'] = joined[1]
                    row['Duration'] = np.nan if joined[2] is None else joined[2]
                    joined = None
                block.append(row)
        for t, dose, dur in doses:
            block.append({'ID': _id, 'Time': t, 'Observable': np.nan,
                          'Value': np.nan, 'Dose': dose,
                          'Duration': np.nan if dur is None else dur})
        for cname, cv in ind.get('cov', {}).items():
            if case['extras'].get('cov_nan_first'):
                # a record of the covariate without a value precedes the valid one
                block.append({'ID': _id, 'Time': np.nan, 'Observable': cname,
                              'Value': np.nan, 'Dose': np.nan, 'Duration': np.nan})
            block.append({'ID': _id, 'Time': np.nan, 'Observable': cname,
                          'Value': cv, 'Dose': np.nan, 'Duration': np.nan})
            if case['extras'].get('cov_nan_last'):
                block.append({'ID': _id, 'Time': np.nan, 'Observable': cname,
                              'Value': np.nan, 'Dose': np.nan, 'Duration': np.nan})
        if case['extras'].get('unrelated_obs') or ind.get('unmeasured'):
            block.append({'ID': _id, 'Time': 0.7, 'Observable': 'weightZ',
                          'Value': 77.0 + ind['id'], 'Dose': np.nan,
                          'Duration': np.nan})
        if case['extras'].get('nan_rows'):
            first_obs = list(ind['obs'])[0]
            block.append({'ID': _id, 'Time': 1.23, 'Observable': first_obs,
                          'Value': np.nan, 'Dose': np.nan, 'Duration': np.nan})
            block.append({'ID': _id, 'Time': np.nan, 'Observable': first_obs,
                          'Value': 4.2, 'Dose': np.nan, 'Duration': np.nan})
        rows.append(block)
    return rows


def make_frame(case):
    blocks = make_rows(case)
    blocks = [blocks[i] for i in case['block_order']]
    inter = case['interleave']
    out = []
    for b in blocks:
        b = list(b)
        if inter == 'reversed':
            b = b[::-1]
        elif inter == 'rotated':
            b = b[len(b) // 2:] + b[:len(b) // 2]
        out += b
    if inter == 'zipped':
        out = []
        mx = max(len(b) for b in blocks)
        for k in range(mx):
            for b in blocks:
                if k < len(b):
                    out.append(b[k])
    df = pd.DataFrame(out)
    if not case['dosing']:
        df = df.drop(columns=['Dose', 'Duration'])
    elif not case['extras'].get('duration_column', True):
        df = df.drop(columns=['Duration'])
    if case['extras'].get('extra_col'):
        df['Comment'] = ['c%d' % i for i in range(len(df))]
    # row labels as left behind by shuffling / filtering / concatenating frames
    ix = case['extras'].get('index', 'range')
    if ix == 'reversed':
        df.index = list(range(len(df)))[::-1]
    elif ix == 'shuffled':
        df.index = [(7 * i + 3) % len(df) for i in range(len(df))] \
            if len(df) % 7 else list(range(len(df)))[::-1]
    elif ix == 'gaps':
        df.index = [3 * i + 5 for i in range(len(df))]
    elif ix == 'dup':
        df.index = [i % 2 for i in range(len(df))]
    keys = {}
    if case['extras'].get('custom_keys'):
        ren = {'ID': 'Subject', 'Time': 'T', 'Observable': 'What', 'Value': 'Y',
               'Dose': 'Amt', 'Duration': 'Len'}
        df = df.rename(columns=ren)
        keys = {'id_key': 'Subject', 'time_key': 'T', 'obs_key': 'What',
                'value_key': 'Y'}
        if case['dosing']:
            keys['dose_key'] = 'Amt'
            keys['dose_duration_key'] = 'Len'
    if case['dosing'] and not case['extras'].get('duration_column', True):
        keys['dose_duration_key'] = None
    return df, keys


def first_appearance(case):
    blocks = make_rows(case)
    order = []
    df, _ = make_frame(case)
    idcol = 'Subject' if case['extras'].get('custom_keys') else 'ID'
    for v in df[idcol]:
        if v not in order:
            order.append(v)
    by_id = {fmt_id(ind['id'], case['id_type']): ind for ind in case['inds']}
    return [by_id[v] for v in order]


# ------------------------------------------------------------ models

def mech_model(case, for_controller=False):
    if case['model'] == 'toy1':
        return ToyModel(2, 1), {'o0': 'A'}
    if case['model'] == 'toy2' and case.get('outputs_arg'):
        # the controller is given `outputs=`: the same outputs, the other order, or
        # one of them (the hand-assembled side configures its model itself)
        sel = {'same': ['o0', 'o1'], 'reversed': ['o1', 'o0'], 'second': ['o1'],
               'first': ['o0']}[case['outputs_arg']]
        m = ToyModel(2, 2)
        if case.get('outputs_preset'):
            m.set_outputs(case['outputs_preset'])
        if not for_controller:
            m.set_outputs(sel)
        full = {'o0': 'A', 'o1': 'B'}
        return m, {o: full[o] for o in sel}
    if case['model'] == 'toy2':
        if case.get('map_order') == 'reversed':
            # the same mapping, written down in the other order
            return ToyModel(2, 2), {'o1': 'B', 'o0': 'A'}
        return ToyModel(2, 2), {'o0': 'A', 'o1': 'B'}
    m = chi.library.ModelLibrary().one_compartment_pk_model()
    m.set_administration('central', direct=case.get('direct', True))
    return m, {'central.drug_concentration': 'A'}


def error_models(case):
    if case['model'] == 'toy2' and case.get('outputs_arg'):
        return {'same': lambda: [chi.GaussianErrorModel(),
                                 chi.ConstantAndMultiplicativeGaussianErrorModel()],
                'reversed': lambda: [
                    chi.ConstantAndMultiplicativeGaussianErrorModel(),
                    chi.GaussianErrorModel()],
                'second': lambda: [
                    chi.ConstantAndMultiplicativeGaussianErrorModel()],
                'first': lambda: [chi.GaussianErrorModel()]}[case['outputs_arg']]()
    if case['model'] == 'toy2':
        return [chi.GaussianErrorModel(),
                chi.ConstantAndMultiplicativeGaussianErrorModel()]
    return [chi.GaussianErrorModel()]


def bottom_names(case):
    m, _ = mech_model(case)
    names = m.parameters()
    if case['model'] == 'toy2' and case.get('outputs_arg'):
        return names + {
            'same': ['o0 Sigma', 'o1 Sigma base', 'o1 Sigma rel.'],
            'reversed': ['o1 Sigma base', 'o1 Sigma rel.', 'o0 Sigma'],
            'second': ['Sigma base', 'Sigma rel.'], 'first': ['Sigma']}[
                case['outputs_arg']]
    if case['model'] == 'toy2':
        return names + ['o0 Sigma', 'o1 Sigma base', 'o1 Sigma rel.']
    return names + ['Sigma']


def build_prior(n):
    return pints.ComposedLogPrior(*[
        pints.GaussianLogPrior(1.0 + 0.05 * i, 3.0) for i in range(n)])


def name_covariates(pop, reverse=False):
    """Distinct covariate names, given to the covariate sub-models themselves (a
    composed model numbers each sub-model's covariates from 1). reverse: the names
    are handed out from the last one."""
    total = pop.n_covariates()
    labels = ['cv%d' % j for j in range(total)]
    if reverse:
        labels = labels[::-1]
    k = 0
    for sub in pop.get_population_models():
        n = sub.n_covariates()
        if n:
            sub.set_covariate_names(labels[k:k + n])
            k += n


def controller_posterior(case, df, keys):
    m, oo = mech_model(case, for_controller=True)
    if case['model'] == 'lib1':
        # (the user simulated the model before handing it over -- the usual way to
        # synthetic data -- at the very values the posterior is evaluated at later)
        for k_ in (1, 0):
            xs_ = vals.reals('c14.x%d' % k_, m.n_parameters() + 1, 0.4, 1.6,
                             case['seed'])
            m.simulate(list(xs_[:m.n_parameters()]), [0.5, 1.0])
    if case.get('obs_rename'):
        oo = {out: case['obs_rename'].get(name, name) for out, name in oo.items()}
    if case.get('no_map'):
        # the observables carry the names of the outputs: no map is given
        assert all(k_ == v_ for k_, v_ in oo.items())
        oo = None
    if case.get('outputs_arg'):
        c = chi.ProblemModellingController(m, error_models(case),
                                           outputs=list(oo.keys()))
    else:
        c = chi.ProblemModellingController(m, error_models(case))
    # the user's model object goes on living: what is done to it afterwards does not
    # reach the controller
    if case['model'] == 'lib1':
        m.set_dosing_regimen(9.0, start=0.1, duration=0.2)
    else:
        m.set_parameter_names({'p0': 'renamed by the user afterwards'})
    if case.get('fix_before_data'):
        # parameters are fixed before the data are given
        names0 = c.get_parameter_names()
        c.fix_parameters({names0[i]: v for i, v in case['fix']})
    cov_dict = None
    if case.get('pop') is not None:
        pop = popbuild.build(case.get('earlier_pop') or case['pop'], None)
        if case.get('earlier_pop') is not None:
            name_covariates(pop)
        if rp.n_cov(case['pop']):
            cov_dict = {n: cn for n, cn in zip(pop.get_covariate_names(),
                                               case['cov_names'])}
        if case.get('pop_first', True):
            c.set_population_model(pop)
            c.set_data(df, output_observable_dict=oo, covariate_dict=cov_dict,
                       **keys)
        else:
            c.set_data(df, output_observable_dict=oo, **keys)
            c.set_population_model(pop)
            if cov_dict:
                c.set_data(df, output_observable_dict=oo, covariate_dict=cov_dict,
                           **keys)
    else:
        if case.get('earlier_dosed_data'):
            # the same individuals' records WITH dose rows were given first; the
            # final dataset has no dose information
            df0, keys0 = make_frame(dict(case, dosing=True))
            c.set_data(df0, output_observable_dict=oo, **keys0)
            if case['earlier_dosed_data'] == 'posterior':
                c.set_log_prior(build_prior(c.get_n_parameters()))
                c.get_log_posterior()
            keys = dict(keys, dose_key=None, dose_duration_key=None)
        c.set_data(df, output_observable_dict=oo, **keys)
    if case.get('earlier_pop') is not None:
        # another population model (other roles for the same covariates) was in
        # place and a posterior was taken before the final one is set
        c.set_log_prior(build_prior(c.get_n_parameters()))
        c.get_log_posterior()
        pop2 = popbuild.build(case['pop'], None)
        name_covariates(pop2, reverse=bool(case.get('final_cov_reversed')))
        c.set_population_model(pop2)
        if cov_dict and case.get('resend_data', True):
            c.set_data(df, output_observable_dict=oo, covariate_dict=cov_dict,
                       **keys)
    if case.get('fix') and not case.get('fix_before_data'):
        names = c.get_parameter_names()
        c.fix_parameters({names[i]: v for i, v in case['fix']})
    c.set_log_prior(build_prior(c.get_n_parameters()))
    return c


def hand_posterior(case, individual=None):
    """The posterior assembled by hand from the routed rows."""
    inds = first_appearance(case)
    m0, oo = mech_model(case)
    outputs = m0.outputs()
    lls = []
    bnames = bottom_names(case)
    fix = dict(case.get('fix') or [])
    for ind in inds:
        m, _ = mech_model(case)
        if case['dosing']:
            p = myokit.Protocol()
            for t, dose, dur in ind.get('doses', []):
                d = 0.01 if (dur is None or not case['extras'].get(
                    'duration_column', True)) else dur
                p.add(myokit.ProtocolEvent(dose / d, t, d))
            m.set_dosing_regimen(p)
        obs, times = [], []
        for o in outputs:
            # (an individual all of whose measurements are missing still is an
            # individual of the population)
            pairs = [] if ind.get('unmeasured') else sorted(
                ind['obs'].get(oo[o], []))
            times.append([t for t, v in pairs])
            obs.append([v for t, v in pairs])
        ll = chi.LogLikelihood(m, error_models(case), obs, times)
        if case.get('pop') is None and fix:
            ll.fix_parameters({bnames[i]: v for i, v in fix.items()})
        ll.set_id(str(fmt_id(ind['id'], case['id_type'])))
        lls.append(ll)
    if case.get('pop') is None:
        k = 0
        if individual is not None:
            k = [str(fmt_id(i['id'], case['id_type'])) for i in inds].index(
                individual)
        ll = lls[k]
        return chi.LogPosterior(ll, build_prior(ll.n_parameters()))
    pop = popbuild.build(case['pop'], None)
    if case.get('earlier_pop') is not None:
        name_covariates(pop, reverse=bool(case.get('final_cov_reversed')))
    pop.set_dim_names(bnames)
    cov = None
    if rp.n_cov(case['pop']):
        cnames = case['cov_names'][::-1] if case.get('final_cov_reversed') \
            else case['cov_names']
        cov = np.array([[ind['cov'][cn] for cn in cnames] for ind in inds])
    if fix:
        pop.set_n_ids(len(inds))
        pop = chi.ReducedPopulationModel(pop)
        names = pop.get_parameter_names()
        pop.fix_parameters({names[i]: v for i, v in fix.items()})
    hl = chi.HierarchicalLogLikelihood(lls, pop, cov)
    return chi.HierarchicalLogPosterior(
        hl, build_prior(hl.n_parameters(exclude_bottom_level=True)))


# ------------------------------------------------------------ worker

def w_case(case):
    viol = []
    df, keys = make_frame(case)
    before = df.copy(deep=True)
    lab = '%s pop=%s order=%s/%s ids=%s' % (
        case['model'], None if case.get('pop') is None else popbuild.label(
            case['pop']), case['block_order'], case['interleave'], case['id_type'])
    c = controller_posterior(case, df, keys)
    if not before.equals(df) or list(before.columns) != list(df.columns):
        viol.append({'sub': 'frame', 'message': 'the caller\'s data frame was '
                     'modified by the controller', 'expected': 'unchanged',
                     'observed': 'changed', 'behaviour': 'frame_mutated'})
    ntr = 4
    targets = [None]
    if case.get('pop') is None:
        targets = [str(fmt_id(i['id'], case['id_type']))
                   for i in first_appearance(case)]
    outcome = []
    for target in targets:
        post = c.get_log_posterior(target) if target is not None else \
            c.get_log_posterior()
        hand = hand_posterior(case, target)
        ntr += 2
        n = hand.n_parameters()
        if post.n_parameters() != n:
            viol.append({'sub': 'count', 'message': 'number of parameters differs '
                         'from the hand-assembled posterior (%s)' % lab,
                         'expected': n, 'observed': post.n_parameters(),
                         'behaviour': 'count'})
            continue
        gn = list(post.get_parameter_names(include_ids=True)) if case.get(
            'pop') is not None else list(post.get_parameter_names())
        en = list(hand.get_parameter_names(include_ids=True)) if case.get(
            'pop') is not None else list(hand.get_parameter_names())
        if gn != en:
            viol.append({'sub': 'names', 'message': 'parameter names / individual '
                         'positions differ from the hand-assembled posterior (%s)'
                         % lab, 'expected': en, 'observed': gn,
                         'behaviour': 'names'})
        if list(post.get_id()) != list(hand.get_id()) if case.get('pop') \
                is not None else post.get_id() != hand.get_id():
            viol.append({'sub': 'ids', 'message': 'IDs differ from the '
                         'hand-assembled posterior (%s)' % lab,
                         'expected': hand.get_id(), 'observed': post.get_id(),
                         'behaviour': 'ids'})
        for k in (0, 1):
            x = np.array(vals.reals('c14.x%d' % k, n, 0.4, 1.6, case['seed']))
            a, b = post(x), hand(x)
            ntr += 2
            if not tol.close(a, b, 1e-7, 1e-9):
                viol.append({'sub': 'score', 'message': 'log-posterior differs '
                             'from the one assembled by hand from the dataset '
                             '(%s, individual %s)' % (lab, target), 'expected': b,
                             'observed': a, 'behaviour': 'score'})
                break
            outcome.append(a)
        sa, ga = post.evaluateS1(x)
        sb, gb = hand.evaluateS1(x)
        if not tol.close(sa, a, 1e-6, 1e-8):
            viol.append({'sub': 's1_score', 'message': 'the score returned with the '
                         'sensitivities differs from the plain evaluation (%s, '
                         'individual %s)' % (lab, target), 'expected': a,
                         'observed': sa, 'behaviour': 's1_score'})
        # (the plain call after the call with sensitivities is the same number as
        # the plain call before it)
        a2 = post(x)
        ntr += 1
        if not tol.close(a2, a, 1e-7, 1e-9):
            viol.append({'sub': 'after_s1', 'message': 'the log-posterior at the '
                         'same point differs once evaluateS1 was called in between '
                         '(%s, individual %s)' % (lab, target), 'expected': a,
                         'observed': a2, 'behaviour': 'after_s1'})
        if not tol.close(sa, sb, 1e-7, 1e-9) or not tol.allclose(
                ga, gb, 1e-6, 1e-8):
            viol.append({'sub': 'grad', 'message': 'sensitivities differ from the '
                         'hand-assembled posterior (%s)' % lab, 'expected': gb,
                         'observed': ga, 'behaviour': 'grad'})
    # histories of fix_parameters calls: the posterior handed out after every call
    # is kept, and all of them are evaluated at the end against the posterior
    # assembled by hand for the fixed values in force when each was handed out
    if case.get('refix'):
        full = bottom_names(case)
        kept = []
        net = dict(case.get('fix') or [])
        tgt = targets[0]
        for step in case['refix']:
            c.fix_parameters({full[i]: v for i, v in step})
            for i, v in step:
                if v is None:
                    net.pop(i, None)
                else:
                    net[i] = v
            c.set_log_prior(build_prior(c.get_n_parameters()))
            hc = dict(case)
            hc['fix'] = sorted(net.items())
            kept.append((dict(net), c.get_log_posterior(tgt),
                         hand_posterior(hc, tgt)))
            ntr += 2
        for k, (net_k, post, hand) in enumerate(kept):
            n = hand.n_parameters()
            x = np.array(vals.reals('c14.xr', n, 0.4, 1.6, case['seed']))
            if post.n_parameters() != n:
                viol.append({'sub': 'refix_count', 'message': 'posterior handed out '
                             'after fix_parameters call %d has the wrong number of '
                             'parameters (%s)' % (k, lab), 'expected': n,
                             'observed': post.n_parameters(),
                             'behaviour': 'refix'})
                continue
            a, b = post(x), hand(x)
            ntr += 2
            if not tol.close(a, b, 1e-7, 1e-9):
                viol.append({'sub': 'refix', 'message': 'posterior handed out after '
                             'fix_parameters call %d (fixed %s) differs from the '
                             'hand-assembled one once later calls were made (%s)'
                             % (k, net_k, lab), 'expected': b, 'observed': a,
                             'behaviour': 'refix'})
            outcome.append(a)
    # regimens reported per individual
    if case['dosing']:
        regs = c.get_dosing_regimens()
        for ind in case['inds']:
            key = str(fmt_id(ind['id'], case['id_type']))
            got = sorted((e.start(), e.duration(), e.level() * e.duration())
                         for e in regs[key].events()) if key in regs else None
            exp = sorted((t, 0.01 if (dur is None or not case['extras'].get(
                'duration_column', True)) else dur, dose)
                for t, dose, dur in ind.get('doses', []))
            if got is None or len(got) != len(exp) or (exp and not tol.allclose(
                    np.array(got), np.array(exp))):
                viol.append({'sub': 'regimens', 'message': 'get_dosing_regimens '
                             'does not reproduce the dose rows (%s)' % lab,
                             'expected': exp, 'observed': got,
                             'behaviour': 'regimens'})
    return {'transitions': ntr, 'outcome': tol.rnd(outcome, 9),
            'violations': viol}


WORKERS = {'individual': w_case, 'hierarchical': w_case, 'dosing': w_case,
           'metamorphic': w_case, 'refix': w_case}


# ------------------------------------------------------------ cases

def individuals(n, two_obs, dosing, with_cov, seed, replicates=False):
    inds = []
    for i in range(n):
        nt = [2, 3, 1][i % 3]
        ta = sorted(vals.reals('c14.ta%d' % i, nt, 0.2, 3.0, seed))
        va = vals.reals('c14.va%d' % i, nt, 0.8, 6.0, seed)
        obs = {'A': list(zip(ta, va))}
        if two_obs:
            ntb = [1, 0, 2][i % 3]       # unbalanced: one individual without B
            tb = sorted(vals.reals('c14.tb%d' % i, ntb, 0.2, 3.0, seed)) \
                if ntb else []
            if ntb and i == 0:
                tb[0] = ta[0]             # shared time point
            vb = vals.reals('c14.vb%d' % i, ntb, 0.8, 6.0, seed) if ntb else []
            obs['B'] = list(zip(tb, vb))
        ind = {'id': [3, 1, 2][i], 'obs': obs}
        if replicates:
            # replicate measurements: the same observable at the same time again
            obs['A'] = sorted(obs['A'] + [(ta[0], va[0] * 1.1 + 0.2)]
                              + ([(ta[-1], va[-1] * 0.9)] if i == 1 else [])
                              # (two replicates with the very same reading)
                              + ([(ta[-1], va[-1])] if i != 1 else []))
        if dosing == 'same_row':
            ind['doses'] = [[(0.4, 2.0, 0.5)], [(0.5, 1.0, None), (1.5, 3.0, 0.25)],
                            [(0.2, 1.5, 0.3)]][i % 3]
            ind['same_row'] = True
            obs['A'] = sorted(obs['A'] + [(ind['doses'][0][0], 0.07 + 0.01 * i)])
        elif dosing == 'infusion_first':
            # an infusion row followed by a row without duration (bolus), and back
            ind['doses'] = [[(0.3, 2.0, 0.4), (1.2, 1.0, None)],
                            [(0.1, 1.5, None), (0.6, 3.0, 0.8), (1.4, 0.5, None)],
                            [(0.0, 1.0, 0.3)]][i % 3]
        elif dosing:
            ind['doses'] = [[(0.0, 2.0, 0.5)], [(0.5, 1.0, None), (1.5, 3.0, 0.25)],
                            []][i % 3]
        if with_cov:
            ind['cov'] = {'age': 0.3 + 0.25 * i, 'wt': 1.1 - 0.2 * i}
        inds.append(ind)
    return inds


def orders(n, tier):
    perms = [list(p) for p in itertools.permutations(range(n))]
    inter = ['grouped', 'reversed', 'rotated', 'zipped']
    return [(p, it) for p in perms for it in
            (inter if tier == 'thorough' else inter[:1] + inter[3:])]


def build(tier, seed):
    base_extras = {}
    ind_cases, hier_cases, dose_cases, meta = [], [], [], []
    # individual problems, toy models
    for model in ('toy1', 'toy2'):
        for n in (1, 2, 3):
            inds = individuals(n, model == 'toy2', False, False, seed)
            for (bo, it) in orders(n, tier):
                for id_type in ('int', 'str', 'float'):
                    for fix in (None, [[0, 1.3]], [[1, 0.6], [2, 0.4]]):
                        if tier == 'quick' and fix and id_type != 'int':
                            continue
                        ind_cases.append({
                            'model': model, 'inds': inds, 'id_type': id_type,
                            'block_order': bo, 'interleave': it, 'dosing': False,
                            'extras': {}, 'fix': fix, 'seed': seed})
    # hierarchical problems
    pops = {
        'toy1': [rp.Comp([rp.G(1), rp.P(1), rp.LN(1, False)]),
                 rp.Comp([rp.H(1), rp.LN(2)]),
                 rp.Comp([rp.Cov(rp.LN(1), 2), rp.G(1, False), rp.P(1)]),
                 rp.Comp([rp.Cov(rp.P(1), 1), rp.LN(2)]), rp.LN(3)],
        'toy2': [rp.Comp([rp.LN(2), rp.P(3)]),
                 rp.Comp([rp.P(1), rp.Cov(rp.G(1), 1), rp.H(1), rp.LN(2, False)])]}
    for model, plist in pops.items():
        for pop in plist:
            ncov = rp.n_cov(pop)
            for n in (1, 2, 3):
                inds = individuals(n, model == 'toy2', False, ncov > 0, seed)
                for (bo, it) in orders(n, tier):
                    for id_type in ('int', 'str'):
                        for fix in (None, [[0, 0.9]]):
                            if tier == 'quick' and (fix or id_type == 'str') and \
                                    it != 'grouped':
                                continue
                            hier_cases.append({
                                'model': model, 'inds': inds, 'id_type': id_type,
                                'block_order': bo, 'interleave': it,
                                'dosing': False, 'extras': {}, 'pop': pop,
                                'cov_names': ['age', 'wt'][:ncov], 'fix': fix,
                                'pop_first': (n % 2 == 1), 'seed': seed})
    # dosing: SBML model, individual and hierarchical
    for pop in (None, rp.Comp([rp.P(1), rp.LN(1), rp.P(1), rp.G(1)])):
        for n in (2, 3):
            inds = individuals(n, False, True, False, seed)
            for (bo, it) in orders(n, 'quick'):
                for dcol in (True, False):
                    for direct in (True, False) if pop is None else (True,):
                        if pop is not None and not direct:
                            continue
                        c = {'model': 'lib1', 'inds': inds, 'id_type': 'int',
                             'block_order': bo, 'interleave': it, 'dosing': True,
                             'extras': {'duration_column': dcol}, 'pop': pop,
                             'direct': direct, 'seed': seed}
                        if pop is not None and not direct:
                            continue
                        if not direct:
                            c['pop'] = None
                        dose_cases.append(c)
    # a dataset with dose rows was given before the final one without dose
    # information: the posteriors are those of the final dataset (undosed)
    for n in (1, 2, 3):
        inds = individuals(n, False, True, False, seed)
        for (bo, it) in orders(n, 'quick'):
            for how in (True, 'posterior'):
                for direct in (True, False):
                    dose_cases.append({
                        'model': 'lib1', 'inds': inds, 'id_type': 'int',
                        'block_order': bo, 'interleave': it, 'dosing': False,
                        'extras': {'duration_column': True}, 'pop': None,
                        'direct': direct, 'seed': seed,
                        'earlier_dosed_data': how})
    # the controller is told which outputs to use (and in which order), with the
    # model's outputs left alone or set beforehand to another order / selection
    for oarg in ('same', 'reversed', 'second', 'first'):
        for preset in (None, ['o1', 'o0'], ['o0'], ['o1']):
            for n in (1, 2, 3):
                inds = individuals(n, True, False, False, seed)
                for (bo, it) in orders(n, 'quick')[:2]:
                    for pop in (None, pops['toy2'][0]):
                        if pop is not None and oarg in ('first', 'second'):
                            continue
                        (ind_cases if pop is None else hier_cases).append({
                            'model': 'toy2', 'inds': inds, 'id_type': 'int',
                            'block_order': bo, 'interleave': it, 'dosing': False,
                            'extras': {}, 'fix': None, 'pop': pop, 'cov_names': [],
                            'pop_first': True, 'seed': seed, 'outputs_arg': oarg,
                            'outputs_preset': preset})
    # an individual without any usable measurement (all values missing, one row of
    # an unrelated observable): first, middle, last; with and without covariates
    for model, pop in (('toy1', pops['toy1'][0]), ('toy1', pops['toy1'][2]),
                       ('toy2', pops['toy2'][0])):
        ncov_ = rp.n_cov(pop)
        for n in (2, 3):
            for who in range(n):
                inds = [dict(i_) for i_ in individuals(
                    n, model == 'toy2', False, ncov_ > 0, seed)]
                inds[who]['unmeasured'] = True
                for (bo, it) in orders(n, 'quick')[:2]:
                    hier_cases.append({
                        'model': model, 'inds': inds, 'id_type': 'int',
                        'block_order': bo, 'interleave': it, 'dosing': False,
                        'extras': {}, 'pop': pop,
                        'cov_names': ['age', 'wt'][:ncov_], 'fix': None,
                        'pop_first': True, 'seed': seed})
    # designs in which the number of measurements of one observable equals the number
    # of distinct times of the individual although they are other times (replicates
    # of one observable, extra times of the other)
    coincide = [
        {'A': [(1.0, 2.1), (1.0, 2.4), (2.0, 3.0)], 'B': [(1.0, 1.2), (2.0, 1.9),
                                                          (3.0, 2.5)]},
        {'A': [(0.5, 1.1), (0.5, 1.3)], 'B': [(0.5, 2.0), (1.5, 2.2)]},
        {'A': [(2.0, 3.1), (2.0, 3.3), (2.0, 2.9)], 'B': [(0.5, 1.0), (1.0, 1.4),
                                                          (2.0, 1.7)]},
        {'A': [(0.4, 1.0), (1.1, 1.6), (1.9, 2.2)], 'B': [(1.1, 0.7), (1.1, 0.9),
                                                          (0.4, 1.3)]}]
    for k_, obs_c in enumerate(coincide):
        inds = [{'id': 1, 'obs': obs_c},
                {'id': 2, 'obs': coincide[(k_ + 1) % len(coincide)]}]
        for (bo, it) in orders(2, 'quick'):
            for pop in (None, pops['toy2'][0]):
                (ind_cases if pop is None else hier_cases).append({
                    'model': 'toy2', 'inds': inds, 'id_type': 'int',
                    'block_order': bo, 'interleave': it, 'dosing': False,
                    'extras': {}, 'fix': None, 'pop': pop, 'cov_names': [],
                    'pop_first': True, 'seed': seed})
    # an individual without any measurement of the FIRST output (the second output
    # has its own error parameters)
    for n in (2, 3):
        inds = [dict(i_) for i_ in individuals(n, True, False, False, seed)]
        inds[0] = dict(inds[0], obs=dict(inds[0]['obs'], A=[]))
        for (bo, it) in orders(n, 'quick')[:2]:
            for pop in (None, pops['toy2'][0]):
                (ind_cases if pop is None else hier_cases).append({
                    'model': 'toy2', 'inds': inds, 'id_type': 'int',
                    'block_order': bo, 'interleave': it, 'dosing': False,
                    'extras': {}, 'fix': None, 'pop': pop, 'cov_names': [],
                    'pop_first': True, 'seed': seed})
    # covariate records without a value before / after the record with the value
    for model, pop in (('toy1', pops['toy1'][2]), ('toy1', pops['toy1'][3]),
                       ('toy2', pops['toy2'][1])):
        ncov_ = rp.n_cov(pop)
        for n in (1, 2, 3):
            inds = individuals(n, model == 'toy2', False, True, seed)
            for (bo, it) in orders(n, 'quick'):
                for ex in ({'cov_nan_first': True}, {'cov_nan_last': True},
                           {'cov_nan_first': True, 'cov_nan_last': True}):
                    hier_cases.append({
                        'model': model, 'inds': inds, 'id_type': 'int',
                        'block_order': bo, 'interleave': it, 'dosing': False,
                        'extras': dict(ex), 'pop': pop,
                        'cov_names': ['age', 'wt'][:ncov_], 'fix': None,
                        'pop_first': True, 'seed': seed})
    # replicate measurements (one observable measured twice at one time)
    for model, pop in (('toy1', None), ('toy2', None), ('toy1', pops['toy1'][0])):
        for n in (1, 2, 3):
            inds = individuals(n, model == 'toy2', False, False, seed,
                               replicates=True)
            for (bo, it) in orders(n, 'quick'):
                (ind_cases if pop is None else hier_cases).append({
                    'model': model, 'inds': inds, 'id_type': 'int',
                    'block_order': bo, 'interleave': it, 'dosing': False,
                    'extras': {}, 'fix': None, 'pop': pop, 'cov_names': [],
                    'pop_first': True, 'seed': seed})
    # a dose recorded in the row of a measurement
    for n in (2, 3):
        inds = individuals(n, False, 'same_row', False, seed)
        for (bo, it) in orders(n, 'thorough')[::2]:
            dose_cases.append({
                'model': 'lib1', 'inds': inds, 'id_type': 'int', 'block_order': bo,
                'interleave': it, 'dosing': True,
                'extras': {'duration_column': True}, 'pop': None, 'direct': True,
                'seed': seed})
    # dataset observables named like the model outputs they are NOT mapped to
    for n in (1, 2, 3):
        inds = individuals(n, True, False, False, seed)
        for (bo, it) in orders(n, 'quick'):
            ind_cases.append({
                'model': 'toy2', 'inds': inds, 'id_type': 'int', 'block_order': bo,
                'interleave': it, 'dosing': False, 'extras': {}, 'fix': None,
                'seed': seed, 'obs_rename': {'A': 'o1', 'B': 'o0'}})
    # observables named like the outputs they belong to, no map given; the rows of
    # the second output come first in some orders
    for n in (1, 2, 3):
        inds = individuals(n, True, False, False, seed)
        for (bo, it) in orders(n, 'thorough')[::2]:
            for pop in (None, pops['toy2'][0]):
                (ind_cases if pop is None else hier_cases).append({
                    'model': 'toy2', 'inds': inds, 'id_type': 'int',
                    'block_order': bo, 'interleave': it, 'dosing': False,
                    'extras': {}, 'fix': None, 'seed': seed, 'pop': pop,
                    'cov_names': [], 'pop_first': True,
                    'obs_rename': {'A': 'o0', 'B': 'o1'}, 'no_map': True})
    ind_cases.append({
        'model': 'toy1', 'inds': individuals(2, True, False, False, seed),
        'id_type': 'int', 'block_order': [0, 1], 'interleave': 'grouped',
        'dosing': False, 'extras': {}, 'fix': None, 'seed': seed,
        'obs_rename': {'B': 'o0', 'A': 'conc'}})
    # row labels other than 0..n-1
    for ix in ('reversed', 'shuffled', 'gaps', 'dup'):
        for model, pop in (('toy2', None), ('toy1', pops['toy1'][2]),
                           ('lib1', None)):
            ncov = rp.n_cov(pop) if pop is not None else 0
            for n in (2, 3):
                inds = individuals(n, model == 'toy2', model == 'lib1', ncov > 0,
                                   seed)
                for (bo, it) in orders(n, 'quick')[::2]:
                    meta.append({'model': model, 'inds': inds, 'id_type': 'int',
                                 'block_order': bo, 'interleave': it,
                                 'dosing': model == 'lib1',
                                 'extras': {'index': ix, 'duration_column': True},
                                 'pop': pop, 'cov_names': ['age', 'wt'][:ncov],
                                 'seed': seed})
    # an earlier population model using the same covariates in other roles, with a
    # posterior taken before the final model is set
    twocov = rp.Comp([rp.Cov(rp.LN(1), 1), rp.Cov(rp.G(1), 1), rp.P(1)])
    swapped = rp.Comp([rp.Cov(rp.G(1), 1), rp.Cov(rp.LN(1), 1), rp.P(1)])
    for first, final in ((twocov, swapped), (swapped, twocov),
                         (pops['toy1'][2], twocov)):
        for n in (2, 3):
            inds = individuals(n, False, False, True, seed)
            hier_cases.append({
                'model': 'toy1', 'inds': inds, 'id_type': 'int',
                'block_order': list(range(n)), 'interleave': 'grouped',
                'dosing': False, 'extras': {}, 'pop': final,
                'earlier_pop': first, 'cov_names': ['age', 'wt'],
                'fix': None, 'pop_first': True, 'seed': seed})
            c_ = dict(hier_cases[-1])
            # (the covariate names are the same: the data need not be given again)
            c_['resend_data'] = False
            hier_cases.append(c_)
            # ... and the final model uses the two covariates in swapped roles
            c2_ = dict(c_)
            c2_['final_cov_reversed'] = True
            hier_cases.append(c2_)
    # parameters fixed before the data are given (dose rows must still be read)
    for n in (2, 3):
        for dinds in (individuals(n, False, True, False, seed),
                      individuals(n, False, 'infusion_first', False, seed)):
            for fix in ([[1, 1.2]], [[3, 0.5]], [[0, 0.2], [2, 0.7]]):
                dose_cases.append({
                    'model': 'lib1', 'inds': dinds, 'id_type': 'int',
                    'block_order': list(range(n)), 'interleave': 'grouped',
                    'dosing': True, 'extras': {'duration_column': True},
                    'pop': None, 'direct': True, 'fix': fix,
                    'fix_before_data': True, 'seed': seed})
    # the mapping dictionary written in the other order (two outputs)
    for n in (1, 2, 3):
        inds = individuals(n, True, False, False, seed)
        for (bo, it) in orders(n, 'quick'):
            ind_cases.append({
                'model': 'toy2', 'inds': inds, 'id_type': 'int', 'block_order': bo,
                'interleave': it, 'dosing': False, 'extras': {}, 'fix': None,
                'seed': seed, 'map_order': 'reversed'})
    hier_cases.append({
        'model': 'toy2', 'inds': individuals(3, True, False, False, seed),
        'id_type': 'int', 'block_order': [1, 2, 0], 'interleave': 'zipped',
        'dosing': False, 'extras': {}, 'pop': pops['toy2'][0], 'cov_names': [],
        'fix': None, 'pop_first': True, 'seed': seed, 'map_order': 'reversed'})
    # dose rows with and without duration in both orders, every interleaving
    for n in (2, 3):
        inds = individuals(n, False, 'infusion_first', False, seed)
        for (bo, it) in orders(n, 'thorough'):
            dose_cases.append({
                'model': 'lib1', 'inds': inds, 'id_type': 'int', 'block_order': bo,
                'interleave': it, 'dosing': True,
                'extras': {'duration_column': True}, 'pop': None, 'direct': True,
                'seed': seed})
    # fix_parameters histories with every handed-out posterior kept
    refix = []
    steps = {
        'toy1': [[[1, 0.6]], [[1, 1.1]], [[1, None], [0, 0.9]], [[2, 0.4]],
                 [[0, 1.2], [2, None]]],
        'lib1': [[[2, 0.2]], [[2, 0.6]], [[2, 1.1]], [[1, 0.9], [2, None]],
                 [[3, 0.3]]]}
    for model in ('toy1', 'lib1'):
        inds = individuals(2, False, model == 'lib1', False, seed)
        depth = 2 if tier == 'quick' else 3
        for r in range(2, depth + 1):
            for seq in itertools.permutations(steps[model], r):
                # (a problem with every parameter fixed has no posterior)
                net, full_fixed = set(), False
                for st in seq:
                    for i_, v_ in st:
                        (net.discard if v_ is None else net.add)(i_)
                    full_fixed |= len(net) >= (3 if model == 'toy1' else 4)
                if full_fixed:
                    continue
                refix.append({
                    'model': model, 'inds': inds, 'id_type': 'int',
                    'block_order': [0, 1], 'interleave': 'grouped',
                    'dosing': model == 'lib1',
                    'extras': {'duration_column': True}, 'pop': None,
                    'direct': True, 'fix': None, 'seed': seed,
                    'refix': [list(map(list, st)) for st in seq]})
    # metamorphic extras: unrelated observables, NaN rows, extra columns, keys
    for extras in ({'unrelated_obs': True}, {'nan_rows': True}, {'extra_col': True},
                   {'custom_keys': True},
                   {'unrelated_obs': True, 'nan_rows': True, 'extra_col': True,
                    'custom_keys': True}):
        for model, pop in (('toy2', None), ('toy1', pops['toy1'][2]),
                           ('lib1', None)):
            n = 2
            ncov = rp.n_cov(pop) if pop is not None else 0
            inds = individuals(n, model == 'toy2', model == 'lib1', ncov > 0, seed)
            for (bo, it) in orders(n, 'quick'):
                ex = dict(extras)
                if model == 'lib1':
                    ex['duration_column'] = True
                meta.append({'model': model, 'inds': inds, 'id_type': 'int',
                             'block_order': bo, 'interleave': it,
                             'dosing': model == 'lib1', 'extras': ex, 'pop': pop,
                             'cov_names': ['age', 'wt'][:ncov], 'seed': seed})
    return {
        'parts': [
            Part('individual', ind_cases, w_case,
                 'individual problems: block permutations x interleavings x ID '
                 'dtypes x fixed parameters'),
            Part('hierarchical', hier_cases, w_case,
                 'hierarchical problems incl. heterogeneous / pooled / covariate '
                 'population models'),
            Part('dosing', dose_cases, w_case,
                 'SBML model with per-individual dose rows (RefSimulation)'),
            Part('refix', refix, w_case,
                 'sequences of controller.fix_parameters calls (re-fix, release, '
                 'other parameter); every posterior handed out on the way is kept '
                 'and evaluated at the end'),
            Part('metamorphic', meta, w_case,
                 'unrelated observables / NaN rows / extra columns / custom keys'),
        ],
        'bounds': {'n_individuals_max': 3, 'dose_rows_max': 2,
                   'interleavings': ['grouped', 'reversed', 'rotated', 'zipped']},
        'rule': 'every permutation of the per-individual row blocks x the listed '
                'interleavings; the oracle itself contains the metamorphic '
                'relations (the hand-assembled posterior ignores unrelated rows, '
                'NaNs, extra columns, key names and ID dtypes)',
        'min_outcomes': {'individual': 10, 'hierarchical': 10},
        'assumptions': ['chi.LogLikelihood / HierarchicalLogLikelihood decided by '
                        'C01 / C02; SBML model on RefSimulation'],
    }


META = {
    'technique': 'bounded exhaustive enumeration of generated datasets (row-block '
                 'permutations, interleavings, missing values, ID dtypes, keys) on '
                 'the real ProblemModellingController, differential against a '
                 'posterior assembled by hand from reference-routed rows',
    'level_text': 'For 1-3 individuals with unbalanced per-observable sampling times, '
                  '0-2 dose rows, covariate rows, missing values/times, int/str/float '
                  'IDs, extra columns and non-default keys, EVERY permutation of the '
                  'individuals\' row blocks and four row interleavings are given to '
                  'the controller; score, sensitivities, names, IDs and regimens are '
                  'compared with the posterior assembled by hand (per-individual '
                  'LogLikelihood on a fresh model with that individual\'s protocol, '
                  'HierarchicalLogLikelihood with the routed covariates).',
    'level_note': 'Exhaustive over row-block permutations for <=3 individuals; '
                  'SBML/dosing cases run on RefSimulation.',
}
META['level_text'] += (
    ' Also: outputs= of the controller in every order x outputs preset on the model'
    ', an individual without usable measurements, observables named like their outp'
    'uts without a map, covariate records without a value, count-coincidence design'
    "s, the user's model reconfigured after the controller was built, the plain cal"
    'l repeated after evaluateS1.')
META['level_text'] += (' Wave 9: replicates with identical readings, a dataset with dose rows given before the final dataset without dose information.')
