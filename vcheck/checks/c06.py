"""C06 — samplers draw from the distribution their log-likelihood scores.

Shape (C): the random sources are behind the RngSeam; the base variates (standard
normal z, uniform u, categorical answers) are *enumerated*, not sampled. For every
sampler configuration: (1) deviation-1 exploration -- each consumed base variate is
moved in turn -- yields the dependency relation variate -> output cell, which must map
every variate to at most one cell and leave no random cell without a variate; (2) for a
cell fed by one variate the map y = T(z) is evaluated on a Gauss-Hermite / Gauss-Legendre
node set and must satisfy the change-of-variables identity
log p_chi(T(z)) + log|T'(z)| - log base(z) = const with p_chi the density the SAME
model's log-likelihood evaluates; (3) for a cell fed by two variates the push-forward
moments E[y^k], k<=4, over the tensor node grid must equal the moments of p_chi;
(4) reported moments (get_mean_and_std) equal the moments of p_chi."""
import itertools

import numpy as np
from scipy import integrate

import chi

from ..core import tol, vals
from ..core.engine import Part
from ..env.rngseam import Seam, Script
from ..gen import popbuild, popvals
from ..ref import errors as rerr, populations as rp

PROPERTY = 'C06'
SEED = 7
H = 1e-5


def nodes(n):
    x, w = np.polynomial.hermite.hermgauss(n)
    return np.sqrt(2) * x, w / np.sqrt(np.pi)


def unodes(n):
    x, w = np.polynomial.legendre.leggauss(n)
    return 0.5 * (x + 1), 0.5 * w


# ------------------------------------------------------------------ samplers

class ErrSampler(object):
    def __init__(self, case):
        # (0 is a seed like any other)
        self.seed = case.get('sample_seed', SEED)
        self.code = case['code']
        self.params = case['params']
        self.ybar = np.array(case['ybar'], dtype=float)
        self.n_samples = case['n_samples']
        self.fixed = case.get('fixed')
        em = getattr(chi, rerr.CHI_CLASS[self.code])()
        self.plain = em
        if self.fixed is not None:
            red = chi.ReducedErrorModel(getattr(chi, rerr.CHI_CLASS[self.code])())
            names = red.get_parameter_names()
            red.fix_parameters({names[self.fixed]: self.params[self.fixed]})
            self.model = red
            self.call_params = [p for i, p in enumerate(self.params)
                                if i != self.fixed]
        else:
            self.model = em
            self.call_params = list(self.params)
        self.label = 'ErrorModel %s%s' % (self.code, ' reduced' if self.fixed
                                          is not None else '')

    def sample(self):
        par = np.array(self.call_params, dtype=float)
        yb = np.array(self.ybar, dtype=float)
        p0, y0 = par.copy(), yb.copy()
        r = np.asarray(self.model.sample(
            par, yb, n_samples=self.n_samples, seed=self.seed), dtype=float)
        # the arrays handed over are the caller's
        self.mutated = getattr(self, 'mutated', False) or not (
            np.array_equal(par, p0) and np.array_equal(yb, y0))
        return r

    def expected_shape(self):
        return (len(self.ybar), self.n_samples)

    def random_cells(self):
        return [(t, s) for t in range(len(self.ybar))
                for s in range(self.n_samples)]

    def logdens(self, cell, y):
        t = cell[0]
        return float(self.model.compute_pointwise_ll(
            self.call_params, self.ybar[t:t + 1], np.array([y]))[0])

    def support(self, cell):
        return (0.0, np.inf) if self.code == 'LN' else (-np.inf, np.inf)


class PopSampler(object):
    def __init__(self, case):
        self.seed = case.get('sample_seed', SEED)
        self.spec = case['spec']
        self.n_samples = case['n_samples']
        self.top = np.array(case['top'], dtype=float)
        self.cov = None if case.get('cov') is None else np.array(case['cov'])
        if case.get('resize'):
            # the model held one individual when it was created
            self.model = popbuild.build(self.spec, None)
            self.model.set_n_ids(case['n_ids'])
        else:
            self.model = popbuild.build(self.spec, case.get('n_ids'))
        self.label = 'PopulationModel ' + popbuild.label(self.spec)
        self.d = rp.n_dim(self.spec)

    def _kw(self, rows=None):
        if self.cov is None:
            return {}
        c = self.cov if rows is None else self.cov[rows]
        return {'covariates': c}

    def sample(self):
        top = self.top.copy()
        cov = None if self.cov is None else self.cov.copy()
        kw = {} if cov is None else {'covariates': cov}
        r = np.asarray(self.model.sample(
            top, n_samples=self.n_samples, seed=self.seed, **kw), dtype=float)
        self.mutated = getattr(self, 'mutated', False) or not (
            np.array_equal(top, self.top) and (
                cov is None or np.array_equal(cov, self.cov)))
        return r

    def expected_shape(self):
        return (self.n_samples, self.d)

    def random_cells(self):
        sp = rp.special(self.spec)
        return [(s, k) for s in range(self.n_samples) for k in range(self.d)
                if sp[k] is None]

    def set_row(self, row):
        self._row = np.array(row, dtype=float)

    def logdens(self, cell, y):
        """Log-likelihood of the sampled row with the cell replaced by y, for one
        individual (with that individual's covariates)."""
        s, k = cell
        row = self._row.copy()
        row[k] = y
        m = popbuild.build(self.spec, None)
        m.set_n_ids(1)
        return float(m.compute_log_likelihood(
            self.top, row[np.newaxis, :], **self._kw(slice(s, s + 1))))

    def psi_of_row(self, s, row, full=None):
        if full is not None and 'H' not in popbuild.label(self.spec):
            # the whole sample matrix with every individual's covariates in one
            # call: row s must not depend on the other rows
            mat = np.array(full, dtype=float)
            mat[s] = row
            return np.asarray(self.model.compute_individual_parameters(
                self.top, mat, **self._kw()), dtype=float)[s]
        m = popbuild.build(self.spec, None)
        m.set_n_ids(1)
        return np.asarray(m.compute_individual_parameters(
            self.top, np.array(row, dtype=float)[np.newaxis, :],
            **self._kw(slice(s, s + 1))), dtype=float)[0]

    def support(self, cell):
        kinds = []
        spec = self.spec['inner'] if self.spec['kind'] == 'Red' else self.spec
        for p in rp.elementary_parts(spec):
            e = p['inner'] if p['kind'] in ('Cov', 'Red') else p
            cen = e.get('centered', True)
            kinds += [(e['kind'], cen)] * e['n_dim']
        kind, cen = kinds[cell[1]]
        if kind in ('LN', 'TG') and cen:
            return (0.0, np.inf)
        return (-np.inf, np.inf)

    def is_point_mass(self, cell):
        """Pooled / heterogeneous dimension: the sampler only ever returns the
        population-level value(s)."""
        return rp.special(self.spec['inner'] if self.spec['kind'] == 'Red'
                          else self.spec)[cell[1]] is not None


def make_sampler(case):
    return ErrSampler(case) if case['family'] == 'err' else PopSampler(case)


# ------------------------------------------------------------------ worker

def run_with(sampler, overrides=None):
    with Seam(Script(overrides)) as seam:
        out = sampler.sample()
    return out, seam


def w_sampler(case):
    viol = []
    sm = make_sampler(case)
    lab = sm.label
    n_nodes = case['n_nodes']
    S0, seam0 = run_with(sm)
    ntr = 1
    # draws among alternatives are independent draws: with replacement
    norep = [c for c in seam0.choice_calls if c.get('replace') is False
             and (c.get('size') not in (None, 1))]
    if norep:
        viol.append({'sub': 'no_replacement', 'message': 'the samples of one call '
                     'are chosen WITHOUT replacement: they are not independent '
                     'draws (%s)' % lab, 'expected': 'replace=True',
                     'observed': norep, 'behaviour': 'no_replacement'})
    if case['family'] == 'pop' and sm.spec['kind'] == 'Cov' and \
            sm.spec['inner']['kind'] in ('G', 'LN') and \
            sm.spec['inner'].get('centered', True):
        # with every base variate at zero each individual sits at the location of
        # ITS sub-population (reference: vartheta_0 + sum_c beta_c chi_c)
        with Seam(Script(base=lambda st_, ix_, kind_, n_=None:
                         0.0 if kind_ == 'z' else (0.5 if kind_ == 'u' else 0))):
            Sz = sm.sample()
        ntr += 1
        vt = np.real(rp.vartheta(sm.spec, sm.top, sm.cov, sm.n_samples))
        loc = vt[:, 0, :]
        want_z = loc if sm.spec['inner']['kind'] == 'G' else np.exp(loc)
        if np.shape(Sz) != want_z.shape or not tol.allclose(Sz, want_z):
            viol.append({'sub': 'cov_location', 'message': 'with all base variates '
                         'at zero the individuals are not at the locations of the '
                         'sub-populations their covariates select (%s)' % lab,
                         'expected': want_z, 'observed': Sz,
                         'behaviour': 'cov_location'})
    if case['family'] == 'pop' and case.get('n_ids') and \
            sm.spec['kind'] == 'H':
        wrong_n = [c for c in seam0.choice_calls if c['n'] != case['n_ids']]
        if wrong_n or not seam0.choice_calls:
            viol.append({'sub': 'choice_n', 'message': 'individuals of a '
                         'heterogeneous model are not drawn among all %d '
                         'individuals it holds (%s)' % (case['n_ids'], lab),
                         'expected': case['n_ids'],
                         'observed': [c['n'] for c in seam0.choice_calls],
                         'behaviour': 'choice_n'})
    if case['family'] == 'pop' and case.get('n_ids') and sm.spec['kind'] == 'H':
        # every sample is ONE individual (a row of the parameter table), whatever
        # the categorical answers are: successive answers 0, 1, 2, ... here
        table = np.asarray(sm.top, dtype=float).reshape(case['n_ids'], sm.d)

        def cyc(stream, index, kind, n=None):
            if kind == 'i':
                return index % n
            return Script()(stream, index, kind, n)
        with Seam(Script(base=cyc)):
            Sc = np.asarray(sm.sample(), dtype=float)
        ntr += 1
        bad = [r_.tolist() for r_ in Sc.reshape(-1, sm.d)
               if not any(np.array_equal(r_, t_) for t_ in table)]
        if bad:
            viol.append({'sub': 'hetero_rows', 'message': 'a sample of a '
                         'heterogeneous model is not one of its individuals: the '
                         'dimensions of a sample come from different individuals '
                         '(%s)' % lab, 'expected': table, 'observed': bad,
                         'behaviour': 'hetero_rows'})
    if case['family'] == 'pop':
        # the sample handed out is the caller's: a later call with other parameters
        # does not change it
        kept, kept_copy = S0, S0.copy()
        top_save = sm.top.copy()
        sm.top = sm.top * 1.3
        try:
            sm.sample()
        except Exception:
            pass
        sm.top = top_save
        if not np.array_equal(kept, kept_copy):
            viol.append({'sub': 'retained', 'message': 'a sample handed out earlier '
                         'changed when the model was sampled again with other '
                         'parameters (%s)' % lab, 'expected': kept_copy,
                         'observed': kept, 'behaviour': 'retained'})
        # the density the likelihood scores for the whole batch is the sum of the
        # individuals' densities (what each draw was checked against)
        if np.all(np.isfinite(S0)) and not case.get('n_ids'):
            whole = float(sm.model.compute_log_likelihood(
                sm.top, S0.copy(), **sm._kw()))
            parts_ = 0.0
            for i_ in range(S0.shape[0]):
                sm.set_row(S0[i_])
                parts_ += sm.logdens((i_, 0), S0[i_, 0])
            if np.isfinite(parts_) and not tol.close(whole, parts_, 1e-9, 1e-10):
                viol.append({'sub': 'joint', 'message': 'log-likelihood of the whole '
                             'sample is not the sum of the log-likelihoods of its '
                             'rows (%s)' % lab, 'expected': parts_,
                             'observed': whole, 'behaviour': 'joint'})
            # one cell outside the support the sampler draws from (the others as
            # drawn): the batch has no density
            for cell in itertools.product(range(S0.shape[0]), range(S0.shape[1])):
                lo, hi = sm.support(cell)
                point = sm.is_point_mass(cell)
                if not (np.isfinite(lo) or point) or S0.size < 2:
                    continue
                out_ = S0.copy()
                # (below the support; or next to a point mass)
                out_[cell] = S0[cell] + 0.37 if point else lo - 0.3
                w_out = float(sm.model.compute_log_likelihood(
                    sm.top, out_, **sm._kw()))
                ntr += 1
                if w_out != -np.inf:
                    viol.append({'sub': 'joint_support', 'message': 'a batch with '
                                 'one value outside the support the sampler draws '
                                 'from (cell %s, the others as drawn) is given a '
                                 'density (%s)' % (list(cell), lab),
                                 'expected': -np.inf, 'observed': w_out,
                                 'behaviour': 'joint_support'})
                    break
    if getattr(sm, 'mutated', False):
        viol.append({'sub': 'inputs', 'message': 'sampling modified the parameter / '
                     'model-output / covariate arrays passed in (%s)' % lab,
                     'expected': 'unchanged', 'observed': 'changed',
                     'behaviour': 'input_mutation'})
    if S0.shape != sm.expected_shape():
        viol.append({'sub': 'shape', 'message': 'sample has the wrong shape (%s)'
                     % lab, 'expected': list(sm.expected_shape()),
                     'observed': list(S0.shape), 'behaviour': 'shape'})
        return {'transitions': ntr, 'outcome': 'shape', 'violations': viol}
    variates = []
    for s_, i_, k_, c_ in seam0.log:
        if (s_, i_) not in [(v[0], v[1]) for v in variates]:
            variates.append((s_, i_, k_, c_))
    # (1) dependency relation by moving each base variate in turn
    feeds = {}
    cell_sources = {}
    for (st, ix, kind, call) in variates:
        if kind == 'i':
            continue
        base = seam0.script(st, ix, kind)
        S1, _ = run_with(sm, {(st, ix): base + (0.37 if kind == 'z' else 0.041)})
        ntr += 1
        changed = [tuple(int(a) for a in c) for c in np.argwhere(
            ~np.isclose(S1, S0, rtol=0, atol=1e-12))]
        feeds[(st, ix)] = changed
        for c in changed:
            cell_sources.setdefault(c, []).append((st, ix, kind))
    multi = {k: v for k, v in feeds.items() if len(v) > 1}
    if multi:
        viol.append({'sub': 'independence', 'message': 'one base variate feeds '
                     'several output cells: outputs are not independent (%s)' % lab,
                     'expected': 'each variate reaches at most one cell',
                     'observed': {str(k): v for k, v in multi.items()},
                     'behaviour': 'shared_variate'})
    random_cells = sm.random_cells()
    orphan = [c for c in random_cells if c not in cell_sources]
    if orphan:
        viol.append({'sub': 'deterministic_cell', 'message': 'a cell of a random '
                     'sampler does not depend on any base variate (%s)' % lab,
                     'expected': 'random', 'observed': orphan,
                     'behaviour': 'orphan_cell'})
    # (2)/(3) distribution of every random cell
    zs, zw = nodes(n_nodes)
    us, uw = unodes(n_nodes)
    worst = 0.0
    for cell in random_cells:
        src = cell_sources.get(cell, [])
        if isinstance(sm, PopSampler):
            sm.set_row(S0[cell[0]])
        if len(src) == 1:
            st, ix, kind = src[0]
            grid = zs if kind == 'z' else us
            consts = []
            ygrid = []
            for v in grid:
                ys = []
                for dv in (-H, 0.0, H):
                    Sx, _ = run_with(sm, {(st, ix): v + dv})
                    ntr += 1
                    ys.append(Sx[cell])
                ygrid.append(ys[1])
                dy = (ys[2] - ys[0]) / (2 * H)
                if dy == 0 or not np.isfinite(dy):
                    consts.append(np.nan)
                    continue
                lb = -0.5 * np.log(2 * np.pi) - v * v / 2 if kind == 'z' else 0.0
                consts.append(sm.logdens(cell, ys[1]) + np.log(abs(dy)) - lb)
            consts = np.array(consts)
            # exp(L) is normalised over the cell's support by quadrature, so the
            # identity has to hold with constant 0: this also pins the support
            # (a sampler confined to a sub-interval gives a non-zero constant)
            consts = consts - log_normaliser(sm, cell, ygrid)
            spread = np.nanmax(np.abs(consts)) if np.all(
                np.isfinite(consts)) else np.inf
            worst = max(worst, spread if np.isfinite(spread) else 1e9)
            if not spread < 1e-6:
                beh = 'identity'
                viol.append({
                    'sub': 'identity', 'message': 'samples are not distributed '
                    'according to the density the model\'s log-likelihood evaluates '
                    '(change-of-variables identity fails) (%s)' % lab,
                    'cell': list(cell), 'expected': 'constant',
                    'observed': consts, 'behaviour': beh})
                break
        elif len(src) == 2 and all(k == 'z' for _, _, k in src):
            # push-forward moments over the tensor grid vs moments of the density
            (s1, i1, _), (s2, i2, _) = src
            mom = np.zeros(4)
            for (a, wa), (b, wb) in itertools.product(zip(zs, zw), zip(zs, zw)):
                Sx, _ = run_with(sm, {(s1, i1): a, (s2, i2): b})
                ntr += 1
                y = Sx[cell]
                mom += wa * wb * np.array([y, y ** 2, y ** 3, y ** 4])
            lo, hi = sm.support(cell)
            m1 = mom[0]
            sd = np.sqrt(max(mom[1] - m1 ** 2, 1e-12))
            a_, b_ = max(lo, m1 - 14 * sd), m1 + 14 * sd
            dm = np.array([integrate.quad(
                lambda y: y ** k * np.exp(sm.logdens(cell, y)), a_, b_,
                points=[m1], limit=300, epsabs=1e-12, epsrel=1e-11)[0]
                for k in range(1, 5)])
            if not tol.allclose(mom, dm, 1e-7, 1e-9):
                # known-wrong behaviour: sum of two independent normals
                beh = 'moments'
                if case['family'] == 'err' and case['code'] == 'CM':
                    sb, sr = case['params']
                    yb = sm.ybar[cell[0]]
                    Sx, _ = run_with(sm, {(s1, i1): 0.31, (s2, i2): -0.47})
                    cand = [yb + sb * 0.31 + sr * yb * (-0.47),
                            yb + sb * (-0.47) + sr * yb * 0.31]
                    if any(abs(Sx[cell] - c_) < 1e-12 for c_ in cand):
                        beh = 'cm_two_normals'
                viol.append({
                    'sub': 'moments', 'message': 'moments of the samples differ '
                    'from the moments of the density the log-likelihood evaluates '
                    '(%s)' % lab, 'cell': list(cell), 'expected': dm,
                    'observed': mom, 'behaviour': beh})
                break
        elif src:
            viol.append({'sub': 'sources', 'message': 'cell fed by an unexpected '
                         'set of base variates (%s)' % lab, 'cell': list(cell),
                         'expected': '1 or 2 variates', 'observed': src,
                         'behaviour': 'sources'})
            break
    # non-centred models: psi = transform(eta) follows the centred density
    if case['family'] == 'pop' and any(rp.noncentered_dims(sm.spec)) and not viol:
        nc = rp.noncentered_dims(sm.spec)
        cen = _centred_twin(sm.spec)
        for cell in random_cells:
            if not nc[cell[1]]:
                continue
            src = cell_sources.get(cell, [])
            if len(src) != 1:
                continue
            st, ix, kind = src[0]
            consts = []
            for v in zs:
                ps = []
                for dv in (-H, 0.0, H):
                    Sx, _ = run_with(sm, {(st, ix): v + dv})
                    ntr += 1
                    ps.append(sm.psi_of_row(cell[0], Sx[cell[0]], full=Sx))
                dy = (ps[2][cell[1]] - ps[0][cell[1]]) / (2 * H)
                covrow = None if sm.cov is None else sm.cov[cell[0]:cell[0] + 1]
                L = float(np.real(rp.logpop(cen, sm.top, ps[1][np.newaxis, :],
                                            covrow)))
                consts.append(L + np.log(abs(dy)) + 0.5 * np.log(2 * np.pi)
                              + v * v / 2)
            spread = max(consts) - min(consts)
            if not spread < 1e-6:
                viol.append({
                    'sub': 'identity_psi', 'message': 'individual parameters '
                    'obtained from non-centred samples do not follow the documented '
                    'density (%s)' % lab, 'cell': list(cell),
                    'expected': 'constant', 'observed': consts,
                    'behaviour': 'identity_psi'})
                break
    # categorical answers (heterogeneous model): rows are rows of the table
    if case['family'] == 'pop':
        inner = sm.spec['inner'] if sm.spec['kind'] == 'Red' else sm.spec
        full_top = rp.expand(sm.spec, sm.top, 1) if sm.spec['kind'] == 'Red' \
            else sm.top
        t0 = d0 = c0 = 0
        for part in rp.elementary_parts(inner):
            nt, dd, cc = rp.n_top(part, 1), rp.n_dim(part), rp.n_cov(part)
            if rp.special(part)[0] == 'P':
                sub_cov = None if cc == 0 else sm.cov[:, c0:c0 + cc]
                exp_cols = np.real(rp.psi_of(
                    part, np.asarray(full_top)[t0:t0 + nt],
                    np.zeros((sm.n_samples, dd)), sub_cov))
                if not tol.allclose(S0[:, d0:d0 + dd], exp_cols):
                    viol.append({'sub': 'pooled', 'message': 'pooled dimension is '
                                 'not the (covariate-dependent) pooled value (%s)'
                                 % lab, 'expected': exp_cols,
                                 'observed': S0[:, d0:d0 + dd],
                                 'behaviour': 'pooled'})
            t0, d0, c0 = t0 + nt, d0 + dd, c0 + cc
    # (4) reported moments
    if case['family'] == 'pop' and sm.spec['kind'] in ('LN', 'TG') and \
            sm.spec.get('centered', True):
        ms = np.asarray(sm.model.get_mean_and_std(sm.top), dtype=float)
        for k in range(sm.d):
            one = rp.TG(1) if sm.spec['kind'] == 'TG' else rp.LN(1)
            th = np.array([sm.top[k], sm.top[sm.d + k]])

            def dens(y, p):
                return y ** p * np.exp(float(np.real(rp.logpop(
                    one, th, np.array([[y]])))))
            hi = th[0] + 40 * th[1] if sm.spec['kind'] == 'TG' else np.exp(
                th[0] + 12 * th[1])
            pts = [max(th[0], 1e-3)] if sm.spec['kind'] == 'TG' else [np.exp(th[0])]
            m1 = integrate.quad(dens, 0, hi, args=(1,), points=pts, limit=400,
                                epsabs=1e-13, epsrel=1e-11)[0]
            m2 = integrate.quad(dens, 0, hi, args=(2,), points=pts, limit=400,
                                epsabs=1e-13, epsrel=1e-11)[0]
            e = np.array([m1, np.sqrt(m2 - m1 ** 2)])
            if ms.shape != (2, sm.d) or not tol.allclose(ms[:, k], e, 1e-6, 1e-8):
                viol.append({'sub': 'mean_std', 'message': 'get_mean_and_std '
                             'differs from the moments of the density (%s)' % lab,
                             'expected': e, 'observed': ms,
                             'behaviour': 'mean_std'})
                break
    return {'transitions': ntr, 'outcome': tol.rnd(S0, 8), 'violations': viol}


def log_normaliser(sm, cell, ygrid):
    """log of the integral of exp(logdens) over the cell's support (deterministic
    adaptive quadrature; log-variable on positive supports)."""
    lo, hi = sm.support(cell)
    ys = np.sort(np.asarray(ygrid, dtype=float))
    centre = float(np.median(ys))
    if lo == 0.0:
        pos = ys[ys > 0]
        c = np.log(np.median(pos)) if len(pos) else 0.0
        width = max(np.log(pos.max() / pos.min()), 1.0) if len(pos) > 1 else 1.0
        ref = sm.logdens(cell, np.exp(c))
        val, err = integrate.quad(
            lambda v: np.exp(sm.logdens(cell, np.exp(v)) - ref + v),
            c - 6 * width - 30, c + 6 * width + 10, points=[c], limit=500,
            epsabs=1e-13, epsrel=1e-11)
        return np.log(val) + ref
    scale = max((ys.max() - ys.min()) / 8.0, 1e-6)
    ref = sm.logdens(cell, centre)
    val, err = integrate.quad(
        lambda y: np.exp(sm.logdens(cell, y) - ref), centre - 60 * scale,
        centre + 60 * scale, points=[centre], limit=500, epsabs=1e-13,
        epsrel=1e-11)
    return np.log(val) + ref


def _centred_twin(spec):
    k = spec['kind']
    if k in ('G', 'LN'):
        s = dict(spec)
        s['centered'] = True
        return s
    if k == 'Comp':
        return rp.Comp([_centred_twin(p) for p in spec['parts']])
    if k in ('Cov', 'Red'):
        s = dict(spec)
        s['inner'] = _centred_twin(spec['inner'])
        return s
    return spec


WORKERS = {'error_models': w_sampler, 'population_models': w_sampler}


def build(tier, seed):
    n_nodes = 8 if tier == 'quick' else 12
    err = []
    ybars = [vals.reals('c06.ybar', 2, 0.6, 3.0, seed),
             vals.reals('c06.ybar3', 3, 0.4, 5.0, seed)]
    par = {'G': [[0.7], [1.6]], 'M': [[0.15], [0.4]],
           'CM': [[0.5, 0.2], [1.1, 0.08]], 'LN': [[0.3], [0.8]]}
    for code in rerr.MODELS:
        for p in par[code]:
            for yb in (ybars if tier == 'thorough' else ybars[:1]):
                for ns in ((1, 2, 3) if tier == 'thorough' else (1, 2)):
                    err.append({'family': 'err', 'code': code, 'params': p,
                                'ybar': yb, 'n_samples': ns, 'n_nodes': n_nodes})
        # reduced wrapper: every single fixed parameter
        for f in range(rerr.N_PARAMS[code]):
            err.append({'family': 'err', 'code': code, 'params': par[code][0],
                        'ybar': ybars[0], 'n_samples': 2, 'fixed': f,
                        'n_nodes': n_nodes})
    pop = []
    elem = ['G', 'Gnc', 'LN', 'LNnc', 'TG', 'P', 'H']
    specs = []
    for k in elem:
        # (every class with one and two dimensions: one base variate per dimension)
        for d in (1, 2):
            specs.append(popbuild.elem(k, d))
    for k in ('G', 'Gnc', 'LN', 'LNnc', 'TG', 'P'):
        specs.append(rp.Cov(popbuild.elem(k, 1), 1))
    specs.append(rp.Cov(rp.G(2), 2, [[0, 1], [1, 0]]))
    # only the location (or only the scale) is covariate-dependent
    for k in ('G', 'Gnc', 'LN', 'LNnc', 'TG'):
        for sel in ([[0, 0]], [[1, 0]]):
            specs.append(rp.Cov(popbuild.elem(k, 1), 1, sel))
    # (every class in both tiers)
    pairs = ['G', 'LNnc', 'TG', 'P', 'H', 'Cov(G)', 'Cov(LNnc)', 'Gnc', 'LN',
             'Cov(P)', 'Cov(TG)']
    for a, b in itertools.product(pairs, repeat=2):
        specs.append(rp.Comp([popbuild.elem(a, 1), popbuild.elem(b, 1)]))
    base = rp.Comp([rp.G(1), rp.LN(1, False), rp.P(1)])
    for i in range(rp.n_top(base, 1)):
        full = popvals.top_values(base, 1, seed)
        specs.append(rp.Red(base, {i: full[i]}))
    for spec in specs:
        for ns in ((1, 2, 3) if tier == 'thorough' else (2,)):
            n_ids = ns
            if any(x == 'H' for x in rp.special(spec)):
                n_ids = 1
            top = popvals.top_values(spec, n_ids, seed)
            cov = popvals.covariates(spec, ns, seed)
            pop.append({'family': 'pop', 'spec': spec, 'n_samples': ns,
                        'top': top, 'cov': None if cov is None else cov.tolist(),
                        'n_nodes': n_nodes})
    # truncated Gaussians living in the far tail (untruncated mean z scales below 0)
    for z_ in (3.0, 7.5, 9.0, 12.0):
        for d_ in (1, 2):
            pop.append({'family': 'pop', 'spec': rp.TG(d_), 'n_samples': 2,
                        'top': [-z_ * 0.8] * d_ + [0.8] * d_, 'cov': None,
                        'n_nodes': n_nodes})
    # heterogeneous models holding more individuals than are drawn, and a reduced
    # model directly around a pooled model
    for spec, n_ids in ((rp.H(1), 3), (rp.H(2), 2), (rp.H(1), 4), (rp.H(2), 3)):
        for ns in (2, 3):
            if ns > n_ids + 1:
                continue
            for resize in (False, True):
                pop.append({'family': 'pop', 'spec': spec, 'n_samples': ns,
                            'n_ids': n_ids, 'resize': resize,
                            'top': popvals.top_values(spec, n_ids, seed),
                            'cov': None, 'n_nodes': n_nodes})
    for spec in (rp.Red(rp.P(2), {0: 1.4}), rp.Red(rp.P(3), {1: 0.6})):
        pop.append({'family': 'pop', 'spec': spec, 'n_samples': 2,
                    'top': popvals.top_values(spec, 1, seed), 'cov': None,
                    'n_nodes': n_nodes})
    # integer seeds 0 and 7 alternate over the cases
    for k_, c_ in enumerate(err + pop):
        c_['sample_seed'] = 0 if k_ % 2 else 7
    return {
        'parts': [
            Part('error_models', err, w_sampler,
                 'error-model samplers (+ reduced wrappers): base variates '
                 'enumerated on node sets'),
            Part('population_models', pop, w_sampler,
                 'population-model samplers: elementary, covariate, composed '
                 '(all pairs), reduced'),
        ],
        'bounds': {'nodes': n_nodes, 'n_samples': [1, 2, 3] if tier == 'thorough'
                   else [1, 2], 'deviation_bound': 1},
        'rule': 'every consumed base variate moved in turn (deviation 1); every '
                'random cell evaluated on the full node set (tensor grid for '
                'two-variate cells); distinct = distinct unperturbed samples',
        'min_outcomes': {'error_models': 8, 'population_models': 20},
        'assumptions': [
            'numpy normal/lognormal/choice/integers and scipy truncnorm.ppf are '
            'what their documentation says; base variates are iid N(0,1)/U(0,1)',
            'equality of the change-of-variables identity on the node set (and of '
            'the first four moments for two-variate cells) stands for equality of '
            'laws: decisive for affine / exponential / ppf maps'],
    }


META = {
    'technique': 'deviation-bounded exhaustive exploration of the random-source seam: '
                 'base variates enumerated on quadrature node sets, change-of-'
                 'variables identity and push-forward moments against the density '
                 'the same model scores',
    'level_text': 'For every error-model and population-model sampler (elementary, '
                  'reduced, covariate, all pairs of sub-models) each consumed base '
                  'variate is moved in turn (dependency relation variate -> cell; '
                  'independence across outputs, samples, individuals, sub-models), '
                  'and every random cell is evaluated on a complete node set: the '
                  'map from base variate to sample must push the base law forward '
                  'to the density the model\'s own log-likelihood evaluates. No '
                  'statistical test and no random draw is involved.',
    'level_note': 'Distributional statement reduced to an exact push-forward '
                  'statement over enumerated base variates; trusted: numpy/scipy '
                  'base generators and transforms.',
}
META['level_text'] += (
    ' Also: far-tail truncated Gaussians, batches with one cell outside the support'
    ' / off a point mass, heterogeneous samples as rows of the parameter table unde'
    'r successive categorical answers.')
META['level_text'] += (' Wave 9: covariate models around centred models: with all base variates at zero every individual sits at the reference location of its sub-population.')
