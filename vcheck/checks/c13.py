"""C13 — filter posterior = prior + population + noise + filter terms; exact gradient;
names/IDs describe each position.

Shape (A): population compositions (special dims in every position) x filters x
sigma fixed/free x additive/log-scale noise x n_samples x every permutation of 3
unique times x covariate layouts, on the real PopulationFilterLogPosterior with a toy
mechanistic model, against ref.filters + ref.populations + ref.toy."""
import itertools

import numpy as np
import pints

import chi

from ..core import tol, vals
from ..core.engine import Part
from ..gen import hier, popbuild, popvals
from ..gen.toymodel import ToyModel
from ..ref import cstep, filters as rf, populations as rp, toy
from . import c12

PROPERTY = 'C13'
N_DIM = 3


def layout(case):
    spec = case['spec']
    ns = case['n_samples']
    n_pop = rp.n_top(spec, ns)
    n_sig = 0 if case['sigma'] is not None else case['n_obs']
    n_hd = rp.n_hier_dim(spec)
    return n_pop, n_sig, n_hd


def ref_terms(case, vec):
    """(prior, population, noise (without constant), filter)."""
    spec = case['spec']
    ns, n_obs = case['n_samples'], case['n_obs']
    times = np.asarray(case['times'], dtype=float)
    # presort: the caller re-arranged the filter's time points with sort_times(o)
    # and passes the times in that arrangement; position j is original index o[j]
    o_pre = np.array(case.get('presort') or list(range(len(times))))
    times = times[o_pre]
    order = np.argsort(times)
    T = len(times)
    vec = np.asarray(vec)
    n_pop, n_sig, n_hd = layout(case)
    pop = vec[:n_pop]
    sigma = np.asarray(case['sigma'], dtype=float) if n_sig == 0 else \
        vec[n_pop:n_pop + n_sig]
    n_top = n_pop + n_sig
    bottom = vec[n_top:n_top + ns * n_hd].reshape(ns, n_hd)
    eps = vec[n_top + ns * n_hd:].reshape(ns, n_obs, T)
    cov = None
    if case['cov'] is not None:
        cov = np.asarray(case['cov'], dtype=float)
        if cov.ndim == 1:
            cov = cov[np.newaxis, :]
        cov = np.broadcast_to(cov, (ns, cov.shape[1]))
    sp = rp.special(spec)
    hmask = np.array([x is None for x in sp])
    obs = np.zeros((ns, N_DIM), dtype=complex)
    obs[:, hmask] = bottom
    psi = rp.psi_of(spec, pop, obs, cov)
    obs[:, ~hmask] = psi[:, ~hmask]
    lp = rp.logpop(spec, pop, obs, cov)
    ybar = np.array([toy.evaluate(psi[s], times[order], n_obs) for s in range(ns)])
    sig = np.asarray(sigma).reshape(1, n_obs, 1)
    if case['log_scale']:
        y = ybar * np.exp(sig * eps)
    else:
        y = ybar + sig * eps
    # simulated measurement at sorted position k belongs to original time index
    # order[k]; filters (and the blocks of a composed filter) are defined on the
    # original time axis
    data = c12._arr(case['y'])
    sim_orig = np.zeros(y.shape, dtype=y.dtype)
    sim_orig[..., o_pre[order]] = y
    fl = rf.composed_total(_blocks(case), data, sim_orig)
    noise = -np.sum(eps ** 2) / 2
    prior = hier.ref_prior(vec[:n_top])
    return prior, lp, noise, fl


def _blocks(case):
    f = case['filter']
    if isinstance(f[0], (list, tuple)):
        return [tuple(b) for b in f]
    return [(f[0], len(case['times']), f[1])]


def _flabel(case):
    return '+'.join(b[0] for b in _blocks(case))


def ref_total(case, vec):
    return sum(ref_terms(case, vec))


def build_filter(case):
    data = c12._arr(case['y'])
    blocks = _blocks(case)
    return c12.build_filter(blocks, data, composed=len(blocks) > 1)


def build_posterior(case, f=None):
    ns, n_obs = case['n_samples'], case['n_obs']
    if f is None:
        f = build_filter(case)
    times_arg = list(case['times'])
    if case.get('presort'):
        f.sort_times(list(case['presort']))
        times_arg = [case['times'][k] for k in case['presort']]
    pop = popbuild.build(
        case['spec'], ns if case['spec']['kind'] == 'Red' else None)
    n_pop, n_sig, _ = layout(case)
    prior = hier.build_prior(n_pop + n_sig)
    cov = case['cov']
    post = chi.PopulationFilterLogPosterior(
        f, times_arg, ToyModel(N_DIM, n_obs), pop, prior,
        sigma=case['sigma'], error_on_log_scale=case['log_scale'],
        n_samples=ns, covariates=None if cov is None else np.array(cov))
    # the population model object stays the caller's: what is done to it (and to its
    # sub-models) afterwards does not reach the posterior
    for change in (
            lambda: pop.set_n_ids(ns + 2),
            lambda: pop.fix_parameters({pop.get_parameter_names()[0]: 0.77}),
            lambda: pop.set_dim_names(['renamed dim %d' % i
                                       for i in range(pop.n_dim())]),
            lambda: [sub.set_n_ids(ns + 3)
                     for sub in pop.get_population_models()]):
        try:
            change()
        except Exception:
            pass
    return post


def ref_names(case):
    spec = case['spec']
    ns, n_obs, T = case['n_samples'], case['n_obs'], len(case['times'])
    dims = ['p%d' % i for i in range(N_DIM)]
    names = rp._names(spec, ns, dims)
    ids = [None] * len(names)
    if case['sigma'] is None:
        names += ['Sigma o%d' % j for j in range(n_obs)]
        ids += [None] * n_obs
    sp = rp.special(spec)
    for s in range(ns):
        for d, kind in zip(dims, sp):
            if kind is None:
                names.append('Sim. %d %s' % (s + 1, d))
                ids.append('Sim. %d' % (s + 1))
    for s in range(ns):
        for j in range(n_obs):
            for t in range(T):
                names.append('Sim. %d o%d Epsilon time %d' % (s + 1, j, t + 1))
                ids.append('Sim. %d' % (s + 1))
    return names, ids


def w_post(case):
    viol = []
    lab = '%s filter=%s sigma=%s log=%s ns=%d' % (
        popbuild.label(case['spec']), _flabel(case),
        'fixed' if case['sigma'] is not None else 'free', case['log_scale'],
        case['n_samples'])
    ntr = 0
    try:
        if case.get('reuse'):
            # the caller's filter object is used for two posteriors; the second one
            # is examined below and must agree with the first
            f_user = build_filter(case)
            first = build_posterior(case, f_user)
            post = build_posterior(case, f_user)
            ntr += 1
        else:
            first = None
            post = build_posterior(case)
        ntr += 1
    except Exception as e:
        return {'transitions': 1, 'outcome': 'ctor', 'violations': [{
            'sub': 'construct', 'message': 'cannot construct filter posterior (%s): '
            '%s: %s' % (lab, type(e).__name__, e), 'expected': 'constructible',
            'observed': repr(e), 'behaviour': 'ctor:' + type(e).__name__}]}
    x = np.array(case['vec'], dtype=float)
    n = len(x)
    if post.n_parameters() != n:
        viol.append({'sub': 'count', 'message': 'n_parameters differs from the '
                     'published layout (%s)' % lab, 'expected': n,
                     'observed': post.n_parameters(), 'behaviour': 'count'})
        return {'transitions': ntr, 'outcome': 'count', 'violations': viol}
    if first is not None:
        a, b = first(x.copy()), post(x.copy())
        ntr += 2
        if not tol.close(a, b):
            viol.append({'sub': 'reuse', 'message': 'two posteriors built from the '
                         'same filter object differ (%s, times %s)'
                         % (lab, case['times']), 'expected': a, 'observed': b,
                         'behaviour': 'reuse'})
    pts = [x, x * (1 + 0.01 * (1 + np.arange(n) % 5))]
    diffs, gots = [], []
    for p in pts:
        try:
            g = post(p.copy())
        except Exception as e:
            import traceback
            tb = traceback.format_exc()
            beh = 'call:' + type(e).__name__
            if isinstance(e, ValueError) and 'broadcast' in str(e) and \
                    '_reshape_bottom_parameters' in tb:
                # known finding F-C13-wrapped-special-dims: the posterior's own
                # table of pooled/heterogeneous dimensions misses wrapped models
                beh = 'special_dims_unrecognised'
            viol.append({'sub': 'call', 'message': 'evaluation raises (%s): %s: %s'
                         % (lab, type(e).__name__, e), 'expected': 'a score',
                         'observed': repr(e), 'behaviour': beh})
            return {'transitions': ntr, 'outcome': 'raise', 'violations': viol}
        ntr += 1
        e = float(np.real(ref_total(case, p)))
        gots.append(g)
        diffs.append(g - e)
    if not (np.isfinite(gots[0]) and np.isfinite(gots[1])):
        viol.append({'sub': 'finite', 'message': 'score not finite at a support '
                     'point (%s)' % lab, 'expected': 'finite', 'observed': gots,
                     'behaviour': 'nonfinite'})
        return {'transitions': ntr, 'outcome': 'nonfinite', 'violations': viol}
    # (relative to the larger of the two scores: kernel filters with two nearly
    # coinciding simulated values reach 1e7 at one point and 1 at the other)
    if abs(diffs[0] - diffs[1]) > 1e-8 * max(1, abs(gots[0]), abs(gots[1])):
        viol.append({'sub': 'value', 'message': 'log-posterior is not prior + '
                     'population + noise + filter up to a constant (%s): offsets '
                     'at two points differ' % lab, 'expected': diffs[0],
                     'observed': diffs[1], 'behaviour': 'value'})
    # the caller moves entries of ONE array object in place between evaluations
    x_obj = x.copy()
    g0 = post(x_obj)
    e0 = float(np.real(ref_total(case, x_obj.copy())))
    for k_ in sorted(set([0, n // 2, n - 1, max(0, n - 1 - len(case['times']))])):
        x_obj[k_] *= 1.004
        g_m = post(x_obj)
        e_m = float(np.real(ref_total(case, x_obj.copy())))
        ntr += 1
        if np.isfinite(g_m) and np.isfinite(e_m) and \
                abs((g_m - g0) - (e_m - e0)) > 1e-8 * max(1, abs(g0), abs(g_m)):
            viol.append({'sub': 'inplace', 'message': 'after entry %d of the SAME '
                         'array object was changed in place the log-posterior does '
                         'not move like the reference (%s)' % (k_, lab),
                         'expected': e_m - e0, 'observed': g_m - g0,
                         'behaviour': 'inplace'})
            break
    # whole-number parameter values handed over as integers (array / list) give the
    # value and gradient of the same numbers handed over as floats
    xi = np.where(x < 0, -1, 1) * np.maximum(1, np.round(np.abs(x))).astype(int)
    try:
        g_f = post(xi.astype(float))
        s_f = post.evaluateS1(xi.astype(float))
    except Exception:
        g_f = None
    if g_f is not None and np.isfinite(g_f):
        for form, arg in (('array', xi.astype(int)), ('list', [int(v) for v in xi])):
            try:
                g_i = post(arg)
                s_i = post.evaluateS1(arg)
                ok_i = tol.close(g_i, g_f) and tol.close(s_i[0], s_f[0]) and \
                    tol.allclose(np.asarray(s_i[1], dtype=float),
                                 np.asarray(s_f[1], dtype=float), 1e-9,
                                 1e-9 * max(1.0, float(np.max(np.abs(s_f[1])))))
                obs_i = [g_i, np.asarray(s_i[1], dtype=float)]
            except Exception as e_i:
                ok_i, obs_i = False, repr(e_i)[:200]
            ntr += 2
            if not ok_i:
                viol.append({'sub': 'int_vector', 'message': 'log-posterior / '
                             'sensitivities at an integer-typed %s differ from the '
                             'same values as floats (%s)' % (form, lab),
                             'expected': [g_f, np.asarray(s_f[1], dtype=float)],
                             'observed': obs_i, 'behaviour': 'int_vector'})
                break
    # gradient
    try:
        s, grad = post.evaluateS1(x.copy())
    except Exception as e:
        viol.append({'sub': 's1', 'message': 'evaluateS1 raises (%s): %s: %s'
                     % (lab, type(e).__name__, e), 'expected': 'gradient',
                     'observed': repr(e), 'behaviour': 's1:' + type(e).__name__})
        return {'transitions': ntr, 'outcome': 'raise', 'violations': viol}
    ntr += 1
    # (the gradient handed out is the caller's: a later evaluation at another point
    # does not change it)
    kept_grad, kept_copy = grad, np.array(grad, dtype=float, copy=True)
    post.evaluateS1(pts[1].copy())
    post(pts[1].copy())
    ntr += 2
    if not np.array_equal(np.asarray(kept_grad, dtype=float), kept_copy):
        viol.append({'sub': 'retained', 'message': 'the sensitivities returned by '
                     'evaluateS1 changed when the posterior was evaluated at '
                     'another point afterwards (%s)' % lab, 'expected': kept_copy,
                     'observed': np.asarray(kept_grad, dtype=float),
                     'behaviour': 'retained'})
    grad = kept_copy
    if not tol.close(s, gots[0]):
        viol.append({'sub': 's1_score', 'message': 'evaluateS1 score differs from '
                     '__call__ (%s)' % lab, 'expected': gots[0], 'observed': s,
                     'behaviour': 's1_score'})
    eg = cstep.grad(lambda z: ref_total(case, z), x)
    # (absolute tolerance relative to the largest entry, as in C12: kernel filters
    # with nearly coinciding simulated values give entries of size 1e13 whose
    # neighbours carry the rounding error of the cancelling terms)
    scale = max(1.0, float(np.max(np.abs(eg[np.isfinite(eg)]), initial=0.0)))
    if grad.shape != eg.shape or not tol.allclose(grad, eg, 1e-7,
                                                  max(1e-8, 1e-9 * scale)):
        w = int(np.nanargmax(np.abs(grad - eg))) if grad.shape == eg.shape else -1
        viol.append({'sub': 'grad', 'message': 'sensitivities are not the '
                     'derivatives of the log-posterior (%s)' % lab,
                     'worst_entry': w, 'expected': eg, 'observed': grad,
                     'behaviour': 'grad'})
    # names / ids
    e_names, e_ids = ref_names(case)
    g_names = list(post.get_parameter_names(include_ids=True))
    g_ids = list(post.get_id())
    if g_names != e_names:
        viol.append({'sub': 'names', 'message': 'published names do not describe '
                     'the positions (%s)' % lab, 'expected': e_names,
                     'observed': g_names, 'behaviour': 'names'})
    if g_ids != e_ids:
        viol.append({'sub': 'ids', 'message': 'published IDs do not describe the '
                     'positions (%s)' % lab, 'expected': e_ids, 'observed': g_ids,
                     'behaviour': 'ids'})
    return {'transitions': ntr, 'outcome': tol.rnd([gots, grad]),
            'violations': viol}


def _sbml_posterior(case):
    import chi.library
    m = chi.library.ModelLibrary().one_compartment_pk_model()
    m.set_administration('central', direct=case['direct'])
    m.set_dosing_regimen(2.0, start=0.3, duration=0.4, period=1.0, num=2)
    n_dim = m.n_parameters()
    spec = rp.Comp([rp.LN(1), rp.P(1), rp.LN(n_dim - 2)])
    pop = popbuild.build(spec, None)
    y = np.array([[[0.9, 1.4, 0.7]], [[1.2, 1.1, 0.5]], [[0.8, 1.6, 0.9]]])
    n_top = rp.n_top(spec, 3) + (0 if case['sigma_fixed'] else 1)
    prior = hier.build_prior(n_top)
    post = chi.PopulationFilterLogPosterior(
        chi.GaussianFilter(y), [0.5, 1.2, 2.1], m, pop, prior,
        sigma=[0.3] if case['sigma_fixed'] else None,
        error_on_log_scale=case['log_scale'], n_samples=3)
    return post


def w_sbml_post(case):
    """Filter posterior around a dosed SBML model: the value is the same number
    before and after evaluations with sensitivities, in every order of calls."""
    viol = []
    fresh = _sbml_posterior(case)
    n = fresh.n_parameters()
    x = np.array(vals.reals('c13.sb', n, 0.3, 0.9, case['seed']))
    ref = fresh(x.copy())
    post = _sbml_posterior(case)
    got = []
    for op in case['ops']:
        if op == 'call':
            got.append(post(x.copy()))
        else:
            got.append(post.evaluateS1(x.copy())[0])
    if not np.isfinite(ref):
        viol.append({'sub': 'sbml_finite', 'message': 'filter posterior around a '
                     'dosed SBML model is not finite at a support point',
                     'expected': 'finite', 'observed': ref,
                     'behaviour': 'sbml_finite'})
    elif not all(tol.close(g, ref, tol.ODE_REL, tol.ODE_ABS) for g in got):
        viol.append({'sub': 'sbml_history', 'message': 'filter posterior around a '
                     'dosed SBML model: the score after the call history %s differs '
                     'from the first evaluation of a fresh posterior'
                     % case['ops'], 'expected': ref, 'observed': got,
                     'behaviour': 'sbml_history'})
    return {'transitions': len(case['ops']) + 3, 'outcome': tol.rnd(ref, 6),
            'violations': viol}


def w_user_model(case):
    """A posterior built from a user mechanistic model that already has a fixed
    parameter keeps its own fixed value whatever the user does to the model later."""
    viol = []
    user = chi.ReducedMechanisticModel(ToyModel(3, 1))
    user.fix_parameters({'p2': 0.8})
    y = np.array([[[1.0, 2.0, 1.5]], [[1.4, 2.6, 1.1]]])
    pop = popbuild.build(rp.Comp([rp.LN(1), rp.P(1)]), None)
    post = chi.PopulationFilterLogPosterior(
        chi.GaussianFilter(y), [0.5, 2.0, 1.0], user, pop, hier.build_prior(3),
        sigma=[0.3], n_samples=3)
    n = post.n_parameters()
    x = np.array(vals.reals('c13.um', n, 0.3, 0.9, case['seed']))
    before = [post(x.copy()), post.evaluateS1(x.copy())[0]]
    for op in case['ops']:
        if op == 'refix':
            user.fix_parameters({'p2': 1.9})
        elif op == 'release':
            user.fix_parameters({'p2': None})
        elif op == 'fix_other':
            user.fix_parameters({'p0': 0.4})
        elif op == 'simulate':
            user.simulate([0.5] * user.n_parameters(), [0.3, 0.9])
    after = [post(x.copy()), post.evaluateS1(x.copy())[0]]
    if not all(tol.close(a_, b_) for a_, b_ in zip(after, before)) or \
            not np.isfinite(before[0]):
        viol.append({'sub': 'user_model', 'message': 'the filter posterior changed '
                     'when the user reconfigured the mechanistic model it was built '
                     'from (%s)' % case['ops'], 'expected': before,
                     'observed': after, 'behaviour': 'user_model'})
    return {'transitions': len(case['ops']) + 5, 'outcome': tol.rnd(before, 8),
            'violations': viol}


WORKERS = {'posterior': w_post, 'wrapped': w_post, 'sbml': w_sbml_post,
           'user_model': w_user_model}


def make_case(spec, filt, sigma_free, log_scale, ns, times, n_obs, seed,
              cov_vector=False, n_ids=2):
    T = len(times)
    cov = popvals.covariates(spec, ns, seed)
    pop = popvals.top_values(spec, ns, seed, positive=True)
    if cov is not None and cov_vector:
        cov = np.broadcast_to(cov[:1], cov.shape).copy()
    obs = popvals.obs_values(spec, pop, ns, cov, seed, positive=True)
    hmask = [x is None for x in rp.special(spec)]
    bottom = obs[:, hmask].flatten().tolist()
    sig = vals.reals('c13.sig', n_obs, 0.1, 0.5, seed)
    eps = vals.reals('c13.eps', ns * n_obs * T, -1.2, 1.2, seed)
    yv = np.array(vals.reals('c13.y', n_ids * n_obs * T, 1.0, 9.0, seed)
                  ).reshape(n_ids, n_obs, T).tolist()
    if n_ids > 1 and T > 1:
        yv[0][0][1] = None   # one missing measurement
    vec = list(pop) + (sig if sigma_free else []) + bottom + eps
    covj = None
    if cov is not None:
        covj = cov[0].tolist() if cov_vector else cov.tolist()
    return {'spec': spec, 'filter': list(filt), 'sigma': None if sigma_free else sig,
            'log_scale': log_scale, 'n_samples': ns, 'times': list(times),
            'n_obs': n_obs, 'y': yv, 'cov': covj, 'vec': vec}


def build(tier, seed):
    # (every class in both tiers)
    kinds = ['G', 'Gnc', 'LN', 'LNnc', 'TG', 'P', 'H', 'Cov(G)', 'Cov(LNnc)', 'Cov(TG)']
    structs = hier.structures(N_DIM, kinds)
    t3 = sorted(vals.reals('c13.t', 3, 0.2, 3.0, seed))
    perms = [list(p) for p in itertools.permutations(range(3))]
    # (every filter kind in both tiers: the mixture and log-scale kernels take their
    # own paths through the noise sensitivities)
    filters = [('G', 2), ('GKDE', 2), ('LN', 2), ('LNKDE', 2), ('GM', 2)]
    # composed filters over the (original) time axis: 1+2, 2+1 and 1+1+1 blocks
    filters = filters + [
        [('G', 1, 2), ('GKDE', 2, 2)], [('GKDE', 2, 2), ('LN', 1, 2)],
        [('G', 1, 2), ('LN', 1, 2), ('GKDE', 1, 2)]]
    cases = []
    i = 0
    for spec in structs:
        for sigma_free in (False, True):
            for log_scale in (False, True):
                # filter kind, n_samples, time order and covariate layout rotate
                # (all pairs with structure are covered over the enumeration)
                rounds = 1 if tier == 'quick' else 3
                for r in range(rounds):
                    filt = filters[(i + r) % len(filters)]
                    ns = [2, 3, 4][(i // 2 + r) % 3]
                    if 'GM' in str(filt):
                        ns = 4
                    perm = perms[(i + 2 * r) % 6]
                    times = [t3[k] for k in perm]
                    cases.append(make_case(
                        spec, filt, sigma_free, log_scale, ns, times,
                        1 + (i % 2), seed, cov_vector=(i % 3 == 0)))
                    i += 1
    # full products on a few structures that place special dims first/middle/last
    focus = [rp.Comp([rp.Cov(rp.G(1), 2), rp.G(1, False), rp.P(1)]),
             rp.Comp([rp.P(1), rp.G(1), rp.H(1)]),
             rp.Comp([rp.G(1, False), rp.P(1), rp.LN(1, False)]),
             rp.Comp([rp.H(1), rp.Cov(rp.G(1)), rp.P(1)]),
             rp.Comp([rp.LN(2, False), rp.P(1)]), rp.P(3), rp.H(3), rp.G(3, False),
             # covariate models over several dimensions AND several covariates
             rp.Comp([rp.Cov(rp.G(2), 2), rp.P(1)]),
             rp.Comp([rp.G(1), rp.Cov(rp.LN(2, False), 2)]), rp.Cov(rp.G(3), 2)]
    for spec in focus:
        for filt in filters:
            for sigma_free in (False, True):
                for log_scale in (False, True):
                    for perm in (perms if tier == 'thorough' else perms[::2]):
                        ns = 4 if 'GM' in str(filt) else 3
                        cases.append(make_case(
                            spec, filt, sigma_free, log_scale, ns,
                            [t3[k] for k in perm], 2, seed))
    # the caller re-arranged the time points of the filter before handing it over
    # (every order, elementary and composed filters, sorted and unsorted times)
    pre = []
    for spec in (rp.Comp([rp.G(1), rp.LN(1, False), rp.P(1)]), rp.G(3)):
        for filt in filters:
            for o in perms:
                for perm in (perms[0], perms[4]) if tier == 'quick' else perms:
                    c_ = make_case(spec, filt, False, False,
                                   4 if 'GM' in str(filt) else 3,
                                   [t3[k] for k in perm], 1 + (len(pre) % 2), seed)
                    c_['presort'] = list(o)
                    pre.append(c_)
    # every second case builds two posteriors from one filter object
    for k, c in enumerate(cases):
        c['reuse'] = (k % 2 == 1)
    cases += pre
    # wrapped models: reduced (every subset of <= 2 fixed parameters) and covariate
    # models around pooled dimensions
    wrapped = []
    wbases = [rp.G(3), rp.Comp([rp.G(1, False), rp.LN(2)]),
              rp.Comp([rp.G(1), rp.P(1), rp.LN(1, False)]),
              rp.Comp([rp.H(1), rp.G(2)])]
    for b in wbases:
        n = rp.n_top(b, 3)
        full = popvals.top_values(b, 3, seed, positive=True)
        for r in (1, 2):
            for idx in itertools.combinations(range(n), r):
                wrapped.append(make_case(
                    rp.Red(b, {i: full[i] for i in idx}), ('G', 2), True, False, 3,
                    t3, 1, seed))
    for spec in [rp.Comp([rp.Cov(rp.P(1)), rp.G(2)]),
                 rp.Comp([rp.G(1), rp.Cov(rp.P(1)), rp.LN(1, False)]),
                 rp.Comp([rp.G(2), rp.Cov(rp.P(1))]), rp.Cov(rp.P(3))]:
        for sigma_free in (False, True):
            wrapped.append(make_case(spec, ('GKDE', 2), sigma_free, False, 3,
                                     [t3[1], t3[0], t3[2]], 1, seed))
    sb = []
    for direct in (True, False):
        for sf in (True, False):
            for log_scale in (False, True):
                for ops in itertools.product(['call', 'S1'], repeat=3):
                    sb.append({'direct': direct, 'sigma_fixed': sf,
                               'log_scale': log_scale, 'ops': list(ops),
                               'seed': seed})
    um_ops = ['refix', 'release', 'fix_other', 'simulate']
    um = [{'ops': list(seq), 'seed': seed} for d_ in (1, 2)
          for seq in itertools.product(um_ops, repeat=d_)]
    return {
        'parts': [Part('user_model', um, w_user_model,
                       'posterior built from a user model with a fixed parameter: '
                       'every sequence of <= 2 later reconfigurations by the user'),
                  Part('sbml', sb, w_sbml_post,
                       'filter posterior around the dosed library model (direct / '
                       'indirect route): every history of three evaluations with / '
                       'without sensitivities'),
                  Part('wrapped', wrapped, w_post,
                       'reduced and covariate-around-pooled population models'),
                  Part('posterior', cases, w_post,
                       'population structure x sigma fixed/free x noise scale, '
                       'filters / n_samples / time orders rotated; full products on '
                       'focus structures')],
        'bounds': {'kinds': kinds, 'filters': filters, 'n_samples': [2, 3, 4],
                   'times': t3},
        'rule': 'all sub-model sequences with dims summing to 3 x {sigma fixed, '
                'free} x {additive, log-scale}; filter kind, n_samples, time '
                'permutation and covariate layout assigned round-robin; complete '
                'product on 7 focus structures; distinct = distinct (scores, '
                'gradient)',
        'exhaustive': True,
        'min_outcomes': {'posterior': 100},
        'assumptions': ['noise term compared up to a constant: offsets at two '
                        'points must coincide', 'toy mechanistic model'],
    }


META = {
    'technique': 'bounded exhaustive enumeration of population structures x noise '
                 'configurations on the real PopulationFilterLogPosterior against a '
                 'reference assembled from the documented terms, complex-step '
                 'gradients',
    'level_text': 'Every sequence of population sub-models over the alphabet whose '
                  'dimensions sum to 3 (special dimensions first, middle, last, '
                  'everywhere), with fixed and free noise scales, additive and '
                  'log-scale noise, 2-4 simulated individuals, unsorted time vectors '
                  '(all 6 permutations occur), vector and matrix covariates is '
                  'evaluated at two points; the value (up to the documented '
                  'constant), every gradient entry, names and IDs are compared with '
                  'the reference.',
    'level_note': 'Structure x (sigma, scale) is a complete product; the remaining '
                  'factors are rotated except on 7 focus structures where the '
                  'product is complete. Toy mechanistic model; filters decided by '
                  'C12, population models by C05.',
}
META['level_text'] += (
    ' Also: the posterior around the dosed library model (both routes) under every '
    'history of three evaluations with / without sensitivities; the gradient handed'
    ' out is compared again after later evaluations.')
META['level_text'] += (' Wave 9: integer-typed parameter vectors, the population model re-configured by the caller after the hand-over.')
