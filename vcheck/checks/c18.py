"""C18 — inference I/O keeps parameters, individuals and draws aligned.

Shape (A + C): posteriors (individual, and hierarchical over the C02 composition space
incl. reduced / covariate-pooled / nested) x n_ids x runs/chains x draws x seeds; the
`pints` runs are behind a seam that returns raw chains / estimates whose every entry
encodes its own coordinates, chi's controllers format them with their real code and the
result is decoded. Initial points: shape, reproducibility, top entries = the prior's own
draw under that seed, bottom entries = the population model's own draw at those
population values (differential against chi's population model, decided by C06),
finite prior + population contributions. Read-back by PosteriorPredictiveModel and
compute_pointwise_loglikelihood."""
import itertools

import numpy as np
import pints
import xarray as xr

import chi

from ..core import tol, vals
from ..core.engine import Part, key_of
from ..gen import hier, popbuild, popvals
from ..gen.toymodel import ToyModel
from ..ref import populations as rp
from . import c15

PROPERTY = 'C18'


class PintsSeam(object):
    """Replaces pints.MCMCController.run / pints.OptimisationController.run by stubs
    returning coded arrays: chains[c, d, p] = 10000 c + 100 d + p;
    estimates[p] = 1000 (run + 1) + p, score = -(run + 1)."""
    def __init__(self, n_draws):
        self.n_draws = n_draws
        self.calls = []
        self.x0s = []

    def __enter__(self):
        seam = self
        self._mc = pints.MCMCController.run
        self._oc = pints.OptimisationController.run
        self._oc_count = [0]

        def mc_run(ctrl):
            # (single-chain samplers hold one starting point each, multi-chain
            # samplers hold all of them)
            if ctrl._single_chain:
                x0 = np.array([smp._x0 for smp in ctrl._samplers])
            else:
                x0 = np.array(ctrl._samplers[0]._x0)
            n_chains = ctrl._n_chains
            n_par = ctrl._n_parameters
            seam.x0s.append(np.array(x0, dtype=float))
            seam.calls.append(('mcmc', n_chains, n_par))
            c = np.arange(n_chains)[:, None, None]
            d = np.arange(seam.n_draws)[None, :, None]
            p = np.arange(n_par)[None, None, :]
            return (10000.0 * c + 100.0 * d + p)

        def oc_run(ctrl):
            run = seam._oc_count[0]
            seam._oc_count[0] += 1
            n_par = len(ctrl._x0) if hasattr(ctrl, '_x0') else \
                ctrl._function.n_parameters()
            seam.calls.append(('opt', run, n_par))
            seam.x0s.append(np.array(getattr(ctrl._optimiser, '_x0', []),
                                     dtype=float))
            return 1000.0 * (run + 1) + np.arange(n_par), -(run + 1.0)
        pints.MCMCController.run = mc_run
        pints.OptimisationController.run = oc_run
        return self

    def __exit__(self, *exc):
        pints.MCMCController.run = self._mc
        pints.OptimisationController.run = self._oc
        return False


def uniform_prior(n):
    return pints.ComposedLogPrior(*[
        pints.UniformLogPrior(0.4 + 0.01 * i, 1.6 + 0.02 * i) for i in range(n)])


def build_posterior(case):
    if case['kind'] == 'filter':
        # population-level parameters FIRST, then simulated individuals, then noise
        n_obs = case.get('n_obs', 1)
        y = np.array([[[1.0, 2.0], [0.7, 1.9]][:n_obs],
                      [[1.5, 2.5], [1.1, 2.2]][:n_obs]])
        pop = popbuild.build(case['fspec'], None)
        nt = rp.n_top(case['fspec'], case['n_sim'])
        fpost = chi.PopulationFilterLogPosterior(
            chi.GaussianFilter(y), [0.5, 1.5],
            ToyModel(len(rp.special(case['fspec'])), n_obs), pop,
            uniform_prior(nt + (0 if case['sigma_fixed'] else n_obs)),
            sigma=[0.2, 0.3][:n_obs] if case['sigma_fixed'] else None,
            n_samples=case['n_sim'])
        # the population model object stays the caller's: what is done to it (and
        # to its sub-models) afterwards does not reach the posterior
        for change in (
                lambda: pop.set_n_ids(case['n_sim'] + 2),
                lambda: pop.fix_parameters({pop.get_parameter_names()[0]: 0.77}),
                lambda: pop.set_dim_names(['renamed dim %d' % i
                                           for i in range(pop.n_dim())]),
                lambda: [sub.set_n_ids(case['n_sim'] + 3)
                         for sub in pop.get_population_models()]):
            try:
                change()
            except Exception:
                pass
        return fpost, None
    if case['kind'] == 'individual' and case.get('n_out', 1) > 1:
        # several outputs with their own error parameters
        k_ = case['n_out']
        ll = chi.LogLikelihood(
            ToyModel(2, k_), [chi.GaussianErrorModel() for _ in range(k_)],
            [[1.0 + 0.2 * j_, 2.0, 1.5 - 0.1 * j_][:3 - j_ % 2] for j_ in range(k_)],
            [[0.3, 0.9, 1.4][:3 - j_ % 2] for j_ in range(k_)])
        if case.get('id') is not None:
            ll.set_id(case['id'])
        return chi.LogPosterior(ll, uniform_prior(2 + k_)), None
    if case['kind'] == 'individual':
        ll = chi.LogLikelihood(
            ToyModel(2, 1), chi.GaussianErrorModel(), [1.0, 2.0, 1.5],
            [0.3, 0.9, 1.4])
        if case.get('id') is not None:
            ll.set_id(case['id'])
        return chi.LogPosterior(ll, uniform_prior(3)), None
    hcase = case['hcase']
    hl = hier.build(hcase)
    nt = rp.n_top(hcase['spec'], hcase['n_ids'])
    return chi.HierarchicalLogPosterior(hl, uniform_prior(nt)), hcase


# ------------------------------------------------------------------ initial points

def sample_by_parts(spec, pop, top, n_ids, rng, cov):
    """Draws of a composed population model taken sub-model by sub-model (each with
    its own slice of the parameters and its own covariate columns, continuing one
    generator) -- independent of the composed model's own bookkeeping."""
    if spec['kind'] == 'Cov':
        spec = rp.Comp([spec])
    if spec['kind'] != 'Comp' or any(p_['kind'] in ('Comp', 'Red')
                                     for p_ in spec['parts']):
        kw = {'covariates': cov} if cov is not None else {}
        return np.asarray(pop.sample(top, n_samples=n_ids, seed=rng, **kw))
    cols = []
    t0 = c0 = 0
    for part in spec['parts']:
        nt, ncv = rp.n_top(part, n_ids), rp.n_cov(part)
        if part['kind'] == 'Cov' and part['inner']['kind'] != 'H':
            # individual by individual: a draw of the UNDERLYING model at that
            # individual's own shifted parameters
            th = np.real(rp.vartheta(part, np.asarray(top[t0:t0 + nt]),
                                     cov[:, c0:c0 + ncv], n_ids))
            under = popbuild.build(part['inner'], 1)
            cols.append(np.vstack([np.asarray(under.sample(
                th[i_].flatten(), n_samples=1, seed=rng)).reshape(1, -1)
                for i_ in range(n_ids)]))
        else:
            sub = popbuild.build(part, n_ids)
            kw_p = {'covariates': cov[:, c0:c0 + ncv]} if ncv else {}
            cols.append(np.asarray(sub.sample(
                top[t0:t0 + nt], n_samples=n_ids, seed=rng, **kw_p)
            ).reshape(n_ids, -1))
        t0 += nt
        c0 += ncv
    return np.hstack(cols)


def w_initial(case):
    viol = []
    try:
        post, hcase = build_posterior(case)
    except Exception as e:
        return {'transitions': 1, 'outcome': 'ctor', 'violations': [{
            'sub': 'construct', 'message': 'posterior cannot be constructed: %s'
            % e, 'expected': 'ok', 'observed': repr(e), 'behaviour': 'ctor'}]}
    n = post.n_parameters()
    ns, seed = case['n_samples'], case['seed']
    lab = 'individual' if hcase is None else popbuild.label(hcase['spec']) + \
        ' n_ids=%d' % hcase['n_ids']
    if case['kind'] == 'filter':
        return _initial_filter(case, post)
    try:
        x = np.asarray(post.sample_initial_parameters(n_samples=ns, seed=seed))
    except Exception as e:
        import traceback
        tb = traceback.format_exc()
        beh = 'init_raise:' + type(e).__name__
        return {'transitions': 2, 'outcome': 'raise', 'violations': [{
            'sub': 'init_raise', 'message': 'sample_initial_parameters raises for a '
            'constructible posterior (%s): %s: %s' % (lab, type(e).__name__,
                                                      str(e)[:120]),
            'expected': 'initial points', 'observed': tb[-500:],
            'behaviour': beh}]}
    if x.shape != (ns, n):
        viol.append({'sub': 'shape', 'message': 'initial points do not have the '
                     'posterior\'s dimension (%s)' % lab, 'expected': [ns, n],
                     'observed': list(x.shape), 'behaviour': 'init_shape'})
        return {'transitions': 2, 'outcome': 'shape', 'violations': viol}
    x2 = np.asarray(post.sample_initial_parameters(n_samples=ns, seed=seed))
    if not np.array_equal(x, x2):
        viol.append({'sub': 'repro', 'message': 'initial points are not '
                     'reproducible from the seed (%s)' % lab, 'expected': x,
                     'observed': x2, 'behaviour': 'init_repro'})
    x3 = np.asarray(post.sample_initial_parameters(n_samples=ns, seed=seed + 1))
    if np.array_equal(x, x3):
        viol.append({'sub': 'seed', 'message': 'different seeds give identical '
                     'initial points (%s)' % lab, 'expected': 'different',
                     'observed': x, 'behaviour': 'init_seed'})
    # top entries: the prior's own draw under that seed
    if hcase is None:
        np.random.seed(seed)
        e_top = uniform_prior(3).sample(ns)
        if not np.array_equal(x, e_top):
            viol.append({'sub': 'top', 'message': 'initial points are not the '
                         'prior\'s draws under the seed (individual)',
                         'expected': e_top, 'observed': x, 'behaviour': 'init_top'})
        return {'transitions': 4, 'outcome': tol.rnd(x, 8), 'violations': viol}
    spec, n_ids = hcase['spec'], hcase['n_ids']
    nb, nt = rp.n_bottom(spec, n_ids), rp.n_top(spec, n_ids)
    np.random.seed(seed)
    e_top = uniform_prior(nt).sample(ns)
    if not np.array_equal(x[:, nb:], e_top):
        viol.append({'sub': 'top', 'message': 'population-level entries are not '
                     'the prior\'s draws under the seed (%s)' % lab,
                     'expected': e_top, 'observed': x[:, nb:],
                     'behaviour': 'init_top'})
    # bottom entries: the population model's own draw at those population values
    pop = popbuild.build(spec, n_ids)
    cov = None if hcase['cov'] is None else np.array(hcase['cov'])
    rng = np.random.default_rng(seed + 1)
    hmask = [k is None for k in rp.special(spec)]
    for s in range(ns):
        draw = sample_by_parts(spec, pop, x[s, nb:], n_ids, rng, cov)
        e_bottom = draw[:, hmask].flatten()
        if not np.array_equal(x[s, :nb], e_bottom):
            viol.append({'sub': 'bottom', 'message': 'individual-level entries are '
                         'not the population model\'s draws (per individual, '
                         'hierarchical dimensions only) at the sampled population '
                         'values (%s)' % lab, 'expected': e_bottom,
                         'observed': x[s, :nb], 'behaviour': 'init_bottom'})
            break
        # finite prior + population contributions
        obs = np.zeros((n_ids, len(hmask)))
        obs[:, hmask] = x[s, :nb].reshape(n_ids, sum(hmask))
        psi = np.real(rp.psi_of(spec, x[s, nb:], obs, cov))
        obs[:, [not h for h in hmask]] = psi[:, [not h for h in hmask]]
        lp = float(np.real(rp.logpop(spec, x[s, nb:], obs, cov)))
        if not np.isfinite(lp):
            viol.append({'sub': 'finite', 'message': 'population contribution at an '
                         'initial point is not finite (%s)' % lab,
                         'expected': 'finite', 'observed': lp,
                         'behaviour': 'init_finite'})
            break
    return {'transitions': 5, 'outcome': tol.rnd(x, 8), 'violations': viol}


def _initial_filter(case, post):
    """Filter posterior: [population-level | simulated individuals | noise]."""
    viol = []
    spec, n_sim = case['fspec'], case['n_sim']
    ns, seed = case['n_samples'], case['seed']
    lab = 'filter ' + popbuild.label(spec) + ' n_sim=%d' % n_sim
    n = post.n_parameters()
    x = np.asarray(post.sample_initial_parameters(n_samples=ns, seed=seed))
    if x.shape != (ns, n):
        return {'transitions': 2, 'outcome': 'shape', 'violations': [{
            'sub': 'shape', 'message': 'initial points do not have the posterior\'s '
            'dimension (%s)' % lab, 'expected': [ns, n], 'observed': list(x.shape),
            'behaviour': 'init_shape'}]}
    x2 = np.asarray(post.sample_initial_parameters(n_samples=ns, seed=seed))
    if not np.array_equal(x, x2):
        viol.append({'sub': 'repro', 'message': 'initial points are not '
                     'reproducible from the seed (%s)' % lab, 'expected': x,
                     'observed': x2, 'behaviour': 'init_repro'})
    n_pop = rp.n_top(spec, n_sim)
    n_top = n_pop + (0 if case['sigma_fixed'] else 1)
    hmask = [k is None for k in rp.special(spec)]
    n_hd = sum(hmask)
    np.random.seed(seed)
    e_top = uniform_prior(n_top).sample(ns)
    if not np.array_equal(x[:, :n_top], e_top):
        viol.append({'sub': 'top', 'message': 'population-level entries are not the '
                     'prior\'s draws under the seed (%s)' % lab, 'expected': e_top,
                     'observed': x[:, :n_top], 'behaviour': 'init_top'})
    pop = popbuild.build(spec, n_sim)
    rng = np.random.default_rng(seed + 1)
    end_b = n_top + n_sim * n_hd
    for s_ in range(ns):
        draw = sample_by_parts(spec, pop, x[s_, :n_pop], n_sim, rng, None)
        e_bottom = draw[:, hmask].flatten()
        if not np.array_equal(x[s_, n_top:end_b], e_bottom):
            viol.append({'sub': 'bottom', 'message': 'entries of the simulated '
                         'individuals are not the population model\'s draws '
                         '(hierarchical dimensions only) at the sampled population '
                         'values (%s)' % lab, 'expected': e_bottom,
                         'observed': x[s_, n_top:end_b], 'behaviour': 'init_bottom'})
            break
        obs = np.zeros((n_sim, len(hmask)))
        obs[:, hmask] = x[s_, n_top:end_b].reshape(n_sim, n_hd)
        psi = np.real(rp.psi_of(spec, x[s_, :n_pop], obs, None))
        obs[:, [not h for h in hmask]] = psi[:, [not h for h in hmask]]
        lp = float(np.real(rp.logpop(spec, x[s_, :n_pop], obs, None)))
        if not np.isfinite(lp):
            viol.append({'sub': 'finite', 'message': 'population contribution at an '
                         'initial point is not finite (%s)' % lab,
                         'expected': 'finite', 'observed': lp,
                         'behaviour': 'init_finite'})
            break
    if not viol:
        e_eps = rng.normal(loc=0, scale=1, size=(ns, n - end_b))
        if not np.array_equal(x[:, end_b:], e_eps):
            viol.append({'sub': 'eps', 'message': 'noise entries are not standard '
                         'normal draws of the generator (%s)' % lab,
                         'expected': e_eps, 'observed': x[:, end_b:],
                         'behaviour': 'init_eps'})
        if not np.isfinite(post(x[0])):
            viol.append({'sub': 'finite_post', 'message': 'log-posterior at an '
                         'initial point is not finite (%s)' % lab,
                         'expected': 'finite', 'observed': post(x[0]),
                         'behaviour': 'init_finite'})
    return {'transitions': 5, 'outcome': tol.rnd(x, 8), 'violations': viol}


# ------------------------------------------------------------------ formatting

def w_format(case):
    viol = []
    post, hcase = build_posterior(case)
    n = post.n_parameters()
    n_runs, n_draws = case['n_runs'], case['n_draws']
    lab = 'individual' if hcase is None else popbuild.label(hcase['spec']) + \
        ' n_ids=%d' % hcase['n_ids']
    names = list(post.get_parameter_names())
    outcome = []
    with PintsSeam(n_draws) as seam:
        sc = chi.SamplingController(post, seed=1)
        sc.set_n_runs(n_runs)
        sc.set_parallel_evaluation(False)
        oc = chi.OptimisationController(post, seed=1)
        oc.set_n_runs(n_runs)
        oc.set_parallel_evaluation(False)
        if case.get('transform'):
            # a search-space transformation is pints' business: what pints hands
            # back (chains, estimates) already is in model space
            sc.set_transform(pints.LogTransformation(n))
            oc.set_transform(pints.LogTransformation(n))
        ds = sc.run(n_iterations=n_draws)
        table = oc.run(n_max_iterations=3)
    if case['kind'] == 'filter':
        # the published names / IDs are the documented layout: population level,
        # simulated individuals, then noise per (individual, observable, time)
        n_obs, n_sim = case.get('n_obs', 1), case['n_sim']
        dims = ['p%d' % i for i in range(len(rp.special(case['fspec'])))]
        e_names = rp._names(case['fspec'], n_sim, dims)
        e_ids = [None] * len(e_names)
        if not case['sigma_fixed']:
            e_names += ['Sigma o%d' % j for j in range(n_obs)]
            e_ids += [None] * n_obs
        for s_ in range(n_sim):
            for d_, kind_ in zip(dims, rp.special(case['fspec'])):
                if kind_ is None:
                    e_names.append(d_)
                    e_ids.append('Sim. %d' % (s_ + 1))
        for s_ in range(n_sim):
            for j in range(n_obs):
                for t_ in range(2):
                    e_names.append('o%d Epsilon time %d' % (j, t_ + 1))
                    e_ids.append('Sim. %d' % (s_ + 1))
        if names != e_names or list(post.get_id()) != e_ids:
            viol.append({'sub': 'filter_layout', 'message': 'names / IDs published '
                         'by the filter posterior are not the documented layout '
                         '(%s, %d observables)' % (popbuild.label(case['fspec']),
                                                   n_obs),
                         'expected': [e_names, e_ids],
                         'observed': [names, list(post.get_id())],
                         'behaviour': 'filter_layout'})
    # --- dataset: every published name once, entries decode to raw positions
    if hcase is None and case['kind'] != 'filter':
        ids_u = post.get_id()
        meaning = [(nm, None, p) for p, nm in enumerate(names)]
    else:
        ids_u = list(post.get_id(unique=True))
        full_ids = list(post.get_id())
        meaning = [(nm, full_ids[p], p) for p, nm in enumerate(names)]
    want_vars = []
    for nm, _id, p in meaning:
        if nm not in want_vars:
            want_vars.append(nm)
    if sorted(ds.data_vars) != sorted(want_vars):
        viol.append({'sub': 'vars', 'message': 'posterior dataset does not contain '
                     'every parameter exactly once under its name (%s)' % lab,
                     'expected': sorted(want_vars), 'observed': sorted(ds.data_vars),
                     'behaviour': 'ds_vars'})
    else:
        for nm, _id, p in meaning:
            arr = ds[nm]
            for c in range(n_runs):
                for d in range(n_draws):
                    code = 10000.0 * c + 100.0 * d + p
                    try:
                        if _id is None:
                            got = float(arr.sel(chain=c, draw=d).values)
                        else:
                            got = float(arr.sel(chain=c, draw=d,
                                                individual=_id).values)
                    except Exception as e:
                        got = 'raise:%s' % type(e).__name__
                    if got != code:
                        viol.append({
                            'sub': 'entry', 'message': 'posterior dataset entry '
                            '(%s, id=%s, chain=%d, draw=%d) is not the raw chain '
                            'entry of that parameter (%s)' % (nm, _id, c, d, lab),
                            'expected': code, 'observed': got,
                            'behaviour': 'ds_entry'})
                        break
                else:
                    continue
                break
    # --- optimisation table
    rows = table.reset_index(drop=True)
    if len(rows) != n * n_runs:
        viol.append({'sub': 'table_len', 'message': 'optimisation table does not '
                     'have one row per parameter and run (%s)' % lab,
                     'expected': n * n_runs, 'observed': len(rows),
                     'behaviour': 'opt_len'})
    else:
        full_ids = [post.get_id()] * n if (
            hcase is None and case['kind'] != 'filter') else list(post.get_id())
        for r in range(n_runs):
            for p in range(n):
                row = rows.iloc[r * n + p]
                want = (names[p], full_ids[p], 1000.0 * (r + 1) + p, -(r + 1.0),
                        r + 1)
                rid = row['ID']
                if rid is not None and not isinstance(rid, str) and rid != rid:
                    rid = None          # pandas stores None as NaN
                got = (row['Parameter'], rid, float(row['Estimate']),
                       float(row['Score']), int(row['Run']))
                if got != want:
                    viol.append({'sub': 'table_row', 'message': 'optimisation '
                                 'table row does not pair estimate, name, ID, '
                                 'score and run (%s)' % lab, 'expected': want,
                                 'observed': got, 'behaviour': 'opt_row'})
                    break
            else:
                continue
            break
    # --- read-back
    if not viol and case['kind'] != 'filter':
        _readback(case, post, hcase, ds, viol, lab, n_runs, n_draws)
    return {'transitions': 6, 'outcome': key_of([lab, n_runs, n_draws,
                                                 sorted(ds.data_vars)]),
            'violations': viol}


def _readback(case, post, hcase, ds, viol, lab, n_runs, n_draws):
    """The formatted dataset can be fed back; the matching columns are selected."""
    if hcase is None:
        ll = post.get_log_likelihood()
        try:
            pw = chi.compute_pointwise_loglikelihood(ll, ds)
        except Exception as e:
            viol.append({'sub': 'pointwise_raise', 'message': 'the posterior '
                         'dataset of an individual posterior cannot be fed to '
                         'compute_pointwise_loglikelihood: %s: %s'
                         % (type(e).__name__, str(e)[:100]), 'expected': 'values',
                         'observed': repr(e)[:200],
                         'behaviour': 'pointwise_raise:' + type(e).__name__})
            return
        # the columns are found by name: the same variables stored in another
        # order (a hand-assembled or re-ordered dataset) give the same result
        for how, order in (('reversed', list(ds.data_vars)[::-1]),
                           ('rotated', list(ds.data_vars)[1:] +
                            list(ds.data_vars)[:1])):
            try:
                pw2 = chi.compute_pointwise_loglikelihood(ll, ds[order])
                same = pw2.shape == pw.shape and tol.allclose(
                    np.asarray(pw2.values, dtype=float),
                    np.asarray(pw.values, dtype=float))
            except Exception as e:
                same, pw2 = False, repr(e)[:200]
            if not same:
                viol.append({'sub': 'pointwise_order', 'message': 'pointwise '
                             'log-likelihood depends on the order in which the '
                             'dataset stores its variables (%s)' % how,
                             'expected': np.asarray(pw.values, dtype=float),
                             'observed': pw2 if isinstance(pw2, str) else
                             np.asarray(pw2.values, dtype=float),
                             'behaviour': 'pointwise_cols'})
                return
        for c in range(n_runs):
            for d in range(n_draws):
                x = np.array([10000.0 * c + 100.0 * d + p
                              for p in range(post.n_parameters())])
                e = ll.compute_pointwise_ll(x)
                k_out = case.get('n_out', 1)
                if k_out > 1:
                    # independent of the likelihood's own bookkeeping: Gaussian
                    # log-densities of output j with ITS sigma (dataset column 2 + j)
                    from ..ref import toy as _toy
                    e = []
                    for j_ in range(k_out):
                        t_ = [0.3, 0.9, 1.4][:3 - j_ % 2]
                        y_ = [1.0 + 0.2 * j_, 2.0, 1.5 - 0.1 * j_][:3 - j_ % 2]
                        yb_ = np.real(_toy.evaluate(x[:2], t_, k_out))[j_]
                        sg_ = x[2 + j_]
                        e += list(-0.5 * np.log(2 * np.pi * sg_ ** 2)
                                  - (np.array(y_) - yb_) ** 2 / (2 * sg_ ** 2))
                    e = np.array(e)
                g = pw.sel(chain=c, draw=d).values
                if not tol.allclose(g, e):
                    viol.append({'sub': 'pointwise', 'message': 'pointwise '
                                 'log-likelihood does not use the matching '
                                 'columns of the dataset', 'expected': e,
                                 'observed': g, 'behaviour': 'pointwise_cols'})
                    return
        return
    # hierarchical: individual predictive model reads the individual's entries
    spec, n_ids = hcase['spec'], hcase['n_ids']
    sp = rp.special(spec)
    if any(k is not None for k in sp):
        return      # pooled / heterogeneous entries live at the population level
    pm = chi.PredictiveModel(c15.RevealModel(2), [chi.GaussianErrorModel(),
                                                  chi.GaussianErrorModel()])
    # parameters of the toy likelihood are p0, p1, Sigma: map the names
    names = hier.ref_names(hcase, include_ids=False)[0][:3]
    pmap = dict(zip(pm.get_parameter_names()[:3], names))
    pm3 = chi.PredictiveModel(c15.RevealModel(1), [chi.GaussianErrorModel()])
    pmap = {'q0': names[0], 'Sigma': names[2]}
    try:
        ppm = chi.PosteriorPredictiveModel(pm3, ds, param_map=pmap)
    except Exception as e:
        viol.append({'sub': 'readback_ctor', 'message': 'posterior dataset cannot '
                     'be fed to PosteriorPredictiveModel (%s): %s' % (lab, e),
                     'expected': 'ok', 'observed': repr(e)[:200],
                     'behaviour': 'readback_ctor'})
        return
    from ..env.rngseam import Seam, Script
    ids = list(post.get_id(unique=True))
    full_names = list(post.get_parameter_names())
    full_ids = list(post.get_id())
    for ind in ids:
        p_q = [p for p in range(len(full_names))
               if full_names[p] == names[0] and full_ids[p] == ind][0]
        rows = n_runs * n_draws
        for ans in range(rows):
            def base(stream, index, kind, n=None):
                return 0.0 if kind == 'z' else (0.5 if kind == 'u' else ans)
            with Seam(Script(base=base)):
                df = ppm.sample([1.0], n_samples=1, individual=ind, seed=3)
            v = float(df['Value'].iloc[0]) / c15.tf(1.0)
            c, d = ans // n_draws, ans % n_draws
            want = 10000.0 * c + 100.0 * d + p_q
            if not tol.close(v, want):
                viol.append({'sub': 'readback', 'message': 'PosteriorPredictiveModel '
                             'fed with the formatted dataset does not select the '
                             'entries of the chosen individual / row (%s)' % lab,
                             'expected': want, 'observed': v,
                             'behaviour': 'readback'})
                return


def w_ctrl_init(case):
    """Histories of controller configuration calls: at every run the starting
    points handed to pints are the posterior's seeded initial points for the number
    of runs in force."""
    viol = []
    post, hcase = build_posterior(case)
    ref_post, _ = build_posterior(case)
    seed = case['seed']
    cls = chi.SamplingController if case['ctrl'] == 'sampling' else \
        chi.OptimisationController
    n_runs = None
    outcome = []
    with PintsSeam(2) as seam:
        c = cls(post, seed=seed)
        n_runs = c._n_runs
        for op in case['ops'] + ['run']:
            if op.startswith('runs'):
                n_runs = int(op[4:])
                c.set_n_runs(n_runs)
            elif op == 'par':
                c.set_parallel_evaluation(False)
            elif op == 'method':
                if case['ctrl'] == 'sampling':
                    c.set_sampler(pints.HaarioACMC)
                else:
                    c.set_optimiser(pints.XNES)
            elif op == 'draw':
                # the posterior is asked for other initial points in between
                post.sample_initial_parameters(n_samples=3, seed=seed + 5)
            elif op == 'run':
                del seam.x0s[:]
                seam._oc_count[0] = 0
                if case['ctrl'] == 'sampling':
                    c.run(n_iterations=2)
                    got = seam.x0s[0] if seam.x0s else np.empty((0, 0))
                else:
                    c.run(n_max_iterations=2)
                    got = np.array(seam.x0s)
                want = np.asarray(ref_post.sample_initial_parameters(
                    n_samples=n_runs, seed=seed))
                outcome.append(tol.rnd(got, 8))
                if got.shape != want.shape or not np.array_equal(got, want):
                    viol.append({'sub': 'ctrl_init', 'message': 'starting points '
                                 'handed to pints after %s are not the posterior\'s '
                                 'initial points for seed %s and %d runs (%s, %s)'
                                 % (case['ops'], seed, n_runs, case['ctrl'],
                                    case['kind']), 'expected': want,
                                 'observed': got, 'behaviour': 'ctrl_init'})
                    break
    return {'transitions': len(case['ops']) + 3, 'outcome': key_of(outcome),
            'violations': viol}


def w_param_map(case):
    """PosteriorPredictiveModel with a parameter map: every model parameter reads
    the dataset variable it is mapped to (unmapped ones the variable of their own
    name), also when maps swap or shift names among the model's own names."""
    import xarray as xr
    from ..env.rngseam import Seam, Script
    viol = []
    pm = c15.pred_model(3)
    dvars = ['q0', 'q1', 'q2', 'a', 'b'] + pm.get_parameter_names()[3:]
    data = {}
    for k, v in enumerate(dvars):
        data[v] = (('chain', 'draw', 'individual'),
                   np.full((1, 1, 1), 100.0 * (k + 1)))
    ds = xr.Dataset(data, coords={'chain': [0], 'draw': [0], 'individual': ['x']})
    pmap = dict(case['map'])
    names_before = list(pm.get_parameter_names())
    if case.get('earlier'):
        # the same predictive model served another posterior predictive model
        # (with another map) before
        chi.PosteriorPredictiveModel(pm, ds, param_map=dict(case['earlier']))
    ppm = chi.PosteriorPredictiveModel(pm, ds, param_map=dict(pmap))
    if list(pm.get_parameter_names()) != names_before:
        viol.append({'sub': 'pm_names', 'message': 'building posterior predictive '
                     'models renamed the parameters of the predictive model',
                     'expected': names_before,
                     'observed': list(pm.get_parameter_names()),
                     'behaviour': 'param_map'})

    def base(stream, index, kind, n=None):
        return 0.0 if kind == 'z' else (0.5 if kind == 'u' else 0)
    with Seam(Script(base=base)):
        df = ppm.sample([1.0], n_samples=1, individual='x', seed=3)
    got = {}
    for j in range(3):
        v = float(df[df['Observable'] == 'r%d' % j]['Value'].iloc[0]) / c15.tf(1.0)
        got['q%d' % j] = dvars[int(round(v / 100.0)) - 1]
    want = {'q%d' % j: pmap.get('q%d' % j, 'q%d' % j) for j in range(3)}
    if got != want:
        viol.append({'sub': 'param_map', 'message': 'posterior predictive model '
                     'with param_map %s does not read every model parameter from '
                     'the dataset variable it is mapped to' % pmap,
                     'expected': want, 'observed': got, 'behaviour': 'param_map'})
    return {'transitions': 2, 'outcome': key_of([sorted(pmap.items()), got]),
            'violations': viol}


def w_opt_failures(case):
    """Optimisation runs that break: their rows hold NaN, the other rows pair the
    estimates with name, ID, score and run."""
    viol = []
    post, hcase = build_posterior(case)
    n = post.n_parameters()
    fails = case['fails']
    n_runs = len(fails)
    orig = pints.OptimisationController.run
    count = [0]

    def run(ctrl):
        r = count[0]
        count[0] += 1
        if fails[r]:
            raise np.linalg.LinAlgError('injected failure of run %d' % r)
        return 1000.0 * (r + 1) + np.arange(n), -(r + 1.0)
    pints.OptimisationController.run = run
    try:
        oc = chi.OptimisationController(post, seed=1)
        oc.set_n_runs(n_runs)
        oc.set_parallel_evaluation(False)
        table = oc.run(n_max_iterations=3).reset_index(drop=True)
    finally:
        pints.OptimisationController.run = orig
    names = list(post.get_parameter_names())
    if len(table) != n * n_runs:
        viol.append({'sub': 'fail_len', 'message': 'optimisation table does not have '
                     'one row per parameter and run when runs break',
                     'expected': n * n_runs, 'observed': len(table),
                     'behaviour': 'opt_fail_len'})
    else:
        for r in range(n_runs):
            for p_ in range(n):
                row = table.iloc[r * n + p_]
                est, sc = float(row['Estimate']), float(row['Score'])
                if fails[r]:
                    ok = est != est and sc != sc
                    want = ('nan', 'nan')
                else:
                    ok = est == 1000.0 * (r + 1) + p_ and sc == -(r + 1.0)
                    want = (1000.0 * (r + 1) + p_, -(r + 1.0))
                ok = ok and row['Parameter'] == names[p_] and int(row['Run']) == r + 1
                if not ok:
                    viol.append({'sub': 'fail_row', 'message': 'optimisation table '
                                 'with failure pattern %s: run %d does not hold its '
                                 'own estimates / NaN for a broken run'
                                 % (fails, r + 1), 'expected': want,
                                 'observed': (est, sc, row['Parameter'],
                                              int(row['Run'])),
                                 'behaviour': 'opt_fail_row'})
                    break
            else:
                continue
            break
    return {'transitions': n_runs + 2, 'outcome': key_of([case['kind'], fails]),
            'violations': viol}


WORKERS = {'controller_init': w_ctrl_init, 'initial': w_initial, 'format': w_format, 'param_map': w_param_map,
           'opt_failures': w_opt_failures}


def build(tier, seed):
    kinds = hier.KINDS10       # every class in both tiers
    max_ids = 2 if tier == 'quick' else 3
    init, fmt = [], []
    structs = hier.structures(3, kinds)
    extra = [rp.Red(rp.Comp([rp.G(1), rp.P(1), rp.LN(1, False)]), {0: 1.1}),
             rp.Red(rp.Comp([rp.H(1), rp.LN(2)]), {1: 0.5}),
             rp.Comp([rp.Comp([rp.G(1), rp.P(1)]), rp.LN(1, False)]),
             rp.Red(rp.Comp([rp.Cov(rp.P(1)), rp.G(2)]), {2: 1.2})]
    for i, spec in enumerate(structs + extra):
        for n_ids in range(1, max_ids + 1):
            hc = hier.make_case(spec, n_ids, seed)
            for ns in (1, 3) if tier == 'thorough' else (2,):
                for sd in (0, 1, 2) if tier == 'thorough' else ((0, 1, 2)[i % 3],):
                    init.append({'kind': 'hier', 'hcase': hc, 'n_samples': ns,
                                 'seed': sd})
    for ns in (1, 2, 3):
        for sd in (0, 1, 2):
            init.append({'kind': 'individual', 'n_samples': ns, 'seed': sd})
    # filter posteriors: every composition of two or three dimensions
    fkinds = ['G', 'Gnc', 'LN', 'LNnc', 'TG', 'P', 'H']
    for nd_ in (2, 3):
        for i, spec in enumerate(hier.structures(nd_, fkinds)):
            if nd_ == 3 and tier == 'quick' and not any(
                    k is not None for k in rp.special(spec)):
                continue
            for sf in (True, False):
                init.append({'kind': 'filter', 'fspec': spec, 'sigma_fixed': sf,
                             'n_sim': 2 + i % 2, 'n_samples': 1 + (i + sf) % 2,
                             'seed': (0, 1, 2)[i % 3]})
    fspecs = [rp.Comp([rp.G(1), rp.LN(1, False), rp.TG(1)]), rp.G(3),
              rp.Comp([rp.G(1), rp.P(1), rp.H(1)]),
              rp.Comp([rp.H(1), rp.LN(2)]),
              rp.Comp([rp.Cov(rp.G(1)), rp.LN(1), rp.P(1)]),
              rp.Red(rp.Comp([rp.G(1), rp.P(1), rp.LN(1, False)]), {0: 1.1}),
              rp.Comp([rp.Comp([rp.G(1), rp.P(1)]), rp.LN(1, False)])]
    if tier == 'thorough':
        fspecs += structs[::7]
    for spec in fspecs:
        for n_ids in range(1, max_ids + 1):
            hc = hier.make_case(spec, n_ids, seed,
                                ids=['b', 'a', 'c'][:n_ids])
            for n_runs in (1, 2, 3):
                for n_draws in (1, 2, 3):
                    if tier == 'quick' and (n_runs + n_draws) % 2:
                        continue
                    fmt.append({'kind': 'hier', 'hcase': hc, 'n_runs': n_runs,
                                'n_draws': n_draws})
    # more than nine individuals (labels do not sort like numbers)
    for spec in fspecs[:3]:
        hc = hier.make_case(spec, 11, seed,
                            ids=[str(k) for k in (3, 10, 1, 11, 2, 5, 4, 7, 6, 9, 8)])
        fmt.append({'kind': 'hier', 'hcase': hc, 'n_runs': 2, 'n_draws': 2})
    for spec in fspecs[:2]:
        hc = hier.make_case(spec, 2, seed, ids=['b', 'a'])
        fmt.append({'kind': 'hier', 'hcase': hc, 'n_runs': 2, 'n_draws': 2,
                    'transform': True})
    fmt.append({'kind': 'individual', 'id': 'x7', 'n_runs': 2, 'n_draws': 2,
                'transform': True})
    for n_out in (2, 3, 4):
        fmt.append({'kind': 'individual', 'id': 'x7', 'n_runs': 2, 'n_draws': 2,
                    'n_out': n_out})
    for n_runs in (1, 2, 3):
        for n_draws in (1, 2, 3):
            fmt.append({'kind': 'individual', 'id': 'x7', 'n_runs': n_runs,
                        'n_draws': n_draws})
    for fspec in (rp.Comp([rp.G(1), rp.P(1)]), rp.LN(2), rp.Comp([rp.H(1), rp.G(1)])):
        for sf in (True, False):
            for n_sim in (2, 3, 11):
                for n_runs, n_draws in ((1, 2), (2, 2), (3, 1)):
                    for n_obs in (1, 2):
                        fmt.append({'kind': 'filter', 'fspec': fspec,
                                    'sigma_fixed': sf, 'n_sim': n_sim,
                                    'n_runs': n_runs, 'n_draws': n_draws,
                                    'n_obs': n_obs})
    # parameter maps: every injective assignment of the three mechanistic names to
    # dataset variables (their own names included: swaps, shifts, cycles)
    pmaps = []
    targets = ['q0', 'q1', 'q2', 'a', 'b']
    for choice in itertools.product([None] + targets, repeat=3):
        final = [c if c is not None else 'q%d' % j for j, c in enumerate(choice)]
        if len(set(final)) != 3:
            continue
        items = [['q%d' % j, c] for j, c in enumerate(choice) if c is not None]
        for order in (items, items[::-1]):
            pmaps.append({'map': order})
            pmaps.append({'map': order, 'earlier': [['q0', 'a'], ['q2', 'b']]})
            if len(items) < 2:
                break
    optf = []
    hc2 = hier.make_case(rp.Comp([rp.G(1), rp.P(1), rp.LN(1, False)]), 2, seed)
    for n_runs in (1, 2, 3, 4):
        for fails in itertools.product([False, True], repeat=n_runs):
            optf.append({'kind': 'individual', 'fails': list(fails)})
            optf.append({'kind': 'hier', 'hcase': hc2, 'fails': list(fails)})
    ci = []
    ci_ops = ['runs1', 'runs2', 'runs5', 'par', 'method', 'run', 'draw']
    hc3 = hier.make_case(rp.Comp([rp.P(1), rp.G(1), rp.LN(1, False)]), 2, seed)
    ci_posts = [{'kind': 'individual'}, {'kind': 'hier', 'hcase': hc3},
                {'kind': 'filter', 'fspec': rp.Comp([rp.P(1), rp.LN(1)]),
                 'sigma_fixed': False, 'n_sim': 2}]
    for d_ in (0, 1, 2, 3):
        for ops in itertools.product(ci_ops, repeat=d_):
            for k_, pc in enumerate(ci_posts):
                if d_ == 3 and k_ != (len(ci) % 3):
                    continue
                for ctrl in ('sampling', 'optimisation'):
                    for sd in (0, 4):
                        if d_ >= 2 and sd != (0, 4)[len(ops[0]) % 2]:
                            continue
                        c_ = dict(pc)
                        c_.update({'ops': list(ops), 'ctrl': ctrl, 'seed': sd})
                        ci.append(c_)
    return {
        'parts': [
            Part('controller_init', ci, w_ctrl_init,
                 'every history of <= 3 controller configuration calls / runs: '
                 'starting points handed to pints = seeded initial points'),
            Part('param_map', pmaps, w_param_map,
                 'PosteriorPredictiveModel: every injective parameter map of three '
                 'model names into five dataset variables, both dictionary orders'),
            Part('opt_failures', optf, w_opt_failures,
                 'optimisation tables under every pattern of breaking runs '
                 '(<= 4 runs)'),
            Part('initial', init, w_initial,
                 'sample_initial_parameters over the composition space'),
            Part('format', fmt, w_format,
                 'SamplingController / OptimisationController formatting of coded '
                 'raw results and read-back'),
        ],
        'bounds': {'kinds': kinds, 'n_ids_max': max_ids, 'runs': [1, 2, 3],
                   'draws': [1, 2, 3]},
        'rule': 'all compositions (dims summing to 3) + wrapped models x n_ids x '
                'seeds; formatting for runs x draws in 1..3; distinct = distinct '
                'initial points / dataset layouts',
        'min_outcomes': {'initial': 50},
        'assumptions': ['pints run seam returns coded arrays; pints priors and '
                        'numpy generators trusted; population samplers decided by '
                        'C06'],
    }


META = {
    'technique': 'bounded exhaustive enumeration of posteriors x runs x draws with '
                 'coded raw chains behind a pints-run seam; differential check of '
                 'initial points against the prior\'s and the population model\'s '
                 'own draws',
    'level_text': 'For every population composition (incl. reduced, covariate-pooled, '
                  'nested), 1-3 individuals, seeds and sample counts, initial points '
                  'are compared with the prior\'s draws and the population model\'s '
                  'own draws; raw chains / estimates whose entries encode (chain, '
                  'draw, position) are formatted by the real controllers for 1-3 '
                  'runs and draws and every dataset / table entry is decoded; the '
                  'datasets are fed back to PosteriorPredictiveModel and '
                  'compute_pointwise_loglikelihood.',
    'level_note': 'The inference algorithms themselves (pints) are outside the '
                  'property; only chi\'s I/O around them is decided.',
}
META['level_text'] += (
    ' Also: every history of <= 3 controller configuration calls / runs (starting p'
    'oints handed to pints = seeded initial points), initial points of filter poste'
    'riors over every composition of 2-3 dimensions with an independent per-sub-mod'
    'el / per-individual sampling reference, more than nine individuals, two observ'
    'ables, a search-space transformation.')
META['level_text'] += (' Wave 9: datasets with re-ordered variables fed to the pointwise log-likelihood, filter posteriors whose population model is re-configured afterwards.')
