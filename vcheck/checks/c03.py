"""C03 — analytic gradients equal the true derivatives of the evaluated log-pdf.

Shape (A): the C01 space (individual, multi-output), the C02 space (hierarchical, incl.
covariates / reduced), posteriors with pints priors, fixed-parameter subsets, at support
points and at boundary points; oracles: (i) S1 score == plain score by class and value,
(ii) gradient == complex-step gradient of the reference score, (iii) gradient == 4th
order central differences of chi's own __call__, (iv) finite <=> finite, length."""
import itertools

import numpy as np
import pints

import chi

from ..core import tol, vals
from ..core.engine import Part
from ..gen import hier, popbuild, popvals
from ..ref import cstep, errors as rerr, populations as rp
from . import c01

PROPERTY = 'C03'


def fd_grad(f, x):
    """4th-order central differences of a real function."""
    x = np.asarray(x, dtype=float)
    g = np.empty(len(x))
    for k in range(len(x)):
        h = 1e-3 * max(1.0, abs(x[k]))
        v = []
        for m in (-2, -1, 1, 2):
            z = x.copy()
            z[k] += m * h
            v.append(f(z))
        g[k] = (v[0] - 8 * v[1] + 8 * v[2] - v[3]) / (12 * h)
    return g


def check_pair(viol, lab, f_call, f_s1, x, ref_f, n_expected, fd=True,
               rel=tol.REL, abs_=tol.ABS):
    """Common oracle for one log-pdf at one point. Returns outcome. `rel`, `abs_`:
    tolerance for score against score (closed form by default; the ODE tolerance
    for likelihoods driven by a numerically integrated model, whose plain and
    sensitivity-augmented systems are integrated separately)."""
    x = np.asarray(x, dtype=float)
    if len(lab) % 2:
        # (every other object is asked for sensitivities first: the very first
        # evaluation of an object may be either entry point)
        res = f_s1(x.copy())
        plain = f_call(x.copy())
    else:
        plain = f_call(x.copy())
        res = f_s1(x.copy())
    score = res[0]
    # (the gradient handed out is the caller's: evaluations at another point do not
    # change it)
    grad_obj, grad = res[1], np.array(res[1], dtype=float, copy=True)
    f_s1(x * 1.003 + 1e-3)
    f_call(x * 0.998)
    if np.shape(grad_obj) != grad.shape or not np.array_equal(
            np.asarray(grad_obj, dtype=float), grad, equal_nan=True):
        viol.append({'sub': 'retained', 'message': 'the sensitivities returned '
                     'earlier changed when the object was evaluated at another '
                     'point (%s)' % lab, 'expected': grad,
                     'observed': np.asarray(grad_obj, dtype=float),
                     'behaviour': 'retained'})
    plain2 = f_call(x.copy())   # history: call, S1, call
    res2 = f_s1(x.copy())
    if not tol.close(plain2, plain, rel, abs_) or \
            not tol.close(res2[0], score, rel, abs_):
        viol.append({'sub': 'history', 'message': 'call/S1/call/S1 history gives '
                     'different results (%s)' % lab, 'expected': [plain, score],
                     'observed': [plain2, res2[0]], 'behaviour': 'history'})
    if grad.shape != (n_expected,):
        viol.append({'sub': 'length', 'message': 'gradient length != n_parameters '
                     '(%s)' % lab, 'expected': n_expected,
                     'observed': list(grad.shape), 'behaviour': 'grad_len'})
        return [plain, score]
    if np.isfinite(plain) != np.isfinite(score):
        viol.append({'sub': 'finite', 'message': 'evaluateS1 and __call__ disagree '
                     'on finiteness (%s)' % lab, 'expected': plain,
                     'observed': score, 'behaviour': 'finite_mismatch'})
        return [plain, score]
    if not np.isfinite(plain):
        return [plain, score]
    if not tol.close(score, plain, rel, abs_):
        viol.append({'sub': 'score', 'message': 'score returned with the '
                     'sensitivities differs from plain evaluation (%s)' % lab,
                     'expected': plain, 'observed': score, 'behaviour': 's1_score'})
    if ref_f is not None:
        eg = cstep.grad(ref_f, x)
        if not tol.allclose(grad, eg, 1e-7, 1e-8):
            viol.append({'sub': 'grad_ref', 'message': 'sensitivities are not the '
                         'derivatives of the reference log-pdf (%s); worst entry '
                         '%d' % (lab, int(np.nanargmax(np.abs(grad - eg)))),
                         'expected': eg, 'observed': grad, 'behaviour': 'grad'})
    if fd:
        fg = fd_grad(f_call, x)
        if np.all(np.isfinite(fg)) and not tol.allclose(
                grad, fg, 2e-5, 2e-6):
            viol.append({'sub': 'grad_fd', 'message': 'sensitivities are not the '
                         'derivatives of chi\'s own plain score (%s); worst entry '
                         '%d' % (lab, int(np.nanargmax(np.abs(grad - fg)))),
                         'expected': fg, 'observed': grad, 'behaviour': 'grad_fd'})
    return [plain, score, grad]


def w_individual(case):
    viol = []
    ll = c01.build_likelihood(case)
    x = np.array(case['params'], dtype=float)
    lab = 'LogLikelihood ' + '/'.join(case['ems'])
    names = ll.get_parameter_names()
    fixed = case.get('fix') or {}
    if fixed:
        ll.fix_parameters({names[int(i)]: v for i, v in fixed.items()})
        free = [i for i in range(len(names)) if str(i) not in fixed]
        lab += ' fixed=%s' % sorted(fixed)
    else:
        free = list(range(len(names)))
    full0 = x.copy()
    for i, v in fixed.items():
        full0[int(i)] = v

    def ref_f(z):
        full = np.array(full0, dtype=complex)
        full[free] = z
        return c01.reference(case, full)[0]
    out = check_pair(viol, lab, ll, ll.evaluateS1, x[free], ref_f, len(free))
    if case.get('posterior'):
        n = len(free)
        pri = _priors(n, case.get('prior_kind', 'gauss'))
        post = chi.LogPosterior(ll, pri)
        out += check_pair(viol, lab + ' +prior', post, post.evaluateS1, x[free],
                          None, n)
    return {'transitions': 10, 'outcome': tol.rnd(out), 'violations': viol}


def _priors(n, kind):
    ps = []
    for i in range(n):
        if kind == 'gauss':
            ps.append(pints.GaussianLogPrior(1.0 + 0.1 * i, 2.0))
        elif kind == 'uniform_in':
            ps.append(pints.UniformLogPrior(0.0, 10.0))
        elif kind == 'uniform_out':
            # the first parameter lies outside the prior support
            ps.append(pints.UniformLogPrior(5.0, 10.0) if i == 0
                      else pints.UniformLogPrior(0.0, 10.0))
        elif kind == 'lognormal':
            ps.append(pints.LogNormalLogPrior(0.1 * i, 1.0))
        elif kind == 'halfcauchy':
            ps.append(pints.HalfCauchyLogPrior(0.0, 2.0 + i))
    return pints.ComposedLogPrior(*ps)


def w_hier(case):
    viol = []
    lab = popbuild.label(case['spec']) + ' n_ids=%d' % case['n_ids']
    hl = hier.build(case)
    x = np.array(case['vec'], dtype=float)
    n = len(x)
    out = check_pair(viol, lab, hl, hl.evaluateS1, x,
                     lambda z: hier.ref_score(case, z), n, fd=case.get('fd', True))
    if case.get('prior'):
        nt = rp.n_top(case['spec'], case['n_ids'])
        post = chi.HierarchicalLogPosterior(hl, hier.build_prior(nt))
        out += check_pair(viol, lab + ' +prior', post, post.evaluateS1, x,
                          lambda z: hier.ref_score(case, z, True), n, fd=False)
    if case.get('int_vec'):
        # a whole-number vector handed over as an integer array / list of ints has
        # the gradient of the same vector given as floats
        nb = rp.n_bottom(case['spec'], case['n_ids'])
        v3 = np.maximum(1, np.round(np.abs(x)))
        v3[nb:] += 3
        s_f, g_f = hl.evaluateS1(v3.copy())
        eg = cstep.grad(lambda z: hier.ref_score(case, z), v3)
        for form, arg in (('int array', v3.astype(int)),
                          ('list of ints', [int(q) for q in v3])):
            try:
                s_i, g_i = hl.evaluateS1(arg)
            except Exception as e:
                viol.append({'sub': 'int_vec', 'message': 'evaluateS1 raises for a '
                             'whole-number vector passed as %s although plain '
                             'evaluation is finite (%s): %s' % (form, lab, e),
                             'expected': 'gradient', 'observed': repr(e)[:200],
                             'behaviour': 'grad'})
                break
            if not tol.close(s_i, s_f) or not tol.allclose(
                    np.asarray(g_i, dtype=float), eg, 1e-7, 1e-8):
                viol.append({'sub': 'int_vec', 'message': 'sensitivities for a '
                             'whole-number vector passed as %s are not the '
                             'derivatives (%s)' % (form, lab), 'expected': eg,
                             'observed': g_i, 'behaviour': 'grad'})
                break
    return {'transitions': 10, 'outcome': tol.rnd(out), 'violations': viol}


HIST_OPS = {
    'call': None, 'S1': None,
    'fix_p0': {'p0': 1.3}, 'fix_p1': {'p1': 0.7}, 'fix_sb': {'Sigma base': 0.45},
    'rel_p0': {'p0': None}, 'swap': {'p0': None, 'p1': 0.9},
    # the fixed error parameter swapped for the other one in a single call
    'fix_sr': {'Sigma rel.': 0.25}, 'swap_err': {'Sigma base': None,
                                                 'Sigma rel.': 0.2},
    'fix_all_mech': {'p0': 1.1, 'p1': 0.6}}


def w_history(case):
    """Histories over {call, S1, fix/release ...}; after the history the gradient
    oracle is applied at the free parameters (first S1, then call)."""
    viol = []
    base = case['base']
    ll = c01.build_likelihood(base)
    names = ll.get_parameter_names()
    full = dict(zip(names, base['params']))
    fixed = {}
    for op in case['ops']:
        d = HIST_OPS[op]
        free = [n for n in names if n not in fixed]
        x = np.array([full[n] for n in free])
        if op == 'call':
            ll(x)
        elif op == 'S1':
            ll.evaluateS1(x)
        else:
            ll.fix_parameters(dict(d))
            for k, v in d.items():
                if v is None:
                    fixed.pop(k, None)
                else:
                    fixed[k] = v
    free = [n for n in names if n not in fixed]
    lab = 'history %s' % '>'.join(case['ops'])
    if list(ll.get_parameter_names()) != free:
        viol.append({'sub': 'names', 'message': 'free parameter names wrong after '
                     + lab, 'expected': free,
                     'observed': list(ll.get_parameter_names())})
        return {'transitions': len(case['ops']), 'outcome': 'names',
                'violations': viol}
    x = np.array([full[n] for n in free])
    idx = [names.index(n) for n in free]
    full0 = np.array([fixed.get(n, full[n]) for n in names])

    def ref_f(z):
        v = np.array(full0, dtype=complex)
        v[idx] = z
        return c01.reference(base, v)[0]
    # S1 first (a plain call would reset the sensitivity switch)
    s, g = ll.evaluateS1(x.copy())
    g = np.asarray(g, dtype=float)
    e = float(np.real(ref_f(x)))
    if g.shape != (len(free),):
        viol.append({'sub': 'length', 'message': 'gradient length wrong after '
                     + lab, 'expected': len(free), 'observed': list(g.shape),
                     'behaviour': 'hist_len'})
    else:
        eg = cstep.grad(ref_f, x)
        if not tol.close(s, e) or not tol.allclose(g, eg, 1e-7, 1e-8):
            viol.append({'sub': 'grad', 'message': 'evaluateS1 wrong after ' + lab,
                         'expected': [e, eg], 'observed': [s, g],
                         'behaviour': 'hist_grad'})
    out = check_pair(viol, lab, ll, ll.evaluateS1, x, ref_f, len(free), fd=False)
    return {'transitions': len(case['ops']) + 6, 'outcome': tol.rnd(out),
            'violations': viol}


def w_sbml(case):
    """SBML-driven likelihood / posterior (solver stand-in): S1 score vs plain score,
    gradient vs central differences of chi's own score, after optional preparation of
    the USER model (sensitivities enabled before the likelihood is built), with fixed
    parameters and with one injected solver failure."""
    import warnings
    import chi.library
    from ..env import refsim
    viol = []
    lib = chi.library.ModelLibrary()
    if case['model'] == 'erlotinib':
        m = lib.erlotinib_tumour_growth_inhibition_model()
        m.set_outputs(['central.drug_concentration', 'global.tumour_volume'])
        ems = [chi.GaussianErrorModel(), chi.LogNormalErrorModel()]
        obs = [[1.1, 0.7, 0.3], [1.4, 1.9]]
        times = [[0.5, 1.2, 2.5], [1.2, 3.0]]
    elif case['model'] == 'koch':
        m = lib.tumour_growth_inhibition_model_koch()
        ems = [chi.MultiplicativeGaussianErrorModel()]
        obs = [[1.3, 1.9, 2.4]]
        times = [[0.4, 1.1, 2.0]]
    else:
        m = lib.one_compartment_pk_model()
        ems = [chi.ConstantAndMultiplicativeGaussianErrorModel()]
        obs = [[0.9, 0.6, 0.2]]
        times = [[0.3, 1.0, 2.2]]
    if case['model'] != 'koch' and case.get('route'):
        m.set_administration('central', direct=case['route'] == 'direct')
        m.set_dosing_regimen(2.0, start=0.2, duration=0.4, period=1.0, num=2)
    if case.get('rename'):
        # user-chosen names for one / all mechanistic parameters
        old = m.parameters()
        sub = old[1:2] if case['rename'] == 'one' else old
        m.set_parameter_names({n: 'renamed %d' % i for i, n in enumerate(sub)})
    if case.get('pre_sens'):
        m.enable_sensitivities(True)
    ll = chi.LogLikelihood(m, ems, obs, times)
    names = ll.get_parameter_names()
    n_full = len(names)
    x_full = np.array(vals.reals('c03.sb', n_full, 0.4, 1.5, case['seed']))
    for i, nme in enumerate(names):
        if 'Sigma' in nme:
            x_full[i] = 0.2 + 0.1 * (i % 3)
    fixed = case.get('fix') or []
    if fixed:
        ll.fix_parameters({names[i]: float(x_full[i]) for i in fixed})
    free = [i for i in range(n_full) if i not in fixed]
    x = x_full[free]
    lab = 'SBML %s route=%s pre_sens=%s fixed=%s renamed=%s' % (
        case['model'], case.get('route'), case.get('pre_sens'), fixed,
        case.get('rename'))
    out = check_pair(viol, lab, ll, ll.evaluateS1, x, None, len(free),
                     rel=tol.ODE_REL, abs_=tol.ODE_ABS)
    # one injected solver failure: both evaluations report -inf, later ones recover
    if case.get('inject'):
        for which in ('call', 'S1'):
            refsim.Counters.fail_runs = {refsim.Counters.runs}
            with warnings.catch_warnings(record=True):
                warnings.simplefilter('always')
                r = ll(x.copy()) if which == 'call' else ll.evaluateS1(x.copy())[0]
            refsim.Counters.fail_runs = set()
            if r != -np.inf:
                viol.append({'sub': 'inject', 'message': 'a failing simulation does '
                             'not give a score of -inf (%s, %s)' % (lab, which),
                             'expected': -np.inf, 'observed': r,
                             'behaviour': 'inject'})
        again = ll(x.copy())
        if not tol.close(again, out[0]):
            viol.append({'sub': 'recover', 'message': 'score after a failed '
                         'simulation differs (%s)' % lab, 'expected': out[0],
                         'observed': again, 'behaviour': 'recover'})
    return {'transitions': 14, 'outcome': tol.rnd(out, 7), 'violations': viol}


def w_filter_post(case):
    """PopulationFilterLogPosterior is a log-posterior too: score and gradient against
    the reference assembled in C13 (complex-step gradient of every entry)."""
    from . import c13
    return c13.w_post(case)


WORKERS = {'filter_posterior': w_filter_post, 'sbml': w_sbml, 'fix_histories': w_history,
           'individual': w_individual, 'hierarchical': w_hier,
           'boundary_individual': w_individual, 'boundary_hier': w_hier}


def build(tier, seed):
    codes = list(rerr.MODELS)
    lattice = [0.0, vals.real('c01.t1', 0.3, 1.2, seed),
               vals.real('c01.t2', 1.5, 3.0, seed)]
    ms = c01.multisets(lattice, 2)
    ind = []
    for code in codes:
        for t in c01.multisets(lattice, 3):
            ind.append(c01.make_case([code], [t], 1, [0], seed, posterior=True))
    grids = ms if tier == 'thorough' else ms[::2]
    for ems in itertools.product(codes, repeat=2):
        for t0 in grids:
            for t1 in grids:
                ind.append(c01.make_case(ems, [t0, t1], 2, [0, 1], seed))
    # outputs without any measurement (first / middle / last, not all)
    for ems in itertools.product(codes, repeat=2):
        ind.append(c01.make_case(ems, [[], ms[5]], 2, [0, 1], seed, tag='e'))
        ind.append(c01.make_case(ems, [ms[5], []], 2, [0, 1], seed, tag='e'))
    for ems in itertools.product(['G', 'CM', 'LN'], repeat=3):
        for empties in ([0], [1], [2], [0, 1], [1, 2], [0, 2]):
            ts = [[] if j in empties else ms[(3 + 2 * j) % len(ms)]
                  for j in range(3)]
            ind.append(c01.make_case(ems, ts, 3, [0, 1, 2], seed, tag='e'))
    # output selection
    for sel in ([2, 0], [1]):
        for ems in itertools.product(codes, repeat=len(sel)):
            ind.append(c01.make_case(ems, [ms[4]] * len(sel), 3, sel, seed))
    # fixed-parameter subsets (every subset of <= 2) on a 2-output likelihood
    base = c01.make_case(['CM', 'LN'], [ms[5], ms[7]], 2, [0, 1], seed)
    npar = len(base['params'])
    for r in (1, 2):
        for idx in itertools.combinations(range(npar), r):
            c = dict(base)
            c['fix'] = {str(i): base['params'][i] * 1.1 for i in idx}
            c['posterior'] = True
            ind.append(c)
    # priors
    for kind in ('uniform_in', 'lognormal', 'halfcauchy'):
        c = c01.make_case(['G'], [ms[5]], 1, [0], seed, posterior=True)
        c['prior_kind'] = kind
        ind.append(c)
    # boundary points: non-positive scales, prior support edge
    bnd = []
    for code in codes:
        for bad in (0.0, -0.3):
            # every error parameter in turn on its boundary / outside
            for k_ in range(rerr.N_PARAMS[code]):
                c = c01.make_case([code], [ms[5]], 1, [0], seed)
                c['params'][2 + k_] = bad
                bnd.append(c)
                c = c01.make_case([code, 'G'], [ms[5], ms[3]], 2, [0, 1], seed)
                c['params'][2 + k_] = bad
                bnd.append(c)
                c = c01.make_case(['G', code], [ms[5], ms[3]], 2, [0, 1], seed)
                c['params'][3 + k_] = bad
                bnd.append(c)
    c = c01.make_case(['G'], [ms[5]], 1, [0], seed, posterior=True)
    c['prior_kind'] = 'uniform_out'
    bnd.append(c)
    # negative model outputs under every error model: wherever the plain score is
    # not finite the score returned with the sensitivities is not either
    for code in codes:
        for psi in ([-0.4, 0.3], [-1.1, 0.2]):
            for ems, ts, n_toy, sel in (([code], [ms[5]], 1, [0]),
                                        (['G', code], [ms[3], ms[5]], 2, [0, 1])):
                c = c01.make_case(ems, ts, n_toy, sel, seed, tag='m')
                c['params'][:2] = psi
                bnd.append(c)

    kinds = hier.KINDS10       # every class in both tiers
    max_ids = 2 if tier == 'quick' else 3
    hc = []
    for spec in hier.structures(3, kinds):
        for n_ids in range(1, max_ids + 1):
            c = hier.make_case(spec, n_ids, seed, prior=(n_ids == 2))
            # finite differences on a subset only (cost)
            c['fd'] = (n_ids == 1) or tier == 'thorough' and n_ids == 2
            hc.append(c)
    # covariates supplied although the population model has none
    for spec in [rp.G(3, False), rp.LN(3, False), rp.G(3), rp.P(3),
                 rp.Comp([rp.G(1, False), rp.LN(2)])]:
        for n_ids in (1, 2):
            c = hier.make_case(spec, n_ids, seed)
            c['extra_cov'] = True
            c['fd'] = False
            hc.append(c)
    # whole-number vectors in integer form (bare and composed population models)
    for spec in [rp.P(3), rp.G(3), rp.LN(3, False), rp.H(3)] + \
            hier.structures(3, ['G', 'LNnc', 'P', 'Cov(G)'])[::3]:
        c = hier.make_case(spec, 2, seed)
        c['int_vec'] = True
        c['fd'] = False
        hc.append(c)
    if tier == 'thorough':
        # 4-dimensional bottom level (two-parameter error model): every sequence of
        # one or two sub-models and every third longer one
        for k_, spec in enumerate(hier.structures(4, hier.KINDS6)):
            if spec['kind'] == 'Comp' and len(spec['parts']) > 2 and k_ % 3:
                continue
            c = hier.make_case(spec, 2, seed, err='CM')
            c['fd'] = False
            hc.append(c)
    bases = [rp.Comp([rp.G(1), rp.P(1), rp.LN(1, False)]),
             rp.Comp([rp.H(1), rp.G(2, False)]),
             rp.Comp([rp.Cov(rp.G(1)), rp.LN(1), rp.P(1)]),
             rp.Cov(rp.G(3), 2), rp.Cov(rp.P(3), 1),
             # naive-pooled analyses with a pooled parameter fixed
             rp.P(3), rp.Comp([rp.P(1), rp.P(2)])]
    for b in bases:
        for n_ids in range(1, max_ids + 1):
            n = rp.n_top(b, n_ids)
            full = popvals.top_values(b, n_ids, seed, positive=True)
            hc.append(hier.make_case(b, n_ids, seed))
            for r in (1, 2) if tier == 'thorough' else (1,):
                for idx in itertools.combinations(range(n), r):
                    hc.append(hier.make_case(
                        rp.Red(b, {i: full[i] for i in idx}), n_ids, seed,
                        prior=True))
    # hierarchical boundary points
    hb = []
    for spec in [rp.Comp([rp.G(1), rp.LN(1), rp.P(1)]),
                 rp.Comp([rp.LN(2), rp.G(1, False)]),
                 rp.Comp([rp.TG(1), rp.H(1), rp.LN(1, False)])]:
        for n_ids in (1, 2):
            base = hier.make_case(spec, n_ids, seed)
            nb = rp.n_bottom(spec, n_ids)
            for pos in range(len(base['vec'])):
                for bad in (-0.2, 0.0):
                    c = dict(base)
                    c['vec'] = list(base['vec'])
                    c['vec'][pos] = bad
                    c['fd'] = False
                    hb.append(c)
    # histories of evaluations and fix/release calls (all sequences up to depth d)
    hbase = c01.make_case(['CM'], [ms[5]], 1, [0], seed)
    hist = []
    depth = 3 if tier == 'quick' else 4
    ops = list(HIST_OPS)
    for n in range(1, depth + 1):
        for seq in itertools.product(ops, repeat=n):
            # at least one fix operation, otherwise the 'individual' part covers it
            if not any(o not in ('call', 'S1') for o in seq):
                continue
            # a history that fixes every parameter leaves nothing to differentiate
            hist.append({'base': hbase, 'ops': list(seq)})
    sb = []
    for model, nfull in (('lib1', 5), ('erlotinib', 9), ('koch', 6)):
        routes = [None] if model == 'koch' else [None, 'direct', 'indirect']
        for route in routes:
            nf = nfull + (2 if route == 'indirect' else 0)
            for pre in (False, True):
                fixes = [[], [0], [nf - 1], [1, 2]]
                if tier == 'thorough':
                    fixes += [[i] for i in range(1, nf - 1)] + [[0, nf - 2]]
                for fx in fixes:
                    for ren in (None, 'one', 'all'):
                        sb.append({'model': model, 'route': route, 'pre_sens': pre,
                                   'fix': fx, 'inject': not fx and ren is None,
                                   'seed': seed, 'rename': ren})
    # filter posteriors: 1-2 observables x 1-3 time points x filter kinds
    from . import c13
    fp = []
    t3 = sorted(vals.reals('c03.ft', 3, 0.2, 3.0, seed))
    fspecs = [rp.Comp([rp.G(1), rp.LN(1, False), rp.P(1)]), rp.G(3),
              rp.Comp([rp.H(1), rp.LN(2)]), rp.Comp([rp.Cov(rp.G(1)), rp.G(2, False)]),
              # regular dimensions between / after pooled and heterogeneous blocks
              rp.Comp([rp.P(1), rp.G(1), rp.P(1)]),
              rp.Comp([rp.H(1), rp.LN(1), rp.P(1)]),
              rp.Comp([rp.P(1), rp.LN(1, False), rp.H(1)]),
              rp.Comp([rp.P(1), rp.H(1), rp.G(1)])]
    for spec in fspecs:
        for filt in (('G', 2), ('GKDE', 2), ('LN', 2),
                     [('G', 1, 2), ('GKDE', 2, 2)], [('LN', 2, 2), ('G', 1, 2)]):
            for n_obs in (1, 2):
                for T in (1, 2, 3):
                    if isinstance(filt, list) and T != 3:
                        continue
                    for sigma_free in (False, True):
                        if tier == 'quick' and sigma_free and T == 2:
                            continue
                        fp.append(c13.make_case(
                            spec, filt, sigma_free, False, 3,
                            [t3[2], t3[0], t3[1]][:T], n_obs, seed))
    return {
        'parts': [
            Part('filter_posterior', fp, w_filter_post,
                 'PopulationFilterLogPosterior: structures x filters x 1-2 '
                 'observables x 1-3 times x sigma fixed / free (oracle of C13)'),
            Part('sbml', sb, w_sbml,
                 'SBML-driven likelihoods on the solver stand-in: models x routes x '
                 'pre-enabled sensitivities x fixed subsets x renamed parameters x '
                 'injected failure'),
            Part('fix_histories', hist, w_history,
                 'all sequences over {call, S1, fix, release} up to depth %d'
                 % depth),
            Part('individual', ind, w_individual,
                 'LogLikelihood/LogPosterior over error-model assignments, time '
                 'grids, output selections, fixed subsets, priors'),
            Part('hierarchical', hc, w_hier,
                 'Hierarchical likelihood/posterior over all compositions'),
            Part('boundary_individual', bnd, w_individual,
                 'non-positive scale parameters, prior support edge'),
            Part('boundary_hier', hb, w_hier,
                 'each entry of the hierarchical vector set to 0 / negative'),
        ],
        'bounds': {'kinds': kinds, 'n_ids_max': max_ids},
        'rule': 'C01 and C02 structure spaces; every coordinate differentiated; '
                'distinct = distinct (score, gradient) observations',
        'min_outcomes': {'individual': 50, 'hierarchical': 100},
        'assumptions': ['finite differences of chi\'s own score use a 4th-order '
                        'stencil with tolerance 2e-5',
                        'SBML-driven likelihoods are exercised in the solver-seam '
                        'checks'],
    }


META = {
    'technique': 'bounded exhaustive enumeration of likelihood/posterior compositions '
                 'on the real code; gradients compared with complex-step derivatives '
                 'of a reference and central differences of the real score',
    'level_text': 'For every structure of the C01 and C02 spaces (plus fixed-parameter '
                  'subsets, pints priors and boundary points) evaluateS1 is compared '
                  'with __call__ (value and finiteness class), with the exact '
                  'gradient of the reference score and with central differences of '
                  "chi's own score, over the history call, S1, call, S1.",
    'level_note': 'Toy closed-form bottom level; finite alphabets of generic values; '
                  'finite-difference tolerance 2e-5.',
}
META['level_text'] += (
    ' Also: filter posteriors with regular dimensions between pooled / heterogeneou'
    's blocks, every error parameter on its boundary, swaps of the fixed error para'
    'meter in one call.')
META['level_text'] += (' Wave 9: negative model outputs under every error model (finiteness of both entry points agrees).')
