"""C12 — population filters use the documented estimators; missing-data / permutation /
time-order / composition invariances; exact sensitivities in input order.

Shape (A): filter class (and every composition by splitting the time axis into
consecutive blocks) x array shapes x every NaN mask leaving >= 1 value per cell x
n_sim; per case all time permutations (consistent re-ordering, sort_times once and
twice), individual permutations and NaN padding are executed."""
import itertools

import numpy as np

import chi

from ..core import tol, vals
from ..core.engine import Part
from ..ref import cstep, filters as rf

PROPERTY = 'C12'

CLS = {'G': 'GaussianFilter', 'LN': 'LogNormalFilter', 'GKDE': 'GaussianKDEFilter',
       'LNKDE': 'LogNormalKDEFilter', 'GM': 'GaussianMixtureFilter'}


def mk(kind, y, nk):
    cls = getattr(chi, CLS[kind])
    if kind == 'GM':
        return cls(y, n_kernels=nk)
    return cls(y)


def build_filter(blocks, y, composed):
    if not composed:
        kind, nt, nk = blocks[0]
        return mk(kind, y, nk)
    fs = []
    t0 = 0
    for kind, nt, nk in blocks:
        fs.append(mk(kind, y[..., t0:t0 + nt], nk))
        t0 += nt
    return chi.ComposedPopulationFilter(fs)


def _arr(y):
    return np.array([[[np.nan if v is None else v for v in r] for r in o]
                     for o in y], dtype=float)


def _known_wrong(blocks, y, sim):
    """Value the two log-normal filters returned before the fix (Jacobian term log y
    halved in LogNormalFilter, absent in LogNormalKDEFilter) -- used only to label a
    violation, never to accept it."""
    tot = 0
    t0 = 0
    for kind, nt, nk in blocks:
        yy = y[..., t0:t0 + nt]
        v = rf.total(kind, yy, sim[..., t0:t0 + nt], nk)
        if kind == 'LN':
            v = v + 0.5 * np.nansum(np.log(yy))
        if kind == 'LNKDE':
            v = v + np.nansum(np.log(yy))
        tot += v
        t0 += nt
    return float(np.real(tot))


def w_filter(case):
    blocks = [tuple(b) for b in case['blocks']]
    composed = case['composed']
    y = _arr(case['y'])
    sim = np.array(case['sim'], dtype=float)
    T = y.shape[2]
    viol = []
    ntr = 0
    lab = ('Composed' if composed else '') + '+'.join(
        '%s%s' % (k, '' if k != 'GM' else nk) for k, _, nk in blocks)

    def expected(yy, ss):
        return float(np.real(rf.composed_total(blocks, yy, ss)))

    f = build_filter(blocks, y, composed)
    exp = expected(y, sim)
    # the same array object is handed to value, sensitivities and value again:
    # evaluations must not modify it nor depend on earlier evaluations
    shared = sim.copy()
    first = f.compute_log_likelihood(shared)
    f.compute_sensitivities(shared)
    again = f.compute_log_likelihood(shared)
    ntr += 3
    if not np.array_equal(shared, sim):
        viol.append({'sub': 'inputs', 'message': 'an evaluation modified the array '
                     'of simulated measurements passed in (%s)' % lab,
                     'expected': sim, 'observed': shared,
                     'behaviour': 'input_mutation'})
    if not tol.close(again, first):
        viol.append({'sub': 'repeat', 'message': 'log-likelihood differs when '
                     'evaluated again on the same array (%s)' % lab,
                     'expected': first, 'observed': again, 'behaviour': 'repeat'})
    # ... and the caller changes that array in place before evaluating again
    shared[0] *= 1.02
    e_m = expected(y, shared.copy())
    g_m = [f.compute_log_likelihood(shared), f.compute_sensitivities(shared)[0]]
    ntr += 2
    if not all(tol.close(g, e_m) for g in g_m):
        viol.append({'sub': 'inplace', 'message': 'after the simulated measurements '
                     'were changed in place the evaluation with the same array '
                     'object is not the documented density at the new values (%s)'
                     % lab, 'expected': e_m, 'observed': g_m,
                     'behaviour': 'inplace'})
    got = f.compute_log_likelihood(sim.copy())
    ntr += 1
    if not tol.close(got, exp):
        beh = 'value'
        if tol.close(got, _known_wrong(blocks, y, sim)):
            beh = 'lognormal_jacobian'
        viol.append({'sub': 'value', 'message': 'filter log-likelihood differs from '
                     'the documented density (%s)' % lab, 'expected': exp,
                     'observed': got, 'behaviour': beh})
    # sensitivities in input order
    s, sens = f.compute_sensitivities(sim.copy())
    ntr += 1
    sens = np.asarray(sens, dtype=float)
    eg = cstep.grad(lambda z: rf.composed_total(blocks, y, z), sim)
    if not tol.close(s, got):
        viol.append({'sub': 's1', 'message': 'score of compute_sensitivities differs '
                     'from compute_log_likelihood (%s)' % lab, 'expected': got,
                     'observed': s})
    # (absolute tolerance relative to the largest entry: an entry that is the
    # difference of two large terms carries their rounding error)
    scale = max(1.0, float(np.max(np.abs(eg[np.isfinite(eg)]), initial=0.0)))
    if sens.shape != sim.shape or not tol.allclose(sens, eg, 1e-7, 1e-9 * scale):
        viol.append({'sub': 'grad', 'message': 'sensitivities are not the '
                     'derivatives w.r.t. every simulated measurement in input '
                     'order (%s)' % lab, 'expected': eg, 'observed': sens,
                     'behaviour': 'grad'})
    base = got
    # padding with many all-NaN individuals, behind / in front of / between the
    # measured ones (frames of different cohort sizes stacked to one array)
    for n_pad, where in ((40, 'back'), (64, 'front'), (33, 'middle'), (100, 'back')):
        blk = np.full((n_pad,) + y.shape[1:], np.nan)
        if where == 'back':
            ybig = np.concatenate([y, blk], axis=0)
        elif where == 'front':
            ybig = np.concatenate([blk, y], axis=0)
        else:
            ybig = np.concatenate([y[:1], blk, y[1:]], axis=0)
        fb = build_filter(blocks, ybig, composed)
        g = fb.compute_log_likelihood(sim.copy())
        sb_, _ = fb.compute_sensitivities(sim.copy())
        ntr += 2
        if not tol.close(g, base) or not tol.close(sb_, base):
            viol.append({'sub': 'pad_many', 'message': 'padding the measurements '
                         'with %d all-NaN individuals (%s) changes the value (%s)'
                         % (n_pad, where, lab), 'expected': base,
                         'observed': [g, sb_], 'behaviour': 'pad'})
            break
    # padding with an all-NaN individual
    ypad = np.concatenate([y, np.full((1,) + y.shape[1:], np.nan)], axis=0)
    g = build_filter(blocks, ypad, composed).compute_log_likelihood(sim.copy())
    ntr += 1
    if not tol.close(g, base):
        viol.append({'sub': 'pad', 'message': 'padding the measurements with a '
                     'missing individual changes the value (%s)' % lab,
                     'expected': base, 'observed': g, 'behaviour': 'pad'})
    # permuting measured individuals
    for perm in itertools.permutations(range(y.shape[0])):
        if list(perm) == list(range(y.shape[0])):
            continue
        g = build_filter(blocks, y[list(perm)], composed).compute_log_likelihood(
            sim.copy())
        ntr += 1
        if not tol.close(g, base):
            viol.append({'sub': 'perm_ids', 'message': 'permuting measured '
                         'individuals changes the value (%s)' % lab,
                         'expected': base, 'observed': g, 'behaviour': 'perm_ids'})
    # time orders
    perms = [list(p) for p in itertools.permutations(range(T))]
    for o1 in perms:
        # sort_times(o1): observations are re-ordered to obs[..., o1]; simulated
        # measurements are then expected in that order
        f1 = build_filter(blocks, y, composed)
        # (the order is handed over as an index array that the caller re-uses for
        # something else afterwards)
        o_arr = np.array(o1, dtype=int)
        f1.sort_times(o_arr)
        o_arr[:] = o_arr[::-1].copy()
        o_arr += 1
        g = f1.compute_log_likelihood(sim[..., o1].copy())
        ntr += 1
        if not tol.close(g, base):
            viol.append({'sub': 'sort1', 'message': 'sort_times followed by '
                         'consistently ordered simulations changes the value (%s)'
                         % lab, 'orders': [o1], 'expected': base, 'observed': g,
                         'behaviour': 'sort1'})
        s1, se1 = f1.compute_sensitivities(sim[..., o1].copy())
        ntr += 1
        if not tol.close(s1, base) or not tol.allclose(
                np.asarray(se1, dtype=float), sens[..., o1], 1e-7, 1e-9):
            viol.append({'sub': 'sort1_grad', 'message': 'sensitivities after '
                         'sort_times are not in the ordering of the input (%s)'
                         % lab, 'orders': [o1], 'expected': sens[..., o1], 'observed': se1,
                         'behaviour': 'sort1_grad'})
        if case.get('double_sort'):
            for o2 in perms:
                f2 = build_filter(blocks, y, composed)
                f2.sort_times(o1)
                f2.sort_times(o2)
                g = f2.compute_log_likelihood(sim[..., o1][..., o2].copy())
                ntr += 1
                if not tol.close(g, base):
                    viol.append({
                        'sub': 'sort2', 'message': 'two successive sort_times '
                        'do not compose (%s)' % lab, 'orders': [o1, o2],
                        'expected': base, 'observed': g,
                        'behaviour': 'sort2_composed' if composed else 'sort2'})
        # consistent re-ordering through the data (elementary filters only: a
        # composed filter's blocks are tied to consecutive times)
        if not composed:
            g = build_filter(blocks, y[..., o1], False).compute_log_likelihood(
                sim[..., o1].copy())
            ntr += 1
            if not tol.close(g, base):
                viol.append({'sub': 'perm_times', 'message': 'reordering time '
                             'points consistently changes the value (%s)' % lab,
                             'expected': base, 'observed': g,
                             'behaviour': 'perm_times'})
    # splitting into a composed filter of the same kind equals the whole
    if not composed and T > 1 and blocks[0][0] != 'X':
        kind, _, nk = blocks[0]
        for cut in range(1, T):
            fs = chi.ComposedPopulationFilter(
                [mk(kind, y[..., :cut], nk), mk(kind, y[..., cut:], nk)])
            g = fs.compute_log_likelihood(sim.copy())
            ntr += 1
            if not tol.close(g, base):
                viol.append({'sub': 'split', 'message': 'splitting the time points '
                             'over a composed filter changes the value (%s)' % lab,
                             'expected': base, 'observed': g, 'behaviour': 'split'})
    # whole-number simulated measurements handed over as an integer array
    sim_i = np.zeros(sim.shape, dtype=int)
    for t_ in range(sim_i.shape[2]):
        for r_ in range(sim_i.shape[1]):
            # (whole numbers in the order of the original values, pairwise distinct
            # within a cell, around the cell's measurements)
            rank = np.argsort(np.argsort(sim[:, r_, t_]))
            centre = int(round(float(np.nanmean(y[:, r_, t_]))))
            sim_i[:, r_, t_] = max(1, centre - 2) + 2 * rank + (r_ + t_) % 2
    e_i = expected(y, sim_i.astype(float))
    if np.isfinite(e_i):
        g_i = f.compute_log_likelihood(sim_i.copy())
        s_i, se_i = f.compute_sensitivities(sim_i.copy())
        eg_i = cstep.grad(lambda z: rf.composed_total(blocks, y, z),
                          sim_i.astype(float))
        sc_i = max(1.0, float(np.max(np.abs(eg_i[np.isfinite(eg_i)]), initial=0.0)))
        ntr += 2
        if not tol.close(g_i, e_i) or not tol.close(s_i, e_i) or not tol.allclose(
                np.asarray(se_i, dtype=float), eg_i, 1e-7, 1e-9 * sc_i):
            viol.append({'sub': 'int_sim', 'message': 'value / sensitivities for '
                         'whole-number simulated measurements in an integer array '
                         'differ from the documented density and its derivatives '
                         '(%s)' % lab, 'expected': [e_i, eg_i],
                         'observed': [g_i, se_i], 'behaviour': 'int_sim'})
    # the filter object given to a log-posterior (unsorted times) is the caller's:
    # it keeps giving the documented value
    if T >= 2 and not case.get('no_posterior'):
        import pints
        from ..gen.toymodel import ToyModel
        n_obs_ = y.shape[1]
        pop_ = chi.GaussianModel(n_dim=2)
        prior_ = pints.ComposedLogPrior(*[pints.UniformLogPrior(0, 5)
                                          for _ in range(4)])
        times_ = [0.5 + 0.7 * k_ for k_ in range(T)][::-1]
        inside = None
        try:
            post_ = chi.PopulationFilterLogPosterior(
                f, times_, ToyModel(2, n_obs_), pop_, prior_,
                sigma=[0.3] * n_obs_, n_samples=sim.shape[0])
            after = f.compute_log_likelihood(sim.copy())
            # the filter the posterior works with expects simulated measurements
            # at the SORTED times (here: the reversed order)
            inside = post_.get_log_likelihood().compute_log_likelihood(
                sim[..., ::-1].copy())
        except Exception as e:      # construction is C13's subject
            after = got
        if inside is not None and not tol.close(inside, got):
            viol.append({'sub': 'filter_in_posterior', 'message': 'the filter inside '
                         'a log-posterior built with unsorted times does not score '
                         'simulations at the sorted times like the caller\'s filter '
                         'scores them in its own order (%s)' % lab, 'expected': got,
                         'observed': inside, 'behaviour': 'filter_in_posterior'})
        ntr += 2
        if not tol.close(after, got):
            viol.append({'sub': 'filter_kept', 'message': 'building a log-posterior '
                         'with unsorted times from a filter changed the filter the '
                         'caller holds (%s)' % lab, 'expected': got,
                         'observed': after, 'behaviour': 'filter_kept'})
    # a composition inside a composition, the inner one re-sorted before it is
    # wrapped: its remembered order travels with it
    if composed and len(blocks) >= 2:
        t_in = sum(b[1] for b in blocks[:-1])
        for o_in in itertools.permutations(range(t_in)):
            o_in = list(o_in)
            inner = build_filter(blocks[:-1], y[..., :t_in], True)
            inner.sort_times(o_in)
            last = mk(blocks[-1][0], y[..., t_in:], blocks[-1][2])
            outer = chi.ComposedPopulationFilter([inner, last])
            arg = np.concatenate([sim[..., :t_in][..., o_in], sim[..., t_in:]],
                                 axis=2)
            g = outer.compute_log_likelihood(arg.copy())
            s_n, se_n = outer.compute_sensitivities(arg.copy())
            ntr += 2
            exp_se = np.concatenate([sens[..., :t_in][..., o_in], sens[..., t_in:]],
                                    axis=2)
            if not tol.close(g, base) or not tol.close(s_n, base) or not \
                    tol.allclose(np.asarray(se_n, dtype=float), exp_se, 1e-7,
                                 1e-9 * scale):
                viol.append({'sub': 'nested', 'message': 'a composed filter holding '
                             'a re-sorted composed filter does not give the value / '
                             'sensitivities of the flat composition (%s)' % lab,
                             'orders': [o_in], 'expected': base, 'observed': g,
                             'behaviour': 'nested'})
                break
    # the same filter object evaluated with other numbers of simulated individuals
    ns0 = sim.shape[0]
    step = blocks[0][2] if any(b[0] == 'GM' for b in blocks) else 1
    for ns2 in (ns0 + step, ns0 + 2 * step):
        extra = sim[np.arange(ns2 - ns0) % ns0] * (1.07 + 0.01 * np.arange(
            ns2 - ns0))[:, None, None]
        sim2 = np.concatenate([sim, extra], axis=0)
        g = f.compute_log_likelihood(sim2.copy())
        s2_, _ = f.compute_sensitivities(sim2.copy())
        e2 = expected(y, sim2)
        g_back = f.compute_log_likelihood(sim.copy())
        ntr += 3
        if not tol.close(g, e2) or not tol.close(s2_, e2) or \
                not tol.close(g_back, got):
            viol.append({'sub': 'n_sim_history', 'message': 'the same filter '
                         'evaluated with %d and then %d simulated individuals (and '
                         'back) differs from the documented density (%s)'
                         % (ns0, ns2, lab), 'expected': [e2, got],
                         'observed': [g, g_back], 'behaviour': 'n_sim_history'})
            break
    return {'transitions': ntr, 'outcome': tol.rnd([got, sens]), 'violations': viol}


WORKERS = {'elementary': w_filter, 'composed': w_filter, 'extreme': w_filter}


def masks(n_ids, n_obs, T):
    """All NaN masks leaving at least one value per (observable, time) cell."""
    cell_opts = [m for m in itertools.product([False, True], repeat=n_ids)
                 if not all(m)]
    out = []
    for combo in itertools.product(cell_opts, repeat=n_obs * T):
        m = np.array(combo).reshape(n_obs, T, n_ids).transpose(2, 0, 1)
        out.append(m)
    return out


def make_case(blocks, composed, n_ids, n_obs, T, mask, n_sim, seed, double_sort):
    yv = np.array(vals.reals('c12.y', n_ids * n_obs * T, 0.4, 6.0, seed)
                  ).reshape(n_ids, n_obs, T)
    y = [[[None if mask[i, r, t] else float(yv[i, r, t]) for t in range(T)]
          for r in range(n_obs)] for i in range(n_ids)]
    sim = np.array(vals.reals('c12.sim%d' % n_sim, n_sim * n_obs * T, 0.5, 5.0, seed)
                   ).reshape(n_sim, n_obs, T)
    return {'blocks': [list(b) for b in blocks], 'composed': composed, 'y': y,
            'sim': sim.tolist(), 'double_sort': double_sort}


def make_extreme(blocks, composed, n_ids, n_obs, T, n_sim, seed, gap):
    """Mixed fit quality within one call: at the first time point the simulated
    values lie within 1e-3 of each other and the measurements `gap` away; the other
    time points are generic."""
    c = make_case(blocks, composed, n_ids, n_obs, T,
                  np.zeros((n_ids, n_obs, T), dtype=bool), n_sim, seed, False)
    sim = np.array(c['sim'])
    sim[:, :, 0] = 1.0 + 1e-3 * np.arange(n_sim)[:, None] * (
        1 + 0.1 * np.arange(n_obs)[None, :])
    for i in range(n_ids):
        for r in range(n_obs):
            c['y'][i][r][0] = 1.0 + gap * (1 + 0.05 * i)
    c['sim'] = sim.tolist()
    return c


def make_offset(blocks, n_ids, n_obs, T, n_sim, seed, offset, spread):
    """Values far from zero compared with their spread (|mean| / sd ~ offset /
    spread): the documented estimates are moments about the mean."""
    c = make_case(blocks, False, n_ids, n_obs, T,
                  np.zeros((n_ids, n_obs, T), dtype=bool), n_sim, seed, False)
    sim = np.array(c['sim'])
    sim = offset + spread * (sim - sim.mean()) / sim.std()
    yv = np.array(c['y'], dtype=float)
    yv = offset + spread * (yv - 3.0) / 2.0
    c['sim'] = sim.tolist()
    c['y'] = yv.tolist()
    return c


def build(tier, seed):
    if tier == 'quick':
        shapes = [(1, 1, 1), (2, 1, 1), (2, 1, 2), (1, 2, 2), (2, 2, 1), (1, 1, 3)]
    else:
        shapes = [(1, 1, 1), (2, 1, 1), (3, 1, 1), (1, 2, 1), (2, 1, 2), (1, 2, 2),
                  (2, 2, 1), (3, 1, 2), (2, 2, 2), (1, 1, 3), (2, 1, 3), (1, 2, 3)]
    kinds = [('G', 2), ('LN', 2), ('GKDE', 2), ('LNKDE', 2), ('GM', 2), ('GM', 3)]
    elem, comp = [], []
    for n_ids, n_obs, T in shapes:
        ms = masks(n_ids, n_obs, T)
        for kind, nk in kinds:
            if kind == 'GM':
                sims = [2 * nk, 3 * nk] if tier == 'thorough' else [2 * nk]
            else:
                sims = [2, 3, 4, 6] if tier == 'thorough' else [2, 3]
            for n_sim in sims:
                for mi, m in enumerate(ms):
                    elem.append(make_case(
                        [(kind, T, nk)], False, n_ids, n_obs, T, m, n_sim, seed,
                        double_sort=(mi == 0)))
        # compositions: every split of the time axis into consecutive blocks,
        # every assignment of kinds to blocks
        ckinds = [('G', 2), ('GKDE', 2), ('LN', 2), ('LNKDE', 2), ('GM', 2)]
        for cuts in itertools.product([0, 1], repeat=T - 1):
            sizes, cur = [], 1
            for c in cuts:
                if c:
                    sizes.append(cur)
                    cur = 1
                else:
                    cur += 1
            sizes.append(cur)
            for assign in itertools.product(ckinds, repeat=len(sizes)):
                blocks = [(k, nt, nk) for (k, nk), nt in zip(assign, sizes)]
                for mi, m in enumerate(ms if tier == 'thorough' or len(ms) < 10
                                       else ms[::3]):
                    comp.append(make_case(blocks, True, n_ids, n_obs, T, m, 4, seed,
                                          double_sort=(mi == 0)))
    extreme = []
    for n_ids, n_obs, T in [(1, 1, 2), (2, 1, 2), (1, 2, 2), (1, 1, 3)]:
        for kind, nk in kinds:
            for gap in (0.05, 0.5, 3.0):
                n_sim = 2 * nk if kind == 'GM' else 3
                extreme.append(make_extreme([(kind, T, nk)], False, n_ids, n_obs, T,
                                            n_sim, seed, gap))
        for k1, k2 in itertools.permutations(['GKDE', 'GM', 'LNKDE', 'G'], 2):
            if T < 2:
                continue
            extreme.append(make_extreme([(k1, 1, 2), (k2, T - 1, 2)], True, n_ids,
                                        n_obs, T, 4, seed, 0.5))
    for kind, nk in (('G', 2), ('GKDE', 2), ('GM', 2), ('GM', 3)):
        for offset, spread in ((1e3, 0.5), (1e5, 0.05), (1e6, 0.5)):
            for n_ids, n_obs, T in ((1, 1, 1), (2, 1, 2)):
                extreme.append(make_offset([(kind, T, nk)], n_ids, n_obs, T,
                                           2 * nk, seed, offset, spread))
    # measurements in small / large units: the same data times 1e-5, 1e-7, 1e4 (the
    # estimators are scale-equivariant; nothing in the documentation floors a variance)
    for kind, nk in kinds:
        for scale_ in (1e-5, 1e-7, 1e4):
            for n_ids, n_obs, T in ((2, 1, 2), (1, 2, 1)):
                c = make_case([(kind, T, nk)], False, n_ids, n_obs, T,
                              np.zeros((n_ids, n_obs, T), dtype=bool),
                              2 * nk if kind == 'GM' else 3, seed, False)
                c['sim'] = (np.array(c['sim']) * scale_).tolist()
                c['y'] = (np.array(c['y'], dtype=float) * scale_).tolist()
                extreme.append(c)
    return {
        'parts': [
            Part('extreme', extreme, w_filter,
                 'one time point with simulated values within 1e-3 and measurements '
                 'far away (tens to thousands of bandwidths), the others generic'),
            Part('elementary', elem, w_filter,
                 'filter class x shape x every admissible NaN mask x n_sim'),
            Part('composed', comp, w_filter,
                 'every split of the time axis x kind assignment'),
        ],
        'bounds': {'shapes(n_ids,n_obs,T)': shapes, 'kinds': kinds},
        'rule': 'complete enumeration of NaN masks leaving >=1 value per cell for the '
                'listed shapes; all time permutations for sort_times (pairs for the '
                'first mask of each shape); distinct = distinct (value, gradient)',
        'min_outcomes': {'elementary': 50},
        'assumptions': ['bandwidth/statistics from the simulated measurements, as '
                        'the property states'],
    }


META = {
    'technique': 'bounded exhaustive enumeration of filter classes/compositions x '
                 'array shapes x NaN masks x time orders on the real filters against '
                 'the documented estimator formulas with complex-step gradients',
    'level_text': 'All five filter classes (mixture with 2 and 3 kernels) and every '
                  'composed filter obtained by splitting the time axis, for the '
                  'listed array shapes and EVERY missing-value mask that leaves one '
                  'value per (observable, time) cell, are evaluated; value, gradient, '
                  'NaN padding, individual permutations, consistent time '
                  're-ordering, sort_times once and twice are compared with the '
                  'reference / with each other.',
    'level_note': 'Exhaustive over masks and orders within the shape bounds; generic '
                  'positive values. Reference typed from the class documentation.',
}
META['level_text'] += (
    ' Also: the order handed to sort_times as an array the caller overwrites afterw'
    'ards; the filter inside a posterior built with unsorted times.')
