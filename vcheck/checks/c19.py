"""C19 — evaluations are pure: no hidden state, no input mutation, any process.

Shape (B, schedules by reduction to histories): a *world* of objects derived from the
same user models (two sibling likelihoods built by one controller with different
regimens, their posterior, the hierarchical likelihood over them, a predictive model, a
population filter and a filter posterior; SBML models on RefSimulation and toy models).
Exhaustive search over all interleaved histories of evaluation operations (value,
pointwise values, value with sensitivities, seeded sampling, an injected solver failure,
later mutations of the USER models) up to a depth bound; after every operation the
result must equal the result of the same operation on a freshly built world and the
arrays passed in must be bit-identical. Schedules: a forked worker (real os.fork) runs
every ordered subset of <= 3 tasks after every history prefix of length <= 1 in the
parent -- processes share no memory, so this covers all multi-process schedules -- and
pints.ParallelEvaluator is compared with pints.SequentialEvaluator."""
import functools
import itertools
import os
import pickle
import warnings

import numpy as np
import pandas as pd
import pints

import chi
import chi.library

from ..core import tol
from ..core.engine import Part, key_of
from ..env import refsim
from ..gen import popbuild
from ..gen.toymodel import ToyModel
from ..ref import populations as rp

PROPERTY = 'C19'


# ------------------------------------------------------------------ the world

def _data():
    rows = []
    for _id, obs, doses in (
            ('A', [(0.5, 1.4), (1.5, 0.9), (2.5, 0.5)], [(0.0, 2.0, 0.5)]),
            ('B', [(1.0, 0.7), (2.0, 1.1)], [(0.5, 1.0, 0.1), (1.5, 3.0, 0.25)]),
            # (an individual that was never dosed)
            ('C', [(0.8, 0.9), (1.6, 0.6)], [])):
        for t, v in obs:
            rows.append({'ID': _id, 'Time': t, 'Observable': 'conc', 'Value': v,
                         'Dose': np.nan, 'Duration': np.nan})
        for t, d, dur in doses:
            rows.append({'ID': _id, 'Time': t, 'Observable': np.nan,
                         'Value': np.nan, 'Dose': d, 'Duration': dur})
    df = pd.DataFrame(rows)
    # (row labels as a cohort sliced out of a larger dataset carries them)
    df.index = [3 * i + 5 for i in range(len(df))]
    return df


class World(object):
    """User models + everything derived from them."""
    def __init__(self, pre=()):
        self.user_mech = chi.library.ModelLibrary().one_compartment_pk_model()
        self.user_mech.set_administration('central', direct=True)
        # what the user did with the model before building anything from it
        for p in pre:
            if p in ('sim0', 'sim1'):
                self.user_mech.simulate(list(POINTS['ll'][int(p[3])][:3]),
                                        [0.5, 1.5, 2.5])
            elif p == 'sensOn':
                self.user_mech.enable_sensitivities(True)
            elif p == 'sensOff':
                self.user_mech.enable_sensitivities(False)
        self.user_err = chi.GaussianErrorModel()
        # a user error model with a parameter fixed already, and two sibling
        # predictive models / a likelihood built from it
        self.user_err_red = chi.ReducedErrorModel(
            chi.ConstantAndMultiplicativeGaussianErrorModel())
        self.user_err_red.fix_parameters({'Sigma rel.': 0.2})
        self.df = _data()
        c = chi.ProblemModellingController(self.user_mech, [self.user_err])
        c.set_data(self.df, output_observable_dict={
            'central.drug_concentration': 'conc'})
        c.set_log_prior(pints.ComposedLogPrior(*[
            pints.UniformLogPrior(0, 10) for _ in range(4)]))
        self.ctrl = c
        self.obj = {}
        self.obj['postA'] = c.get_log_posterior('A')
        self.obj['postB'] = c.get_log_posterior('B')
        self.obj['llA'] = self.obj['postA'].get_log_likelihood()
        self.obj['llB'] = self.obj['postB'].get_log_likelihood()
        pop = popbuild.build(rp.Comp([rp.P(1), rp.LN(1), rp.G(1, False),
                                      rp.LN(1)]), None)
        self.obj['hier'] = chi.HierarchicalLogLikelihood(
            [self.obj['llA'], self.obj['llB']], pop)
        self.obj['pred'] = c.get_predictive_model()
        self.obj['pred'].set_dosing_regimen(2.0, start=0.2, duration=0.3)
        self.obj['priorpred'] = chi.PriorPredictiveModel(
            chi.PredictiveModel(ToyModel(2, 1), [chi.GaussianErrorModel()]),
            pints.ComposedLogPrior(*[pints.UniformLogPrior(0.5, 1.5)
                                     for _ in range(3)]))
        # an SBML-driven likelihood with one fixed mechanistic parameter
        f_mech = chi.library.ModelLibrary().one_compartment_pk_model()
        f_mech.set_administration('central', direct=True)
        f_mech.set_dosing_regimen(2.0, start=0.2, duration=0.3)
        self.obj['llF'] = chi.LogLikelihood(
            f_mech, [chi.GaussianErrorModel()], [1.4, 0.9, 0.5], [0.5, 1.5, 2.5])
        self.obj['llF'].fix_parameters({'central.size': 1.3})
        # naive-pooled analysis from one controller: the hierarchical posterior and
        # the population predictive model
        cp = chi.ProblemModellingController(ToyModel(2, 1), [chi.GaussianErrorModel()])
        cp.set_population_model(chi.PooledModel(n_dim=3))
        cp.set_data(pd.DataFrame({
            'ID': [1, 1, 2, 2], 'Time': [0.3, 1.1, 0.3, 1.1],
            'Observable': ['o0'] * 4, 'Value': [1.3, 2.1, 1.1, 2.4]}),
            output_observable_dict={'o0': 'o0'})
        cp.set_log_prior(pints.ComposedLogPrior(*[
            pints.UniformLogPrior(0, 10) for _ in range(3)]))
        self.obj['hpostP'] = cp.get_log_posterior()
        self.obj['ppredP'] = cp.get_predictive_model()
        self.obj['predR'] = chi.PredictiveModel(ToyModel(2, 1), [self.user_err_red])
        self.obj['predR2'] = chi.PredictiveModel(ToyModel(2, 1),
                                                 [self.user_err_red])
        self.obj['llR'] = chi.LogLikelihood(
            ToyModel(2, 1), [self.user_err_red], [1.2, 0.7], [0.5, 1.5])
        # toy family: filter posterior
        y = np.array([[[1.0, 2.0, 1.5]], [[1.4, 2.6, 1.1]]])
        self.obj['filter'] = chi.GaussianKDEFilter(y)
        self.obj['filterG'] = chi.GaussianFilter(y)
        self.obj['filterLN'] = chi.LogNormalFilter(y)
        self.obj['filterLNKDE'] = chi.LogNormalKDEFilter(y)
        self.obj['filterGM'] = chi.GaussianMixtureFilter(y, n_kernels=2)
        self.obj['filterC'] = chi.ComposedPopulationFilter([
            chi.GaussianMixtureFilter(y[..., :2], n_kernels=2),
            chi.GaussianFilter(y[..., 2:])])
        fpop = popbuild.build(rp.Comp([rp.LN(1), rp.P(1)]), None)
        self.obj['fpost'] = chi.PopulationFilterLogPosterior(
            chi.GaussianFilter(y), [0.5, 2.0, 1.0], ToyModel(2, 1), fpop,
            pints.ComposedLogPrior(*[pints.UniformLogPrior(0, 5)
                                     for _ in range(3)]),
            sigma=[0.3], n_samples=3)


POINTS = {
    'll': [np.array([0.3, 1.4, 0.8, 0.5]), np.array([0.1, 0.9, 1.3, 0.7])],
    # bottom: (size, eta of k_e, sigma) per individual; top: pooled amount,
    # (log mean, log std) of size, (mean, std) of k_e, (log mean, log std) of sigma
    'hier': [np.array([1.2, 0.3, 0.5, 0.9, -0.2, 0.7,
                       0.3, 0.1, 0.4, 0.8, 0.3, -0.5, 0.3]),
             np.array([0.7, -0.4, 0.9, 1.3, 0.2, 0.4,
                       0.1, 0.2, 0.5, 0.9, 0.2, -0.7, 0.4])],
    'llR': [np.array([1.1, 0.6, 0.4]), np.array([0.8, 0.9, 0.3])],
    'llF': [np.array([0.3, 0.8, 0.5]), np.array([0.2, 1.1, 0.7])],
    'hpostP': [np.array([1.1, 0.7, 0.4]), np.array([0.9, 0.5, 0.6])],
    'filter': [np.array([[[1.2, 2.2, 1.0]], [[0.8, 1.9, 1.6]], [[1.5, 2.8, 1.2]],
                         [[1.1, 2.5, 1.4]]]),
               np.array([[[0.9, 2.4, 1.3]], [[1.1, 2.0, 0.9]], [[1.6, 3.1, 1.5]],
                         [[1.3, 2.7, 1.0]]]),
               # another number of simulated individuals
               np.array([[[1.0, 2.1, 1.2]], [[0.7, 2.6, 0.8]], [[1.4, 1.8, 1.7]],
                         [[1.2, 2.3, 1.1]], [[0.9, 2.9, 1.4]], [[1.6, 2.0, 0.9]]])],
    'fpost': [np.array([0.2, 0.5, 1.1, 1.2, 0.9, 1.6, 0.1, -0.3, 0.4, 0.2, -0.1,
                        0.5, -0.4, 0.3, 0.0]),
              np.array([0.4, 0.3, 0.8, 1.0, 1.5, 0.7, -0.2, 0.1, 0.3, -0.5, 0.6,
                        0.2, 0.1, -0.3, 0.4])],
}


class ModelWorld(object):
    """Models (not log-pdfs): population, error and mechanistic models, plain and
    with fixed parameters. Operation points are (parameters, data) pairs."""
    def __init__(self):
        o = {}
        o['popP'] = chi.ReducedPopulationModel(chi.PooledModel(n_dim=2))
        o['popP'].fix_parameters({'Pooled Dim. 1': 1.0})
        comp = chi.ComposedPopulationModel([
            chi.PooledModel(), chi.GaussianModel(),
            chi.HeterogeneousModel(n_ids=2)])
        o['popR'] = chi.ReducedPopulationModel(comp)
        o['popR'].fix_parameters({'Std. Dim. 1': 0.7})
        o['pop'] = chi.ComposedPopulationModel([
            chi.PooledModel(), chi.LogNormalModel(),
            chi.GaussianModel(centered=False)])
        o['popH'] = chi.HeterogeneousModel(n_dim=2, n_ids=2)
        o['popTG'] = chi.TruncatedGaussianModel(n_dim=2)
        o['popTGR'] = chi.ReducedPopulationModel(chi.TruncatedGaussianModel(n_dim=2))
        o['popTGR'].fix_parameters({'Sigma Dim. 2': 0.6})
        o['errR'] = chi.ReducedErrorModel(
            chi.ConstantAndMultiplicativeGaussianErrorModel())
        o['errR'].fix_parameters({'Sigma base': 0.3})
        o['err'] = chi.LogNormalErrorModel()
        m = chi.library.ModelLibrary().one_compartment_pk_model()
        m.set_administration('central')
        m.set_dosing_regimen(1.5, start=0.3, duration=0.4)
        o['mechR'] = chi.ReducedMechanisticModel(m)
        o['mechR'].fix_parameters({'central.size': 1.3})
        o['mechT'] = chi.ReducedMechanisticModel(ToyModel(3, 2))
        o['mechT'].fix_parameters({'p1': 0.8})
        # a covariate population model evaluated through ONE covariate array that
        # the caller refills before every call
        o['popCov'] = chi.CovariatePopulationModel(
            chi.GaussianModel(), chi.LinearCovariateModel(n_cov=1))
        self.cov_buf = np.zeros((2, 1))
        self.obj = o


MODEL_POINTS = {
    # population models: (top parameters, (n_ids, n_dim) individual values)
    'popP': [([2.0], [[1.0, 2.0], [1.0, 2.0]]), ([7.0], [[1.0, 7.0], [1.0, 7.0]])],
    'popR': [([1.5, 0.9, 0.4, 1.1], [[1.5, 0.6, 0.4], [1.5, 1.3, 1.1]]),
             ([0.8, 1.4, 0.9, 0.2], [[0.8, 1.9, 0.9], [0.8, 0.7, 0.2]])],
    'pop': [([1.5, 0.2, 0.5, 0.9, 0.6], [[1.5, 1.1, 0.3], [1.5, 0.8, -0.4]]),
            ([0.7, -0.1, 0.8, 1.4, 0.3], [[0.7, 1.6, -0.2], [0.7, 0.5, 0.9]])],
    'popTG': [([1.0, 0.7, 0.5, 0.6], [[1.1, 0.4], [0.6, 0.9]]),
              ([0.4, 1.2, 0.8, 0.3], [[0.3, 1.0], [0.9, 1.4]])],
    'popTGR': [([1.0, 0.7, 0.5], [[1.1, 0.4], [0.6, 0.9]]),
               ([0.4, 1.2, 0.8], [[0.3, 1.0], [0.9, 1.4]])],
    # (equal parameters, other covariates)
    'popCov': [([1.0, 0.5, 0.3, 0.2], [[1.2], [0.9]], [[0.4], [1.1]]),
               ([1.0, 0.5, 0.3, 0.2], [[1.2], [0.9]], [[2.0], [0.1]])],
    'popH': [([1.0, 2.0, 3.0, 4.0], [[1.0, 2.0], [3.0, 4.0]]),
             ([0.5, 0.6, 0.7, 0.8], [[0.5, 0.6], [0.7, 0.8]])],
    # error models: (parameters, model output, observations)
    'errR': [([0.15], [1.3, 2.1, 0.8], [1.1, 2.6, 0.9]),
             ([0.4], [0.7, 1.9, 1.2], [0.9, 1.4, 1.5])],
    'err': [([0.3], [1.3, 2.1, 0.8], [1.1, 2.6, 0.9]),
            ([0.6], [0.7, 1.9, 1.2], [0.9, 1.4, 1.5])],
    # mechanistic models: (parameters, times)
    'mechR': [([0.9, 0.6], [0.2, 1.0, 1.7]), ([1.4, 0.3], [0.5, 0.6, 2.0])],
    'mechT': [([0.9, 0.6], [0.2, 1.0, 1.7]), ([1.4, 0.3], [0.5, 0.6, 2.0])],
}


ERR_KINDS = {'G': 'GaussianErrorModel', 'M': 'MultiplicativeGaussianErrorModel',
             'CM': 'ConstantAndMultiplicativeGaussianErrorModel',
             'LN': 'LogNormalErrorModel'}


class ErrWorld(object):
    """For every error model kind: the user's error model, and a likelihood, a
    predictive model and a controller (with data and prior) built from it."""
    def __init__(self):
        self.user, self.obj = {}, {}
        df = pd.DataFrame({'ID': [1] * 3, 'Time': [0.3, 1.1, 1.9],
                           'Observable': ['o0'] * 3, 'Value': [1.3, 2.1, 0.9]})
        self.lists, self.sib = {}, {}
        for code, cls in ERR_KINDS.items():
            em = getattr(chi, cls)()
            self.user[code] = em
            # ONE list object of the user's serves every object built from the model
            # (and a sibling likelihood that is reconfigured later)
            ems = [em]
            self.lists[code] = ems
            self.obj['ll' + code] = chi.LogLikelihood(
                ToyModel(2, 1), ems, [1.3, 2.1, 0.9], [0.3, 1.1, 1.9])
            self.sib[code] = chi.LogLikelihood(
                ToyModel(2, 1), ems, [1.1, 2.0], [0.4, 1.5])
            self.obj['pred' + code] = chi.PredictiveModel(ToyModel(2, 1), ems)
            c = chi.ProblemModellingController(ToyModel(2, 1), ems)
            c.set_data(df, output_observable_dict={'o0': 'o0'})
            c.set_log_prior(pints.ComposedLogPrior(*[
                pints.UniformLogPrior(0, 10)
                for _ in range(c.get_n_parameters())]))
            self.obj['ctrl' + code] = c
        # ... and from a user mechanistic model that already has a fixed parameter
        # (Gaussian noise): likelihood, predictive model, controller
        um = chi.ReducedMechanisticModel(ToyModel(3, 1))
        um.fix_parameters({'p1': 0.8})
        self.user['R'] = um
        self.obj['llR'] = chi.LogLikelihood(
            um, [chi.GaussianErrorModel()], [1.3, 2.1, 0.9], [0.3, 1.1, 1.9])
        self.obj['predR'] = chi.PredictiveModel(um, [chi.GaussianErrorModel()])
        c = chi.ProblemModellingController(um, [chi.GaussianErrorModel()])
        c.set_data(df, output_observable_dict={'o0': 'o0'})
        c.set_log_prior(pints.ComposedLogPrior(*[
            pints.UniformLogPrior(0, 10) for _ in range(c.get_n_parameters())]))
        self.obj['ctrlR'] = c
        # one posterior predictive model asked for several individuals in turn
        import xarray as xr
        arr = lambda off: off + 0.01 * np.arange(12).reshape(2, 3, 2)  # noqa: E731
        ds = xr.Dataset(
            {'p0': (('chain', 'draw', 'individual'), arr(1.0) * [[[1.0, 40.0]]]),
             'p1': (('chain', 'draw', 'individual'), arr(0.5)),
             'Sigma': (('chain', 'draw', 'individual'), arr(0.2))},
            coords={'chain': [0, 1], 'draw': [0, 1, 2], 'individual': ['a', 'b']})
        self.obj['ppm'] = chi.PosteriorPredictiveModel(
            chi.PredictiveModel(ToyModel(2, 1), [chi.GaussianErrorModel()]), ds)


ERR_POINTS = [np.array([0.9, 0.6, 0.4, 0.25]), np.array([1.3, 0.4, 0.7, 0.15])]


def err_ops():
    ops = []
    for code in list(ERR_KINDS) + ['R']:
        for k in (0, 1):
            ops.append(['x_call', 'll' + code, k])
            ops.append(['x_S1', 'll' + code, k])
        ops.append(['x_pw', 'll' + code, 0])
        ops.append(['x_sample', 'pred' + code, 3])
        ops.append(['x_names', 'ctrl' + code, 0])
        ops.append(['x_getpost', 'ctrl' + code, 1])
        ops.append(['mut_xren', code, 0])
        if code != 'R':
            ops.append(['mut_xsib', code, 0])
    for who in ('a', 'b'):
        ops.append(['x_pp', 'ppm:' + who, 3])
    return ops


def apply_err(world, op):
    kind, name, k = op
    if kind == 'mut_xren' and name == 'R':
        # the user re-fixes the fixed parameter of their own mechanistic model at
        # another value (and fixes another one on top)
        world.user['R'].fix_parameters({'p1': 1.9})
        world.user['R'].fix_parameters({'p0': 0.4})
        return ['mutated'], True
    if kind == 'mut_xsib':
        # a sibling likelihood built from the same list of error models gets its
        # last noise parameter fixed, and the user empties their list afterwards
        sib = world.sib[name]
        sib.fix_parameters({sib.get_parameter_names()[-1]: 0.33})
        return ['mutated'], True
    if kind == 'mut_xren':
        # the user renames the parameters of their own error model
        em = world.user[name]
        em.set_parameter_names(['user name %d' % i
                                for i in range(em.n_parameters())])
        return ['mutated'], True
    if kind == 'x_pp':
        df = world.obj['ppm'].sample([0.4, 1.2], n_samples=2,
                                     individual=name.split(':')[1], seed=k)
        return [df['Value'].to_numpy(dtype=float)], True
    o = world.obj[name]
    if kind == 'x_names':
        names = list(o.get_parameter_names())
        pm = o.get_predictive_model()
        return [' | '.join(names), ' | '.join(pm.get_parameter_names())], True
    if kind == 'x_getpost':
        post = o.get_log_posterior()
        x = ERR_POINTS[k][:post.n_parameters()].copy()
        return [post(x), ' | '.join(post.get_parameter_names())], True
    if kind == 'x_sample':
        theta = ERR_POINTS[0][:o.n_parameters()].copy()
        th0 = theta.copy()
        r = o.sample(theta, [0.4, 1.2], n_samples=2, seed=k, return_df=False)
        return [r, ' | '.join(o.get_parameter_names())], np.array_equal(theta, th0)
    x = ERR_POINTS[k][:o.n_parameters()].copy()
    x0 = x.copy()
    if kind == 'x_call':
        r = [o(x)]
    elif kind == 'x_S1':
        s_, g = o.evaluateS1(x)
        r = [s_, np.asarray(g, dtype=float)]
    elif kind == 'x_pw':
        r = [o.compute_pointwise_ll(x)]
    else:
        raise ValueError(kind)
    intact = True
    if name[2:] in getattr(world, 'lists', {}):
        # (the list of error models handed over still holds the user's model)
        lst = world.lists[name[2:]]
        intact = len(lst) == 1 and lst[0] is world.user[name[2:]]
    return r + [' | '.join(o.get_parameter_names())], \
        np.array_equal(x, x0) and intact


def model_ops():
    ops = []
    for name in MODEL_POINTS:
        for k in (0, 1):
            if name == 'popCov':
                kinds = ('m_ll', 'm_sens', 'm_psi')
            elif name.startswith('pop'):
                kinds = ('m_ll', 'm_sens', 'm_psi', 'm_sample')
            elif name.startswith('err'):
                kinds = ('e_ll', 'e_pw', 'e_sens', 'e_sample')
            else:
                kinds = ('sim', 'simS', 'simC')
            for kind in kinds:
                ops.append([kind, name, k])
    return ops


def apply_model(world, op):
    kind, name, k = op
    o = world.obj[name]
    args = [np.array(a, dtype=float) for a in MODEL_POINTS[name][k]]
    before = [a.copy() for a in args]
    if name == 'popCov':
        world.cov_buf[...] = args[2]
        kw = {'covariates': world.cov_buf}
        if kind == 'm_ll':
            r = [o.compute_log_likelihood(args[0], args[1], **kw)]
        elif kind == 'm_sens':
            r = list(o.compute_sensitivities(args[0], args[1], **kw))
        else:
            r = [o.compute_individual_parameters(args[0], args[1], **kw)]
        return r, all(np.array_equal(a, b) for a, b in zip(args, before)) and \
            np.array_equal(world.cov_buf, args[2])
    if kind == 'm_ll':
        r = [o.compute_log_likelihood(args[0], args[1])]
    elif kind == 'm_sens':
        c = np.full(args[1].shape, 0.3)
        r = list(o.compute_sensitivities(args[0], args[1], dlogp_dpsi=c))
        if not np.array_equal(c, np.full(args[1].shape, 0.3)):
            before.append(None)     # marks a modified input
            args.append(0)
    elif kind == 'm_psi':
        r = [o.compute_individual_parameters(args[0], args[1])]
    elif kind == 'm_sample':
        # (integer seeds 0 and 3: a falsy seed is a seed)
        r = [o.sample(args[0], n_samples=2, seed=0 if k == 0 else 3)]
    elif kind == 'e_ll':
        r = [o.compute_log_likelihood(args[0], args[1], args[2])]
    elif kind == 'e_pw':
        r = [o.compute_pointwise_ll(args[0], args[1], args[2])]
    elif kind == 'e_sens':
        S = np.array([[0.3, -0.2], [0.5, 0.1], [-0.4, 0.7]])
        r = list(o.compute_sensitivities(args[0], args[1], S, args[2]))
    elif kind == 'e_sample':
        r = [o.sample(args[0], args[1], n_samples=2, seed=0 if k == 0 else 3)]
    elif kind == 'sim':
        o.enable_sensitivities(False)
        r = [o.simulate(args[0], args[1])]
    elif kind == 'simS':
        o.enable_sensitivities(True)
        r = list(o.simulate(args[0], args[1]))
    elif kind == 'simC':
        # a copy taken now (copying resets the sensitivities) simulates like the
        # original without sensitivities
        r = o.copy().simulate(args[0], args[1])
        r = [r[0] if isinstance(r, tuple) else r]
    else:
        raise ValueError(kind)
    clean = all(b is not None and np.array_equal(a, b)
                for a, b in zip(args, before))
    return r, clean


MODEL_KINDS = ('m_ll', 'm_sens', 'm_psi', 'm_sample', 'e_ll', 'e_pw', 'e_sens',
               'e_sample', 'sim', 'simS', 'simC')


def ptype(name):
    if name.startswith('filter'):
        return 'filter'
    return {'llA': 'll', 'llB': 'll', 'postA': 'll', 'postB': 'll', 'hier': 'hier',
            'fpost': 'fpost', 'llR': 'llR', 'llF': 'llF', 'hpostP': 'hpostP'}[name]


def all_ops():
    ops = []
    for name in ('llA', 'llB', 'postA', 'hier', 'fpost'):
        for k in (0, 1):
            ops.append(['call', name, k])
            ops.append(['S1', name, k])
    for name in ('llA', 'llB'):
        ops.append(['pw', name, 0])
        ops.append(['fail', name, 0])
    for k in (0, 1, 2):
        ops.append(['fll', 'filter', k])
        ops.append(['fS1', 'filter', k])
    for name in ('filterG', 'filterLN', 'filterLNKDE', 'filterGM', 'filterC'):
        ops.append(['fll', name, 0])
        ops.append(['fS1', name, 0])
        ops.append(['fll', name, 2])
    ops.append(['sample', 'pred', 3])
    ops.append(['sample', 'pred', 4])
    # tables with the dosing regimen, and the regimen table on its own
    ops.append(['sampledf', 'pred', 3])
    ops.append(['regdf', 'pred', 0])
    # posteriors taken from the controller NOW (dosed and never-dosed individuals)
    for who in ('A', 'B', 'C'):
        ops.append(['getpost', 'ctrl:' + who, 0])
    # a filter posterior built NOW from the user's filter (unsorted times)
    for name in ('filterG', 'filter', 'filterC'):
        ops.append(['mkpost', name, 0])
    ops.append(['init', 'postA', 3])
    ops.append(['sampleR', 'predR', 3])
    ops.append(['sampleR', 'predR2', 3])
    ops.append(['call', 'llR', 0])
    ops.append(['S1', 'llR', 1])
    for k in (0, 1):
        ops.append(['call', 'llF', k])
        ops.append(['S1', 'llF', k])
    for k in (0, 1):
        ops.append(['call', 'hpostP', k])
        ops.append(['S1', 'hpostP', k])
    for ns in (1, 3):
        ops.append(['sampleP', 'ppredP', ns])
    ops.append(['psample', 'priorpred', 0])
    ops.append(['psample', 'priorpred', 4])
    for m in ('mut_outputs', 'mut_regimen', 'mut_adm', 'mut_sens', 'mut_names',
              'mut_err', 'mut_err_refix', 'mut_sib_refix', 'mut_swap_llF'):
        ops.append([m, 'user', 0])
    return ops


def apply(world, op):
    """Executes one operation; returns (result, inputs_unchanged)."""
    kind, name, k = op
    if isinstance(world, ErrWorld):
        return apply_err(world, op)
    if kind in MODEL_KINDS:
        return apply_model(world, op)
    if kind.startswith('mut_'):
        m = world.user_mech
        if kind == 'mut_outputs':
            m.set_outputs(['central.drug_amount'])
        elif kind == 'mut_regimen':
            m.set_dosing_regimen(9.0, start=0.1, duration=0.2)
        elif kind == 'mut_adm':
            m.set_administration('central', direct=False)
        elif kind == 'mut_sens':
            m.enable_sensitivities(True)
        elif kind == 'mut_names':
            try:
                m.set_parameter_names({'global.elimination_rate': 'K'})
            except ValueError:
                pass      # renamed before: chi refuses an existing name
        elif kind == 'mut_err':
            world.user_err.set_parameter_names(['S'])
        elif kind == 'mut_err_refix':
            # the user re-fixes the parameter of their own reduced error model
            world.user_err_red.fix_parameters({'Sigma rel.': 0.9})
        elif kind == 'mut_swap_llF':
            # one call frees the fixed parameter and fixes another one (same number
            # of fixed parameters before and after); a reconfiguration of llF itself
            world.obj['llF'].fix_parameters({
                'central.size': None, 'global.elimination_rate': 0.8})
            return ['mutated'], True
        elif kind == 'mut_sib_refix':
            # ... or fixes it on a sibling predictive model built from it
            world.obj['predR2'].fix_parameters({'Sigma rel.': 0.7})
            return ['mutated'], True
        return ['mutated'], True
    if kind == 'getpost':
        post = world.ctrl.get_log_posterior(name.split(':')[1])
        x = POINTS['ll'][k].copy()
        return [post(x), post.get_log_likelihood()(x)], True
    o = world.obj[name]
    if kind == 'mkpost':
        fpop = popbuild.build(rp.Comp([rp.LN(1), rp.P(1)]), None)
        fp = chi.PopulationFilterLogPosterior(
            o, [0.5, 2.0, 1.0], ToyModel(2, 1), fpop,
            pints.ComposedLogPrior(*[pints.UniformLogPrior(0, 5)
                                     for _ in range(3)]),
            sigma=[0.3], n_samples=4)
        n_ = fp.n_parameters()
        x = np.array([0.2, 0.5, 1.1, 1.2, 0.9, 1.6, 1.3] + [
            0.1 * ((7 * i_) % 9 - 4) for i_ in range(n_ - 7)])
        return [fp(x), fp.evaluateS1(x)[0]], True
    if kind == 'sampledf':
        theta = np.array([0.1, 1.3, 0.9, 0.2])
        df = o.sample(theta, [2.0, 0.5, 1.2], n_samples=3, seed=k,
                      include_regimen=True)
        num = df[[c_ for c_ in df.columns if c_ != 'Observable']]
        return [num.to_numpy(dtype=float), ' | '.join(df.columns)], True
    if kind == 'regdf':
        df = o.get_dosing_regimen(final_time=2.0)   # (the last sampling time)
        return [df.to_numpy(dtype=float), ' | '.join(df.columns)], True
    if kind == 'sample':
        theta = np.array([0.1, 1.3, 0.9, 0.2])
        times = np.array([2.0, 0.5, 1.2])
        t0, th0 = times.copy(), theta.copy()
        r = o.sample(theta, times, n_samples=2, seed=k, return_df=False)
        return [r], np.array_equal(times, t0) and np.array_equal(theta, th0)
    if kind == 'sampleP':
        # k virtual patients (another number than the individuals in the data)
        times = np.array([2.0, 0.5, 1.2])
        r = o.sample(np.array([1.1, 0.7, 0.4]), times, n_samples=k, seed=3,
                     return_df=False)
        return [r], True
    if kind == 'psample':
        times = np.array([2.0, 0.5, 1.2])
        df = o.sample(times, n_samples=2, seed=k)
        return [df['Value'].to_numpy(dtype=float)], True
    if kind == 'sampleR':
        theta = np.array([0.9, 1.3, 0.4])
        times = np.array([2.0, 0.5, 1.2])
        r = o.sample(theta[:o.n_parameters()], times, n_samples=2, seed=k,
                     return_df=False)
        return [r], True
    if kind == 'init':
        return [o.sample_initial_parameters(n_samples=2, seed=k)], True
    x = POINTS[ptype(name)][k].copy()
    x0 = x.copy()
    if kind == 'call':
        r = [o(x)]
    elif kind == 'S1':
        s, g = o.evaluateS1(x)
        r = [s, np.asarray(g, dtype=float)]
    elif kind == 'pw':
        r = [o.compute_pointwise_ll(x)]
    elif kind == 'fll':
        r = [o.compute_log_likelihood(x)]
    elif kind == 'fS1':
        s, g = o.compute_sensitivities(x)
        r = [s, np.asarray(g, dtype=float)]
    elif kind == 'fail':
        refsim.Counters.fail_runs = {refsim.Counters.runs}
        with warnings.catch_warnings(record=True):
            warnings.simplefilter('always')
            r = [o(x)]
        refsim.Counters.fail_runs = set()
    else:
        raise ValueError(kind)
    return r, np.array_equal(x, x0)


@functools.lru_cache(maxsize=None)
def reference(op_key, own=()):
    """Result of the operation on a freshly built world (`own`: reconfigurations
    of the evaluated object itself that happened before, replayed first)."""
    op = list(op_key)
    w = ModelWorld() if op[0] in MODEL_KINDS else (
        ErrWorld() if op[0].startswith('x_') else World())
    for o in own:
        apply(w, list(o))
    r, _ = apply(w, op)
    return r


def same(a, b):
    if len(a) != len(b):
        return False
    for x, y in zip(a, b):
        if isinstance(x, str) or isinstance(y, str):
            if x != y:
                return False
            continue
        x, y = np.asarray(x, dtype=float), np.asarray(y, dtype=float)
        if x.shape != y.shape or not tol.allclose(x, y, 1e-9, 1e-11):
            return False
    return True


def _snapshot(r):
    return [x if isinstance(x, str) else np.array(x, dtype=float, copy=True)
            for x in r]


def _bitwise(a, b):
    if len(a) != len(b):
        return False
    for x, y in zip(a, b):
        if isinstance(x, str) or isinstance(y, str):
            if x != y:
                return False
            continue
        if not np.array_equal(np.asarray(x, dtype=float), np.asarray(y, dtype=float),
                              equal_nan=True):
            return False
    return True


def check_history(world, history, viol, where='same process'):
    retained = []       # (step, result object as returned, snapshot taken then)
    first_seen = {}     # operation -> (step, snapshot): repeats are bit-identical
    for i, op in enumerate(history):
        got, clean = apply(world, op)
        if op[0].startswith('mut_'):
            # (a reconfiguration in between: repeats are compared from here on)
            first_seen = {}
            continue
        key_ = tuple(op)
        if op[0] != 'fail':
            if key_ in first_seen and not _bitwise(got, first_seen[key_][1]):
                viol.append({
                    'sub': 'repeat_bits', 'message': 'operation %s on %s repeated '
                    'in one history does not return the identical result (%s)'
                    % (op[0], op[1], where), 'history': history, 'step': i,
                    'expected': first_seen[key_][1], 'observed': _snapshot(got),
                    'behaviour': 'repeat_bits:%s:%s' % (op[0], op[1])})
                return False
            first_seen.setdefault(key_, (i, _snapshot(got)))
        # results handed out earlier must not change under later evaluations
        for j, r_old, snap in retained:
            if not same(r_old, snap):
                viol.append({
                    'sub': 'retained', 'message': 'the result returned by %s on %s '
                    'changed when %s was evaluated on %s afterwards (%s)'
                    % (history[j][0], history[j][1], op[0], op[1], where),
                    'history': history, 'step': i, 'expected': snap,
                    'observed': _snapshot(r_old),
                    'behaviour': 'retained:%s:%s' % (history[j][0], history[j][1])})
                return False
        retained.append((i, got, _snapshot(got)))
        own = ()
        if op[1] == 'predR2' and any(h[0] == 'mut_sib_refix' for h in history[:i]):
            own = (('mut_sib_refix', 'user', 0),)
        if op[1] == 'llF' and any(h[0] == 'mut_swap_llF' for h in history[:i]):
            own = (('mut_swap_llF', 'user', 0),)
        exp = reference(tuple(op), own)
        if op[0] == 'fail':
            exp = [-np.inf]
        if not clean:
            viol.append({'sub': 'inputs', 'message': 'an evaluation modified the '
                         'array passed in (%s)' % op[:2], 'history': history,
                         'expected': 'unchanged', 'observed': 'changed',
                         'behaviour': 'input_mutation'})
        if not same(got, exp):
            viol.append({
                'sub': 'impure', 'message': 'operation %s on %s gives a different '
                'result after other evaluations / user-model changes than on a '
                'freshly built object (%s)' % (op[0], op[1], where),
                'history': history, 'step': i, 'expected': exp, 'observed': got,
                'behaviour': 'impure:%s:%s' % (op[0], op[1])})
            return False
    return True


def w_history(case):
    viol = []
    refsim.Counters.reset()
    if case.get('world') in ('models', 'errors'):
        check_history(ModelWorld() if case['world'] == 'models' else ErrWorld(),
                      case['ops'], viol)
        return {'transitions': len(case['ops']) + 1,
                'outcome': key_of(case['ops']), 'violations': viol}
    w = World(tuple(case.get('pre', ())))
    # (compared with a frame built afresh: the world's frame was handed to the
    # controller when the world was built)
    df0 = _data()
    check_history(w, case['ops'], viol)
    if not df0.equals(w.df):
        viol.append({'sub': 'frame', 'message': 'the data frame given to the '
                     'controller was modified', 'expected': 'unchanged',
                     'observed': 'changed', 'behaviour': 'frame_mutated'})
    return {'transitions': len(case['ops']) + 1, 'outcome': key_of(case['ops']),
            'violations': viol}


def w_fork(case):
    """Prefix in the parent, then an ordered subset of tasks in a forked worker."""
    viol = []
    refsim.Counters.reset()
    w = World()
    check_history(w, case['prefix'], viol)
    # make sure the references exist before forking (children cannot share caches)
    for op in case['tasks'] + case['prefix']:
        if not op[0].startswith('mut_'):
            reference(tuple(op))
    r_fd, w_fd = os.pipe()
    pid = os.fork()
    if pid == 0:
        try:
            os.close(r_fd)
            v = []
            check_history(w, case['tasks'], v, 'forked worker')
            with os.fdopen(w_fd, 'wb') as f:
                pickle.dump([{k: (x if isinstance(x, (str, int, float, list))
                                  else repr(x)) for k, x in d.items()}
                             for d in v], f)
        finally:
            os._exit(0)
    os.close(w_fd)
    with os.fdopen(r_fd, 'rb') as f:
        child_viol = pickle.load(f)
    os.waitpid(pid, 0)
    viol += child_viol
    # the parent is unaffected by what the child did
    check_history(w, case['tasks'][:1], viol, 'parent after fork')
    return {'transitions': len(case['prefix']) + len(case['tasks']) + 2,
            'outcome': key_of(case), 'violations': viol}


def w_evaluators(case):
    """pints.ParallelEvaluator versus pints.SequentialEvaluator."""
    viol = []
    refsim.Counters.reset()
    w = World()
    o = w.obj[case['obj']]
    pts = [POINTS[ptype(case['obj'])][k] for k in case['order']]
    seq = pints.SequentialEvaluator(o).evaluate(pts)
    par = pints.ParallelEvaluator(o, n_workers=case['n_workers']).evaluate(pts)
    if not tol.allclose(np.asarray(seq, dtype=float), np.asarray(par, dtype=float),
                        1e-10, 1e-12):
        viol.append({'sub': 'evaluators', 'message': 'parallel (multi-process) '
                     'evaluation differs from sequential evaluation (%s)'
                     % case['obj'], 'expected': seq, 'observed': par,
                     'behaviour': 'parallel_differs'})
    exp = [reference(('call', case['obj'], k))[0] for k in case['order']]
    if not tol.allclose(np.asarray(seq, dtype=float), np.asarray(exp, dtype=float),
                        1e-10, 1e-12):
        viol.append({'sub': 'seq', 'message': 'sequential evaluation differs from '
                     'fresh evaluations', 'expected': exp, 'observed': seq,
                     'behaviour': 'sequential_differs'})
    return {'transitions': 2 * len(pts), 'outcome': key_of([case, tol.rnd(seq)]),
            'violations': viol}


WORKERS = {'histories': w_history, 'fork': w_fork, 'evaluators': w_evaluators,
           'models': w_history, 'error_kinds': w_history}


def build(tier, seed):
    ops = all_ops()
    evals = [o for o in ops if not o[0].startswith('mut_')]
    muts = [o for o in ops if o[0].startswith('mut_')]
    hist = []
    # depth 1 and 2: all ordered pairs (second op must be an evaluation)
    for a in ops:
        hist.append({'ops': [a]})
    for a in ops:
        for b in evals:
            hist.append({'ops': [a, b]})
    if tier == 'thorough':
        # depth 3 on the SBML likelihood family (the objects sharing user models)
        fam = [o for o in ops if o[1] in ('llA', 'llB', 'postA', 'hier', 'pred',
                                          'user')]
        fam_e = [o for o in fam if not o[0].startswith('mut_')]
        for a in fam:
            for b in fam:
                for c in fam_e:
                    hist.append({'ops': [a, b, c]})
    else:
        # depth 3: evaluation, S1 / failure / mutation, evaluation on a sibling
        mids = [o for o in ops if o[0] in ('S1', 'fail') or o[0].startswith('mut_')]
        ll_ops = [o for o in evals if o[1] in ('llA', 'llB', 'hier')]
        for a in ll_ops[::2]:
            for b in mids[::2]:
                for c in ll_ops[1::2]:
                    hist.append({'ops': [a, b, c]})
    # the same evaluation before and after another one (bit-identical repeats): every
    # evaluation of the objects around numerically integrated models, every other
    # evaluation of that family in between
    fam_r = [o for o in evals if o[1] in ('llA', 'llB', 'postA', 'hier', 'llF',
                                          'pred') or o[1].startswith('ctrl:')]
    for a in fam_r:
        for b in fam_r:
            if a != b:
                hist.append({'ops': [a, b, a]})
    # an object reconfigured between two of its own evaluations
    for own_mut, name in (('mut_swap_llF', 'llF'), ('mut_sib_refix', 'predR2')):
        own_ops = [o for o in evals if o[1] == name]
        for a in own_ops:
            for c in own_ops:
                hist.append({'ops': [a, [own_mut, 'user', 0], c]})
                hist.append({'ops': [a, [own_mut, 'user', 0], c, a]})
    # the user model was used before anything was built from it
    sbml_e = [o for o in evals if o[1] in ('llA', 'llB', 'postA', 'hier', 'pred')]
    for pre in (['sim0'], ['sim1'], ['sim0', 'sensOn'], ['sensOn', 'sim1'],
                ['sim1', 'sensOn', 'sensOff']):
        for a in sbml_e:
            hist.append({'pre': pre, 'ops': [a]})
            for b in (sbml_e if tier == 'thorough' else sbml_e[::3]):
                hist.append({'pre': pre, 'ops': [a, b]})
    # models: all ordered pairs over all models, all triples within one model
    mops = model_ops()
    mh = [{'world': 'models', 'ops': [a]} for a in mops]
    for a in mops:
        for b in mops:
            mh.append({'world': 'models', 'ops': [a, b]})
    for name in MODEL_POINTS:
        own = [o for o in mops if o[1] == name]
        if tier == 'quick' and name in ('popH', 'err', 'mechT'):
            continue
        for a in own:
            for b in own:
                for c in own:
                    mh.append({'world': 'models', 'ops': [a, b, c]})
    # error model kinds: all ordered pairs over all kinds, all triples within a kind
    eops = err_ops()
    eh = [{'world': 'errors', 'ops': [a]} for a in eops]
    for a in eops:
        for b in eops:
            if not b[0].startswith('mut_'):
                eh.append({'world': 'errors', 'ops': [a, b]})
    for code in list(ERR_KINDS) + ['R']:
        own = [o for o in eops if o[1] in ('ll' + code, 'pred' + code,
                                           'ctrl' + code, code)]
        for a in own:
            for b in own:
                for c in own:
                    if not c[0].startswith('mut_'):
                        eh.append({'world': 'errors', 'ops': [a, b, c]})
    fork = []
    tasks_alpha = [o for o in evals if o[1] in ('llA', 'postA', 'hier', 'fpost')
                   and o[0] in ('call', 'S1')]
    prefixes = [[]] + [[o] for o in ops if o[0] in ('S1', 'fail', 'mut_sens')
                       and o[1] in ('llA', 'hier', 'user')]
    sizes = (1, 2) if tier == 'quick' else (1, 2, 3)
    for pre in prefixes:
        for r in sizes:
            for tasks in itertools.permutations(tasks_alpha[::2] if tier == 'quick'
                                                else tasks_alpha[::2], r):
                fork.append({'prefix': pre, 'tasks': [list(t) for t in tasks]})
    ev = []
    for obj in ('postA', 'hier', 'fpost', 'llB'):
        for order in ([0, 1], [1, 0, 1], [0, 0, 1, 1]):
            for nw in (1, 2, 3):
                ev.append({'obj': obj, 'order': order, 'n_workers': nw})
    return {
        'parts': [
            Part('histories', hist, w_history,
                 'interleaved evaluation / failure / user-model-mutation histories'),
            Part('models', mh, w_history,
                 'population / error / mechanistic models, plain and reduced: all '
                 'ordered pairs of evaluations over all models, all triples on one '
                 'model; fresh-object equality, inputs untouched, results handed '
                 'out earlier unchanged'),
            Part('error_kinds', eh, w_history,
                 'likelihood, predictive model and controller built from a user '
                 'error model of every kind: value / pointwise / S1 / sampling / '
                 'names / posteriors taken later, and the user renaming their model: '
                 'all ordered pairs, all triples within a kind'),
            Part('fork', fork, w_fork,
                 'history prefix in the parent, ordered task subsets in a forked '
                 'worker'),
            Part('evaluators', ev, w_evaluators,
                 'pints.ParallelEvaluator vs SequentialEvaluator', serial=True),
        ],
        'bounds': {'history_depth': 3, 'ops': len(ops), 'fork_tasks_max':
                   max(sizes)},
        'rule': 'all histories of length <= 2 over the operation alphabet (depth 3 '
                'on the object family sharing user models); all ordered subsets of '
                '<= %d tasks in a forked worker after every listed prefix; distinct '
                '= distinct histories' % max(sizes),
        'min_outcomes': {'histories': 100},
        'assumptions': ['SBML objects run on RefSimulation (DESIGN §2.1); forked '
                        'workers share no memory with the parent, so schedules '
                        'reduce to (prefix in parent) x (ordered subset in child)'],
    }


META = {
    'technique': 'exhaustive enumeration of interleaved operation histories on a '
                 'world of objects sharing user models (differential against freshly '
                 'built objects), with fault injection in the solver seam and real '
                 'forked workers for the multi-process schedules',
    'level_text': 'Every ordered pair (and, on the family sharing user models, every '
                  'triple) of evaluation operations -- value, pointwise, value with '
                  'sensitivities, seeded sampling, initial-parameter sampling, an '
                  'injected solver failure, mutations of the user models after '
                  'construction -- is executed on sibling likelihoods, posteriors, '
                  'the hierarchical likelihood, predictive model, filter and filter '
                  'posterior; each result must equal the result on a fresh object '
                  'and inputs must be untouched. Forked workers run every ordered '
                  'subset of <=3 tasks after every listed parent prefix; parallel '
                  'and sequential pints evaluators are compared.',
    'level_note': 'Thread-level interleavings do not occur (pints uses processes); '
                  'multi-process schedules are covered by the reduction stated in '
                  'DESIGN §4 C19. SBML objects on RefSimulation.',
}
META['level_text'] += (
    ' Also: for every error model kind (and a reduced user mechanistic model) a lik'
    "elihood, predictive model and controller built from the user's object under al"
    'l ordered pairs and own triples of evaluations / renames / re-fixes; posterior'
    "s taken from a controller or built from the user's filter in mid-history; tabl"
    'es with regimens; repeats of one operation within a history are required to be'
    ' bit-identical (every a-b-a history around numerically integrated models).')
META['level_text'] += (' Wave 9: frames with the row labels of a slice, one list of error models serving likelihood, sibling, predictive model and controller.')
