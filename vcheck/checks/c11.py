"""C11 — mechanistic model behaviour depends only on its final configuration.

Shape (B): explicit-state breadth-first search over histories of configuration calls on
the real PKPDModel (fresh object + replay per history, canonical observation = state
key, histories reaching a known state are not extended), from the fresh model and from
non-initial seeds. Oracles in every state: (1) report/behaviour consistency -- a fresh
model configured in one canonical order to exactly what the explored model *reports*
has the same names, counts and probe simulations; (2) the reported independent fields
(administration, regimen, outputs, sensitivities) are those of a last-writer-wins
reference machine with the documented resets; (3) a copy equals its original at the
moment of copying and neither is affected by later operations on the other.
Runs on RefSimulation (DESIGN §2.1)."""
import shutil
import tempfile
import traceback

import myokit
import itertools

import numpy as np

import chi
import chi.library

from ..core import tol
from ..core.engine import bfs, key_of
from ..gen import sbmlgen

PROPERTY = 'C11'

KINDS = {
    'lib1': {
        'comps': ['central'], 'amount': {'central': 'drug_amount'},
        'out1': ['central.drug_concentration'],
        'out2': ['central.drug_amount', 'central.drug_concentration'],
        'out3': ['central.drug_amount'],
        'renP': ('global.elimination_rate', 'K: elimination rate constant as named by us'),
        'renO': ('central.drug_concentration', 'conc')},
    'lib2': {
        'comps': ['central'], 'amount': {'central': 'drug_amount'},
        'out1': ['global.tumour_volume'],
        'out2': ['central.drug_concentration', 'global.tumour_volume'],
        'out3': ['central.drug_concentration'],
        'renP': ('global.kappa', 'K: potency parameter kappa as named by the user'),
        'renO': ('global.tumour_volume', 'vol')},
    'chain2': {
        'comps': ['zeta', 'alpha'],
        'amount': {'zeta': 'drug_zeta_amount', 'alpha': 'drug_alpha_amount'},
        'out1': ['alpha.drug_alpha_concentration'],
        'out2': ['global.total', 'zeta.drug_zeta_amount'],
        'out3': ['zeta.drug_zeta_amount'],
        'renP': ('global.k_e', 'K: elimination rate constant as named by us'),
        'renO': ('alpha.drug_alpha_concentration', 'conc')},
}
PROBE_TIMES = [0.3, 1.0, 2.2]
REG1 = dict(dose=2.0, start=0.5, duration=0.5, period=1.0, num=2)
REG1_EVENTS = [(0.5, 0.5, 4.0, 1.0, 2)]
REG2_EVENTS = [(0.2, 0.3, 3.0, 0, 0), (1.4, 0.2, 1.5, 0, 0)]
# a regimen of amount zero (a placebo arm): a regimen like any other
REG0 = dict(dose=0.0, start=0.4, duration=0.5)
REG0_EVENTS = [(0.4, 0.5, 0.0, 0, 0)]


def fresh(kind):
    if kind == 'lib1':
        return chi.library.ModelLibrary().one_compartment_pk_model()
    if kind == 'lib2':
        return chi.library.ModelLibrary().erlotinib_tumour_growth_inhibition_model()
    desc = sbmlgen.descriptor(kind, [1, 0], [0, 1], None)
    tmp = tempfile.mkdtemp(prefix='vc11_')
    try:
        return chi.PKPDModel(sbmlgen.write(desc, tmp))
    finally:
        shutil.rmtree(tmp, ignore_errors=True)


def protocol(events):
    p = myokit.Protocol()
    for s, d, lv, per, mult in events:
        p.add(myokit.ProtocolEvent(lv, s, d, per, mult))
    return p


def reg_events(m):
    try:
        r = m.dosing_regimen()
    except (AttributeError, NotImplementedError):
        return None           # (a model that cannot be dosed)
    if r is None:
        return None
    return sorted((e.start(), e.duration(), e.level(), e.period(), e.multiplier())
                  for e in r.events())


def probe(m):
    """Simulation at a vector of pairwise distinct values of the reported length."""
    n = m.n_parameters()
    x = [0.3 + 0.23 * i for i in range(n)]
    res = m.simulate(x, PROBE_TIMES)
    if isinstance(res, tuple):
        return [np.asarray(res[0], dtype=float), np.asarray(res[1], dtype=float)]
    return [np.asarray(res, dtype=float)]


def observe(m):
    for lst in (m.parameters(), m.outputs()):
        if isinstance(lst, list):
            lst.append('appended by the caller')
    obs = {
        'adm': m.administration(), 'reg': reg_events(m), 'outputs': m.outputs(),
        'params': m.parameters(), 'n_par': m.n_parameters(),
        'n_out': m.n_outputs(), 'sens': bool(m.has_sensitivities())}
    try:
        raw = probe(m)
        obs['probe'] = [tol.rnd(a, 7) for a in raw]
        obs['probe_raw'] = raw
    except Exception as e:
        obs['probe'] = 'raise:%s' % type(e).__name__
        obs['probe_error'] = traceback.format_exc()[-800:]
    return obs


def obs_key(obs):
    d = {k: obs[k] for k in ('adm', 'reg', 'outputs', 'params', 'n_par',
                             'n_out', 'sens', 'probe')}
    d['_raw'] = obs.get('probe_raw')
    return d


def obs_diff(a, b, outputs_only=False):
    """Keys in which two observations differ; probe simulations are compared with
    the ODE tolerance (not through their rounded canonical form)."""
    diff = [k for k in a if k not in ('probe', '_raw') and k in b and a[k] != b[k]]
    ra, rb = a.get('_raw'), b.get('_raw')
    if (ra is None) != (rb is None):
        diff.append('probe')
    elif ra is not None:
        if outputs_only:
            ra, rb = ra[:1], rb[:1]
        if len(ra) != len(rb) or any(
                x.shape != y.shape or not tol.allclose(x, y, 1e-7, 1e-10)
                for x, y in zip(ra, rb)):
            diff.append('probe')
    elif a.get('probe') != b.get('probe'):
        diff.append('probe')
    return diff


def strip(d):
    return {k: v for k, v in d.items() if k != '_raw'}


class Machine(object):
    """Last-writer-wins reference for the independent fields."""
    def __init__(self, kind):
        self.kind = kind
        self.adm = None
        self.reg = None
        self.outs = list(KINDS[kind]['out1']) if kind == 'lib1' else None
        self.sens = False
        self.ren_o = False

    def outputs_myokit(self):
        return self.outs


def apply_op(kind, m, mach, op, others, viol, hist_label):
    """Applies one operation to the real model and to the reference machine.
    Returns the model to continue with."""
    K = KINDS[kind]
    before = obs_key(observe(m)) if op in ('reg1', 'reg2', 'reg0') and \
        mach.adm is None \
        else None
    try:
        if op.startswith('adm'):
            comp = K['comps'][1] if op.endswith('2') else K['comps'][0]
            direct = not op.startswith('admI')
            if direct and mach.outs and any(o.startswith('dose.')
                                            for o in mach.outs):
                # an output lives in the dose compartment that a direct route does
                # not have: whether the call is refused or the output dropped is
                # not documented, but a refused call leaves the model as it was
                before_d = obs_key(observe(m))
                try:
                    m.set_administration(comp, amount_var=K['amount'][comp],
                                         direct=True)
                except (KeyError, ValueError):
                    after_d = obs_key(observe(m))
                    if obs_diff(after_d, before_d):
                        viol.append({'sub': 'rejected_changed', 'message': 'a '
                                     'refused set_administration call (an output '
                                     'lives in the dose compartment) changed the '
                                     'model (after %s)' % hist_label,
                                     'expected': strip(before_d),
                                     'observed': strip(after_d),
                                     'behaviour': 'rejected_changed'})
                    return m
                mach.outs = to_myokit_outputs(kind, m.outputs())
                mach.adm = {'compartment': comp, 'direct': True}
                mach.sens = False
                mach.names_unknown = True
                return m
            m.set_administration(comp, amount_var=K['amount'][comp], direct=direct)
            mach.adm = {'compartment': comp, 'direct': direct}
            mach.sens = False
            if mach.ren_o:
                # (whether a route change keeps user-given output names is not
                # documented: not compared from here on)
                mach.names_unknown = True
        elif op == 'reg1':
            m.set_dosing_regimen(**REG1)
            mach.reg = REG1_EVENTS
        elif op == 'reg2':
            m.set_dosing_regimen(protocol(REG2_EVENTS))
            mach.reg = REG2_EVENTS
        elif op == 'reg0':
            m.set_dosing_regimen(**REG0)
            mach.reg = REG0_EVENTS
        elif op in ('out1', 'out2', 'out3'):
            # (the list stays the caller's: what is done to it afterwards is no
            # configuration call)
            given = list(K[op])
            m.set_outputs(given)
            given.reverse()
            given.append('appended by the caller')
            # a user-given output name survives only while the output stays selected
            mach.ren_o = mach.ren_o and K['renO'][0] in K[op] and (
                mach.outs is None or K['renO'][0] in mach.outs)
            mach.outs = list(K[op])
            mach.sens = False
        elif op in ('outDup', 'outN'):
            if op == 'outDup':
                # a selection listing one output twice, the renamable one last
                new_outs = [K['out3'][0], K['out3'][0], K['renO'][0]]
                if new_outs[0] == new_outs[2]:
                    new_outs = [K['out2'][0], K['out2'][0], K['renO'][0]]
                given = list(new_outs)
            else:
                # the renamable output alone, asked for by the name it shows
                new_outs = [K['renO'][0]]
                shown = K['renO'][1] if K['renO'][1] in m.outputs() \
                    else K['renO'][0]
                given = [shown]
            m.set_outputs(given)
            mach.ren_o = mach.ren_o and (
                mach.outs is None or K['renO'][0] in mach.outs)
            mach.outs = list(new_outs)
            mach.sens = False
        elif op == 'outD':
            # the amount in the dose compartment: exists with an indirect route only
            if mach.adm is not None and not mach.adm['direct']:
                m.set_outputs(['dose.drug_amount'])
                mach.ren_o = False
                mach.outs = ['dose.drug_amount']
                mach.sens = False
            else:
                before_o = obs_key(observe(m))
                try:
                    m.set_outputs(['dose.drug_amount'])
                    viol.append({'sub': 'out_accepted', 'message': 'set_outputs '
                                 'accepted a variable the model does not have',
                                 'expected': 'KeyError', 'observed': 'accepted'})
                except KeyError:
                    after_o = obs_key(observe(m))
                    if obs_diff(after_o, before_o):
                        viol.append({'sub': 'rejected_changed', 'message': 'a '
                                     'refused set_outputs call changed the model '
                                     '(after %s)' % hist_label,
                                     'expected': strip(before_o),
                                     'observed': strip(after_o),
                                     'behaviour': 'rejected_changed'})
        elif op == 'renP':
            m.set_parameter_names({K['renP'][0]: K['renP'][1]})
        elif op == 'renChain':
            # one dictionary whose second key is the first entry's new name: the
            # names are replaced simultaneously, so only the first entry applies
            # (the second key is not a current name)
            if K['renP'][1] not in m.parameters():
                m.set_parameter_names({K['renP'][0]: K['renP'][1],
                                       K['renP'][1]: 'twice renamed'})
        elif op == 'badAdm':
            # a valid compartment with an amount variable that does not exist: the
            # call is refused and leaves the model as it was
            before_bad = obs_key(observe(m))
            try:
                m.set_administration(K['comps'][0], amount_var='no_such_variable',
                                     direct=mach.adm is None or
                                     not mach.adm['direct'])
                viol.append({'sub': 'adm_accepted', 'message': 'set_administration '
                             'accepted a non-existent amount variable',
                             'expected': 'ValueError', 'observed': 'accepted'})
            except ValueError:
                after_bad = obs_key(observe(m))
                if obs_diff(after_bad, before_bad):
                    viol.append({'sub': 'rejected_changed', 'message': 'a refused '
                                 'set_administration call changed the model (after '
                                 '%s)' % hist_label, 'expected': strip(before_bad),
                                 'observed': strip(after_bad),
                                 'behaviour': 'rejected_changed'})
        elif op == 'renO':
            m.set_output_names({K['renO'][0]: K['renO'][1]})
            cur = mach.outs if mach.outs is not None else \
                to_myokit_outputs(kind, m.outputs())
            mach.ren_o = mach.ren_o or K['renO'][0] in cur
        elif op == 'sensOn':
            m.enable_sensitivities(True)
            mach.sens = True
            mach.sens_subset = False
        elif op == 'sensSub':
            # sensitivities for the first two parameters only
            m.enable_sensitivities(True, m.parameters()[:2])
            mach.sens = True
            mach.sens_subset = True
        elif op == 'sensOff':
            m.enable_sensitivities(False)
            mach.sens = False
        elif op == 'sim':
            probe(m)
        elif op in ('copyC', 'copyO'):
            c = m.copy()
            o_obs, c_obs = observe(m), observe(c)
            # at the moment of copying: equal except the documented sensitivity reset
            a, b = obs_key(o_obs), obs_key(c_obs)
            a.pop('sens'), b.pop('sens')
            # with sensitivities on, probes differ in form: compare outputs only
            if obs_diff(a, b, outputs_only=bool(o_obs['sens'])):
                viol.append({'sub': 'copy_equal', 'message': 'a copy does not '
                             'behave like its original at the moment of copying',
                             'history': hist_label, 'expected': strip(a),
                             'observed': strip(b), 'behaviour': 'copy_equal'})
            if c_obs['sens']:
                viol.append({'sub': 'copy_sens', 'message': 'copy reports enabled '
                             'sensitivities although copying resets them',
                             'history': hist_label, 'expected': False, 'observed': True,
                             'behaviour': 'copy_sens'})
            if op == 'copyC':
                others.append((m, obs_key(o_obs), 'original'))
                mach.sens = False
                return c
            others.append((c, obs_key(c_obs), 'copy'))
    except ValueError as e:
        if op in ('reg1', 'reg2', 'reg0') and mach.adm is None:
            after = obs_key(observe(m))
            if obs_diff(after, before):
                viol.append({'sub': 'rejected_changed', 'message': 'rejected '
                             'set_dosing_regimen changed the model (after %s)'
                             % hist_label, 'expected': strip(before),
                             'observed': strip(after)})
            return m
        if op in ('renP', 'renO') and 'coincide' in str(e):
            return m           # renaming to an existing name is refused: no change
        raise
    else:
        if op in ('reg1', 'reg2', 'reg0') and before is not None:
            viol.append({'sub': 'reg_accepted', 'message': 'set_dosing_regimen '
                         'accepted without a route of administration',
                         'expected': 'ValueError', 'observed': 'accepted'})
    return m


def to_myokit_outputs(kind, outs):
    K = KINDS[kind.split(':')[-1]]
    inv = {K['renO'][1]: K['renO'][0]}
    return [inv.get(o, o) for o in outs]


def fresh_from_reports(kind, obs):
    """A fresh model configured, in one canonical order, to what `obs` reports."""
    K = KINDS[kind]
    f = fresh(kind)
    if obs['adm'] is not None:
        comp = obs['adm']['compartment']
        f.set_administration(comp, amount_var=K['amount'][comp],
                             direct=obs['adm']['direct'])
    if obs['reg'] is not None:
        f.set_dosing_regimen(protocol(obs['reg']))
    f.set_outputs(to_myokit_outputs(kind, obs['outputs']))
    if K['renP'][1] in obs['params']:
        f.set_parameter_names({K['renP'][0]: K['renP'][1]})
    if K['renO'][1] in obs['outputs']:
        f.set_output_names({K['renO'][0]: K['renO'][1]})
    if obs['sens']:
        f.enable_sensitivities(True)
    return f


def case_is_sibling(case):
    return False


def w_history(case):
    kind = case[0]
    history = case[1:]
    viol = []
    m = fresh(kind)
    mach = Machine(kind)
    if mach.outs is None:
        mach.outs = to_myokit_outputs(kind, m.outputs())
    others = []
    for i, op in enumerate(history):
        m = apply_op(kind, m, mach, op, others, viol, '>'.join(history[:i]) or '-')
    lab = '>'.join(history) or '(fresh)'
    obs = observe(m)
    # (2) reported fields vs reference machine
    rep = {'adm': obs['adm'], 'reg': obs['reg'],
           'outputs': to_myokit_outputs(kind, obs['outputs']), 'sens': obs['sens']}
    exp = {'adm': mach.adm, 'reg': None if mach.reg is None else sorted(mach.reg),
           'outputs': mach.outs, 'sens': mach.sens}
    # displayed output names: the user-given name exactly while the machine says so
    K_ = KINDS[kind]
    if mach.outs is not None and not getattr(mach, 'names_unknown', False):
        want = [K_['renO'][1] if (mach.ren_o and o == K_['renO'][0]) else o
                for o in mach.outs]
        if list(obs['outputs']) != want:
            viol.append({'sub': 'field_output_names', 'message': 'displayed output '
                         'names are not those of the net configuration (a name given '
                         'to an output lasts while the output stays selected)',
                         'history': lab, 'expected': want,
                         'observed': list(obs['outputs']),
                         'behaviour': 'field_output_names'})
    for k in exp:
        a, b = rep[k], exp[k]
        same = (a == b)
        if k == 'reg' and a is not None and b is not None:
            same = len(a) == len(b) and tol.allclose(
                np.array(a, dtype=float), np.array(b, dtype=float))
        if not same:
            viol.append({'sub': 'field_' + k, 'message': 'reported %s is not what '
                         'the last call set' % k, 'history': lab,
                         'expected': b, 'observed': a, 'behaviour': 'field_' + k})
    # (1) report / behaviour consistency
    if isinstance(obs['probe'], str):
        viol.append({'sub': 'probe_raise', 'message': 'model cannot simulate a '
                     'vector of its reported length n_parameters=%d'
                     % obs['n_par'], 'history': lab, 'expected': 'simulation',
                     'observed': obs.get('probe_error'),
                     'behaviour': 'probe_' + obs['probe']})
    elif len(obs['params']) != obs['n_par'] or len(obs['outputs']) != obs['n_out']:
        viol.append({'sub': 'counts', 'message': 'names and counts disagree',
                     'history': lab, 'expected': [obs['n_par'], obs['n_out']],
                     'observed': [obs['params'], obs['outputs']],
                     'behaviour': 'counts'})
    else:
        try:
            f = fresh_from_reports(kind, obs)
            if obs['sens'] and getattr(mach, 'sens_subset', False) and mach.sens:
                # (the subset of sensitivities is not reported by the model; the
                # reference machine knows what was requested last)
                f.enable_sensitivities(True, f.parameters()[:2])
            fo = observe(f)
        except Exception as e:
            fo = None
            viol.append({'sub': 'fresh_fail', 'message': 'the reported '
                         'configuration cannot be applied to a fresh model: '
                         '%s: %s' % (type(e).__name__, e), 'history': lab,
                         'expected': 'applicable', 'observed': repr(e),
                         'behaviour': 'fresh_fail'})
        if fo is not None:
            a, b = obs_key(obs), obs_key(fo)
            diff = obs_diff(a, b)
            if diff:
                viol.append({
                    'sub': 'consistency', 'message': 'model after a history of '
                    'configuration calls differs from a fresh model configured to '
                    'what it reports in: %s' % diff, 'history': lab, 'expected': {k: b[k] for k in diff},
                    'observed': {k: a[k] for k in diff},
                    'behaviour': 'consistency_' + '+'.join(diff)})
    # (2b) a route is part of the net configuration, the way to it is not: the same
    # history with an indirect route to the same compartment set just before the
    # last direct one ends in the same model (names included)
    last_d = max([i for i, op in enumerate(history)
                  if op.startswith('admD')] or [-1])
    if last_d >= 0 and 'outD' not in history[:last_d] and not case_is_sibling(case):
        sib = list(history[:last_d]) + [
            'admI' + history[last_d][4:]] + list(history[last_d:])
        m2 = fresh(kind)
        mach2 = Machine(kind)
        if mach2.outs is None:
            mach2.outs = to_myokit_outputs(kind, m2.outputs())
        scratch = []
        for op in sib:
            m2 = apply_op(kind, m2, mach2, op, [], scratch, 'sibling')
        a, b = obs_key(obs), obs_key(observe(m2))
        diff = obs_diff(a, b)
        if diff:
            viol.append({
                'sub': 'route_history', 'message': 'the model differs from the one '
                'reached when an indirect route was set just before the last direct '
                'one (%s) in: %s' % ('>'.join(sib), diff), 'history': lab,
                'expected': {k: b[k] for k in diff},
                'observed': {k: a[k] for k in diff},
                'behaviour': 'route_history_' + '+'.join(diff)})
    # (3) copies are unaffected by what happened to the other afterwards
    for other, at_copy, role in others:
        now = obs_key(observe(other))
        diff = obs_diff(now, at_copy)
        if diff:
            viol.append({'sub': 'copy_indep', 'message': 'the %s changed through '
                         'later operations on the other model: %s'
                         % (role, diff), 'history': lab, 'expected': strip(at_copy),
                         'observed': strip(now),
                         'behaviour': 'copy_indep'})
    state = key_of([kind, strip(obs_key(obs)), mach.adm, mach.reg, mach.outs,
                    mach.sens, mach.ren_o, getattr(mach, 'sens_subset', False),
                    getattr(mach, 'names_unknown', False)])
    return {'state': state, 'transitions': len(history) + 4,
            'outcome': state, 'violations': viol}


# ----------------------------------------------- reduced mechanistic model histories

RED_OPS = ['fix0', 'fixlast', 'refix', 'rel0', 'relall', 'reg1', 'reg2', 'reg0',
           'out1',
           'out2', 'sensOn', 'sensOff', 'sim', 'copyC', 'copyO', 'renP']


def red_probe(rm, fixed_pos, n_full):
    """Simulation of the reduced model at distinct values for the free parameters;
    returns (result list, full vector)."""
    full = [0.3 + 0.23 * i for i in range(n_full)]
    for i, v in fixed_pos.items():
        full[i] = v
    x = [full[i] for i in range(n_full) if i not in fixed_pos]
    res = rm.simulate(x, PROBE_TIMES)
    if isinstance(res, tuple):
        return [np.asarray(res[0], dtype=float), np.asarray(res[1], dtype=float)], \
            full
    return [np.asarray(res, dtype=float)], full


def red_observe(rm, fixed_pos, n_full):
    # (name lists handed out are the caller's: extending one is not a configuration
    # call and must not show below)
    for lst in (rm.parameters(), rm.outputs()):
        if isinstance(lst, list):
            lst.append('appended by the caller')
    obs = {'reg': reg_events(rm), 'outputs': rm.outputs(),
           'params': rm.parameters(), 'n_par': rm.n_parameters(),
           'n_out': rm.n_outputs(), 'sens': bool(rm.has_sensitivities()),
           'n_fixed': rm.n_fixed_parameters()}
    try:
        pr, full = red_probe(rm, fixed_pos, n_full)
        obs['probe'] = [tol.rnd(a, 7) for a in pr]
    except Exception as e:
        obs['probe'] = 'raise:%s' % type(e).__name__
        obs['probe_error'] = traceback.format_exc()[-800:]
    return obs


def red_base(kind):
    """The model under the parameter-fixing wrapper: a PKPD model with an indirect
    route, or ('plain:<topology>') the same SBML file loaded as a plain SBMLModel,
    which has no dosing at all."""
    if kind.startswith('plain:'):
        desc = sbmlgen.descriptor(kind.split(':')[1], [1, 0], [0, 1], None)
        tmp = tempfile.mkdtemp(prefix='vc11_')
        try:
            return chi.SBMLModel(sbmlgen.write(desc, tmp))
        finally:
            shutil.rmtree(tmp, ignore_errors=True)
    K = KINDS[kind]
    base = fresh(kind)
    base.set_administration(K['comps'][0], amount_var=K['amount'][K['comps'][0]],
                            direct=False)
    return base


def w_red_history(case):
    kind = case[0]
    history = case[1:]
    plain = kind.startswith('plain:')
    K = KINDS[kind.split(':')[-1]]
    viol = []
    base = red_base(kind)
    n_full = base.n_parameters()
    rm = chi.ReducedMechanisticModel(base)
    fixed = {}            # position in the full parameter list -> value
    mach = {'reg': None, 'outs': to_myokit_outputs(kind, rm.outputs()),
            'sens': False}
    others = []
    for i, op in enumerate(history):
        free = [j for j in range(n_full) if j not in fixed]
        names = rm.parameters()
        if op in ('fix0', 'fixlast'):
            if not free:
                continue
            j = free[0] if op == 'fix0' else free[-1]
            if len(free) == 1 and rm.has_sensitivities():
                continue      # known finding F-C08-all-fixed-sens, decided in C08
            rm.fix_parameters({names[free.index(j)]: 0.7 + 0.1 * j})
            fixed[j] = 0.7 + 0.1 * j
        elif op == 'refix':
            # the first fixed parameter gets another value
            if not fixed:
                continue
            j = min(fixed)
            full_names = rm.mechanistic_model().parameters()
            fixed[j] = 1.9 - fixed[j]
            rm.fix_parameters({full_names[j]: fixed[j]})
        elif op == 'rel0':
            # only the first fixed parameter is released
            if not fixed:
                continue
            j = min(fixed)
            full_names = rm.mechanistic_model().parameters()
            rm.fix_parameters({full_names[j]: None})
            del fixed[j]
        elif op == 'relall':
            full_names = rm.mechanistic_model().parameters()
            rm.fix_parameters({n_: None for n_ in full_names})
            fixed = {}
        elif op in ('reg1', 'reg2', 'reg0') and plain:
            continue          # (a plain SBML model cannot be dosed)
        elif op == 'reg0':
            rm.set_dosing_regimen(**REG0)
            mach['reg'] = REG0_EVENTS
        elif op == 'reg1':
            rm.set_dosing_regimen(**REG1)
            mach['reg'] = REG1_EVENTS
        elif op == 'reg2':
            rm.set_dosing_regimen(protocol(REG2_EVENTS))
            mach['reg'] = REG2_EVENTS
        elif op in ('out1', 'out2'):
            given = list(K[op])
            rm.set_outputs(given)
            given.reverse()
            given.append('appended by the caller')
            mach['outs'] = list(K[op])
            mach['sens'] = False
        elif op == 'sensOn':
            if not free:
                continue
            # (the flag as Python bool, numpy bool or integer, by position)
            rm.enable_sensitivities([True, np.bool_(True), 1][i % 3])
            mach['sens'] = True
        elif op == 'sensOff':
            rm.enable_sensitivities([False, np.bool_(False), 0][i % 3])
            mach['sens'] = False
        elif op == 'sim':
            red_probe(rm, fixed, n_full)
        elif op == 'renP':
            try:
                rm.set_parameter_names({K['renP'][0]: K['renP'][1]})
            except ValueError:
                pass
        elif op in ('copyC', 'copyO'):
            c = rm.copy()
            a = red_observe(rm, fixed, n_full)
            b = red_observe(c, fixed, n_full)
            ka = {k: a[k] for k in a if k not in ('sens', 'probe_error')}
            kb = {k: b[k] for k in b if k not in ('sens', 'probe_error')}
            if a['sens']:
                for kk in (ka, kb):
                    if isinstance(kk['probe'], list):
                        kk['probe'] = kk['probe'][:1]
            if ka != kb:
                viol.append({'sub': 'red_copy_equal', 'message': 'copy of a reduced '
                             'model does not behave like its original at the moment '
                             'of copying', 'history': history[:i + 1],
                             'expected': ka, 'observed': kb,
                             'behaviour': 'red_copy_equal'})
            if op == 'copyC':
                others.append((rm, dict(fixed), {k: a[k] for k in a
                                                 if k != 'probe_error'}))
                rm = c
                mach['sens'] = False if not b['sens'] else mach['sens']
            else:
                others.append((c, dict(fixed), {k: b[k] for k in b
                                                if k != 'probe_error'}))
    obs = red_observe(rm, fixed, n_full)
    lab = '>'.join(history) or '(fresh)'
    free = [j for j in range(n_full) if j not in fixed]
    # counts and names: free parameters in original order
    full_names = rm.mechanistic_model().parameters()
    e_names = [full_names[j] for j in free]
    if obs['params'] != e_names or obs['n_par'] != len(free) or \
            obs['n_fixed'] != len(fixed):
        viol.append({'sub': 'red_names', 'message': 'reduced mechanistic model does '
                     'not list the free parameters in original order',
                     'history': lab, 'expected': [e_names, len(free), len(fixed)],
                     'observed': [obs['params'], obs['n_par'], obs['n_fixed']],
                     'behaviour': 'red_names'})
    rep = {'reg': obs['reg'], 'outputs': to_myokit_outputs(kind, obs['outputs'])}
    if (rep['reg'] is None) != (mach['reg'] is None) or (
            rep['reg'] is not None and not tol.allclose(
                np.array(rep['reg'], dtype=float),
                np.array(sorted(mach['reg']), dtype=float))):
        viol.append({'sub': 'red_reg', 'message': 'reported regimen is not the one '
                     'last set', 'history': lab, 'expected': mach['reg'],
                     'observed': rep['reg'], 'behaviour': 'red_field_reg'})
    if rep['outputs'] != mach['outs']:
        viol.append({'sub': 'red_out', 'message': 'reported outputs are not the '
                     'ones last set', 'history': lab, 'expected': mach['outs'],
                     'observed': rep['outputs'], 'behaviour': 'red_field_outputs'})
    # differential: a fresh unreduced model configured to the reports, evaluated at
    # the substituted full vector
    if isinstance(obs['probe'], str):
        viol.append({'sub': 'red_probe', 'message': 'reduced model cannot simulate '
                     'a vector of its reported length', 'history': lab,
                     'expected': 'simulation', 'observed': obs.get('probe_error'),
                     'behaviour': 'red_probe_' + obs['probe']})
    elif free:
        f = red_base(kind)
        if obs['reg'] is not None:
            f.set_dosing_regimen(protocol(obs['reg']))
        f.set_outputs(rep['outputs'])
        full = [0.3 + 0.23 * i for i in range(n_full)]
        for j, v in fixed.items():
            full[j] = v
        y = np.asarray(f.simulate(full, PROBE_TIMES), dtype=float)
        exp = [y]
        if obs['sens']:
            f.enable_sensitivities(True)
            y2, S = f.simulate(full, PROBE_TIMES)
            exp = [np.asarray(y2, dtype=float),
                   np.asarray(S, dtype=float)[:, :, free]]
        got_arrays = [np.asarray(a, dtype=float) for a in obs['probe']]
        same = len(got_arrays) == len(exp) and all(
            g.shape == e.shape and tol.allclose(g, e, 1e-6, 1e-9)
            for g, e in zip(got_arrays, exp))
        if not same:
            viol.append({'sub': 'red_consistency', 'message': 'reduced model after '
                         'a history differs from a fresh model at the substituted '
                         'vector (outputs%s)' % (' / sensitivities w.r.t. the free '
                                                 'parameters' if obs['sens'] else ''),
                         'history': lab, 'expected': exp, 'observed': obs['probe'],
                         'behaviour': 'red_consistency'})
    for other, ofixed, at_copy in others:
        now = red_observe(other, ofixed, n_full)
        now = {k: now[k] for k in now if k != 'probe_error'}
        if now != at_copy:
            viol.append({'sub': 'red_copy_indep', 'message': 'a reduced model or '
                         'its copy changed through later operations on the other',
                         'history': lab, 'expected': at_copy, 'observed': now,
                         'behaviour': 'red_copy_indep'})
    state = key_of([kind, {k: obs[k] for k in obs if k != 'probe_error'},
                    sorted(fixed.items()), mach])
    return {'state': state, 'transitions': len(history) + 3, 'outcome': state,
            'violations': viol}


WORKERS = {}


def _after_copy_pass(name, worker, ops, part, st, workers, tail):
    """The canonical state does not contain the models copied on the way, so a
    history ending in a copy is never extended by the BFS. Second pass: from every
    reached state, copy (continue on the copy / on the original), then every
    sequence of `tail` further operations; the final comparison of the retained
    model with its observation at the moment of copying decides independence."""
    from ..core import engine
    rest = [o for o in ops if o not in ('copyC', 'copyO')]
    extra = []
    for key, hist in sorted(part.paths.items(), key=lambda kv: (len(kv[1]), kv[1])):
        for cp in ('copyC', 'copyO'):
            for seq in itertools.product(rest, repeat=tail):
                extra.append(list(hist) + [cp] + list(seq))
            if tail > 1:
                for o in rest:
                    extra.append(list(hist) + [cp, o])
    p2 = engine.Part(name, extra, worker, part.descr)
    st2 = engine.explore([p2], workers)[name]
    for v in st2['violations']:
        v['case_index'] += len(part.cases)
    part.cases += extra
    part.descr += '; then from every reached state: copy + every sequence of <= %d ' \
                  'further operations' % tail
    st['cases'] += st2['cases']
    st['states'] |= st2['states']
    st['transitions'] += st2['transitions']
    st['outcomes'] |= st2['outcomes']
    st['violations'] += st2['violations']
    st['info']['after_copy_histories'] = len(extra)
    return part, st


def make_red_search(kind, depth, tail=1):
    name = 'reduced_' + kind
    WORKERS[name] = w_red_history

    def run(workers):
        part, st = bfs(name, w_red_history, RED_OPS, depth, seeds=[[kind]],
                       workers=workers,
                       descr='BFS over histories on a ReducedMechanisticModel '
                             'around %s (indirect administration), depth %d'
                             % (kind, depth))
        return _after_copy_pass(name, w_red_history, RED_OPS, part, st, workers,
                                tail)
    return run


def _ops(kind):
    ops = ['admD', 'admI', 'badAdm', 'reg1', 'reg2', 'reg0', 'out1', 'out2', 'out3',
           'outD', 'outDup', 'outN',
           'renP',
           'renChain', 'renO', 'sensOn', 'sensSub', 'sensOff', 'sim', 'copyC',
           'copyO']
    if kind == 'chain2':
        ops.insert(2, 'admD2')
    return ops


def make_search(kind, depth, seeds, tail=1):
    name = 'histories_' + kind
    WORKERS[name] = w_history

    def run(workers):
        part, st = bfs(name, w_history, _ops(kind), depth,
                       seeds=[[kind] + s for s in seeds], workers=workers,
                       descr='BFS over configuration histories on %s, depth %d, '
                             'seeds %s' % (kind, depth, seeds))
        return _after_copy_pass(name, w_history, _ops(kind), part, st, workers,
                                tail)
    return run


WORKERS['library'] = None
for _k in KINDS:
    WORKERS['histories_' + _k] = w_history
    WORKERS['reduced_' + _k] = w_red_history
    WORKERS['all_histories_' + _k] = w_history
WORKERS['reduced_plain:chain2'] = w_red_history


LIB_MODELS = ['one_compartment_pk_model', 'erlotinib_tumour_growth_inhibition_model',
              'tumour_growth_inhibition_model_koch',
              'tumour_growth_inhibition_model_koch_reparametrised']


def w_library(case):
    """Models handed out by ONE ModelLibrary object are fresh: configuring the first
    one does not show in the second one."""
    lib = chi.library.ModelLibrary()
    viol = []
    first = getattr(lib, case['model'])()
    pk = case['model'] in LIB_MODELS[:2]
    for op in case['ops']:
        if op == 'adm' and pk:
            first.set_administration('central', direct=False)
        elif op == 'reg' and pk:
            if first.administration() is None:
                first.set_administration('central')
            first.set_dosing_regimen(2.0, start=0.3, duration=0.2)
        elif op == 'ren':
            first.set_parameter_names({first.parameters()[-1]: 'renamed'})
        elif op == 'out':
            first.set_outputs([first.outputs()[0]])
            first.set_output_names({first.outputs()[0]: 'y'})
        elif op == 'sens':
            first.enable_sensitivities(True)
        elif op == 'sim':
            first.simulate([0.7 + 0.1 * k_ for k_ in range(first.n_parameters())],
                           PROBE_TIMES)
    second = getattr(lib, case['model'])()
    pristine = getattr(chi.library.ModelLibrary(), case['model'])()

    def look(m):
        o = {'params': m.parameters(), 'outputs': m.outputs(),
             'sens': bool(m.has_sensitivities()),
             'adm': m.administration() if pk else None,
             'reg': reg_events(m) if pk else None}
        y = m.simulate([0.6 + 0.07 * k_ for k_ in range(m.n_parameters())],
                       PROBE_TIMES)
        o['y'] = tol.rnd(np.asarray(y[0] if isinstance(y, tuple) else y), 7)
        return o
    a, b = look(second), look(pristine)
    if a != b:
        viol.append({'sub': 'library_fresh', 'message': 'the second %s handed out by '
                     'one ModelLibrary object is not a fresh model after the first '
                     'one was configured (%s)' % (case['model'], case['ops']),
                     'expected': b, 'observed': a, 'behaviour': 'library_fresh'})
    return {'transitions': len(case['ops']) + 4, 'outcome': key_of(a),
            'violations': viol}


def make_exhaustive(kind, depth):
    """Every history up to `depth` from the fresh model, WITHOUT merging states: the
    canonical state cannot see a field that is only written (a lingering name, a
    stale cache) until a later operation reads it, so the BFS may prune exactly the
    history that would expose it."""
    name = 'all_histories_' + kind
    WORKERS[name] = w_history

    def run(workers):
        from ..core import engine
        ops = _ops(kind)
        cases = [[kind] + list(seq) for d in range(1, depth + 1)
                 for seq in itertools.product(ops, repeat=d)]
        part = engine.Part(name, cases, w_history,
                           'every history of length <= %d over %d operations on %s, '
                           'no state merging' % (depth, len(ops), kind))
        st = engine.explore([part], workers)[name]
        st['info'] = {'depth': depth, 'operations': len(ops)}
        return part, st
    return run


def build(tier, seed):
    seeds = [[], ['admD', 'reg1'], ['admI', 'reg2'], ['admD', 'sensOn']]
    if tier == 'quick':
        searches = [make_search('lib1', 3, seeds), make_red_search('lib1', 3),
                    make_red_search('plain:chain2', 3),
                    make_exhaustive('lib1', 3)]
    else:
        searches = [make_search('lib1', 10, seeds, 2),
                    make_search('chain2', 10, seeds),
                    make_search('lib2', 10, seeds[:2]),
                    make_red_search('lib1', 5, 2), make_red_search('chain2', 4),
                    make_red_search('plain:chain2', 4),
                    make_exhaustive('lib1', 4), make_exhaustive('chain2', 3)]
    lib_cases = []
    for model in LIB_MODELS:
        for r in (1, 2):
            for ops in itertools.permutations(['adm', 'reg', 'ren', 'out', 'sens',
                                               'sim'], r):
                lib_cases.append({'model': model, 'ops': list(ops)})
    from ..core.engine import Part
    WORKERS['library'] = w_library
    return {
        'parts': [Part('library', lib_cases, w_library,
                       'two models from one ModelLibrary object, the first one '
                       'configured by every sequence of <= 2 operations before the '
                       'second is requested')],
        'searches': searches,
        'bounds': {'depth': 3 if tier == 'quick' else '10 (search stops at closure: no new canonical state)',
                   'ops': _ops('chain2'), 'seeds': seeds},
        'rule': 'BFS over all histories up to the depth bound from every seed; a '
                'history is extended only if its canonical observation (reported '
                'configuration + probe simulation rounded to 7 digits + reference '
                'machine state) is new; states = distinct canonical observations',
        'exhaustive': True,
        'assumptions': ['RefSimulation stands in for myokit/CVODES (DESIGN §2.1)',
                        'canonicalisation merges histories with equal observations '
                        'and equal reference-machine state; futures of the real '
                        'object may still differ through unobserved fields -- the '
                        'differential oracle (1) is what looks for those'],
    }


META = {
    'technique': 'explicit-state breadth-first search over configuration histories on '
                 'the real PKPDModel (fresh object + replay, canonical-observation '
                 'dedup) with a last-writer-wins reference machine and a '
                 'fresh-model differential oracle',
    'level_text': 'All histories over 13-14 configuration operations (administration '
                  'direct/indirect/other compartment, two regimens, two output '
                  'selections, renames, sensitivities on/off, simulate, copy and '
                  'continue on copy / on original) up to depth 3 (quick) or 4 from '
                  'four seeds are executed; in every state report/behaviour '
                  'consistency against a freshly configured model, the reported '
                  'fields against the reference machine, and copy independence are '
                  'checked.',
    'level_note': 'Depth-bounded (bound reported in evidence). Runs on RefSimulation. '
                  'Which renames survive an administration change is not specified: '
                  'whatever is reported is taken as the net configuration.',
}
META['level_text'] += (
    ' Also: a plain SBMLModel under the parameter-fixing wrapper (flags as bool / n'
    'umpy bool / integer), outputs in the dose compartment and refused calls, zero-'
    'amount regimens, two models handed out by one ModelLibrary object.')
META['level_text'] += (' Wave 9: route-history oracle (an indirect route set just before the last direct one does not change the model, names included).')
