"""C20 — figures faithfully render the supplied data and prediction bands.

Shape (A): (data) frames built from subsets of IDs {1, 2, 'a'} x 1-2 observables x time
multisets x values with ties / NaN x dose rows x column keys x every row permutation
(<= 4 rows) or block permutation, for the four time-series / predictive figure classes:
the traces decoded from fig.data must be one marker trace per individual holding
exactly that individual's (time, value) pairs (as multisets) and, in the dose panel,
exactly its dose rows. (bands) every multiset of 1..6 samples over a 4-value alphabet
per time point x bulk probabilities on the lattice 0.1..0.9 singly and in nested
pairs / triples: when both limits of a band exist they are sample values, the closed
interval holds >= p*n samples, and bands are nested for increasing p. The caller's
frames are unchanged."""
import itertools
import math

import numpy as np
import pandas as pd

import chi
import chi.plots

from ..core import tol
from ..core.engine import Part, key_of

PROPERTY = 'C20'
CLASSES = {'PDTS': 'PDTimeSeriesPlot', 'PKTS': 'PKTimeSeriesPlot',
           'PDPP': 'PDPredictivePlot', 'PKPP': 'PKPredictivePlot'}


def _num(x):
    return None if x is None or (isinstance(x, float) and math.isnan(x)) else x


def _pairs(xs, ys):
    out = []
    for a, b in zip(list(xs), list(ys)):
        a = float(a)
        b = float(b)
        out.append((a, 'nan' if math.isnan(b) else round(b, 12)))
    return sorted(out, key=lambda p: (p[0], str(p[1])))


def make_frame(case):
    rows = []
    for r in case['rows']:
        rows.append({'ID': r[0], 'Time': r[1], 'Observable': r[2],
                     'Value': np.nan if r[3] is None else r[3],
                     'Dose': np.nan if r[4] is None else r[4],
                     'Duration': np.nan if r[5] is None else r[5]})
    df = pd.DataFrame(rows, columns=['ID', 'Time', 'Observable', 'Value', 'Dose',
                                     'Duration'])
    keys = {}
    if case.get('custom_keys'):
        df = df.rename(columns={'ID': 'Who', 'Time': 'T', 'Observable': 'What',
                                'Value': 'Y', 'Dose': 'Amt', 'Duration': 'Len'})
        keys = {'id_key': 'Who', 'time_key': 'T', 'obs_key': 'What',
                'value_key': 'Y'}
        if case['cls'] in ('PKTS', 'PKPP'):
            keys.update({'dose_key': 'Amt', 'dose_duration_key': 'Len'})
    if case['cls'] in ('PDTS', 'PDPP') and not case.get('keep_dose_cols'):
        df = df.drop(columns=[c for c in df.columns if c in (
            'Dose', 'Duration', 'Amt', 'Len')])
    # row labels as left behind by concatenating / filtering frames
    ix = case.get('index', 'range')
    if ix == 'dup':
        df.index = [i % 2 for i in range(len(df))]
    elif ix == 'zeros':
        df.index = [0] * len(df)
    elif ix == 'reversed':
        df.index = list(range(len(df)))[::-1]
    elif ix == 'labels':
        df.index = ['r%d' % ((7 * i) % len(df)) for i in range(len(df))]
    return df, keys


def w_data(case):
    viol = []
    df, keys = make_frame(case)
    before = df.copy(deep=True)
    cls = getattr(chi.plots, CLASSES[case['cls']])
    fig = cls()
    obs = case['observable']
    lab = '%s observable=%s' % (CLASSES[case['cls']], obs)
    n0 = 0
    if case.get('earlier_frame'):
        # another frame (the same individuals' labels, other values and other dose
        # rows) was added to the figure before
        c0 = dict(case)
        c0['rows'] = [[r[0], r[1], r[2], None if r[3] is None else r[3] + 10.0,
                       None if r[4] is None else r[4] + 5.0, r[5]]
                      for r in case['rows']]
        df0, keys0 = make_frame(c0)
        fig.add_data(df0, observable=obs, **keys0)
        n0 = len(fig._fig.data)
    try:
        fig.add_data(df, observable=obs, **keys)
    except Exception as e:
        import traceback
        ids = sorted(set(type(r[0]).__name__ for r in case['rows']))
        beh = 'add_data_raise:' + type(e).__name__
        if isinstance(e, TypeError) and '%d format' in str(e) and 'str' in ids:
            beh = 'string_id_format'
        return {'transitions': 1, 'outcome': 'raise', 'violations': [{
            'sub': 'raise', 'message': 'add_data raises for a valid data frame '
            '(%s): %s: %s' % (lab, type(e).__name__, str(e)[:100]),
            'expected': 'figure', 'observed': traceback.format_exc()[-400:],
            'behaviour': beh}]}
    if not before.equals(df) or list(before.columns) != list(df.columns):
        viol.append({'sub': 'frame', 'message': 'plotting altered the caller\'s '
                     'data frame (%s)' % lab, 'expected': 'unchanged',
                     'observed': 'changed', 'behaviour': 'frame_mutated'})
    # expected traces
    chosen = obs if obs is not None else [r[2] for r in case['rows']
                                          if r[2] is not None][0]
    ids = []
    for r in case['rows']:
        if r[2] == chosen and r[0] not in ids:
            ids.append(r[0])
    want = {}
    want_dose = {}
    for _id in ids:
        want[str(_id)] = _pairs(
            [r[1] for r in case['rows'] if r[0] == _id and r[2] == chosen],
            [np.nan if r[3] is None else r[3] for r in case['rows']
             if r[0] == _id and r[2] == chosen])
        want_dose[str(_id)] = _pairs(
            [r[1] for r in case['rows'] if r[0] == _id and r[4] is not None],
            [r[4] for r in case['rows'] if r[0] == _id and r[4] is not None])
    got, got_dose = {}, {}
    pk = case['cls'] in ('PKTS', 'PKPP')
    for tr in fig._fig.data[n0:]:
        name = str(tr.name)
        if not name.startswith('ID: '):
            continue
        key = name[4:]
        xs = [] if tr.x is None else list(tr.x)
        ys = [] if tr.y is None else list(tr.y)
        target = got
        if pk and (tr.yaxis in (None, 'y')):
            target = got_dose
        if key in target:
            viol.append({'sub': 'dup_trace', 'message': 'more than one trace for '
                         'an individual (%s)' % lab, 'expected': 'one',
                         'observed': key, 'behaviour': 'dup_trace'})
        target[key] = _pairs(xs, ys)
        if target is got and tr.mode != 'markers':
            viol.append({'sub': 'mode', 'message': 'data trace is not a marker '
                         'trace', 'expected': 'markers', 'observed': tr.mode})
    if got != want:
        viol.append({'sub': 'traces', 'message': 'marker traces do not hold '
                     'exactly each individual\'s (time, value) pairs of the '
                     'chosen observable (%s)' % lab, 'expected': want,
                     'observed': got, 'behaviour': 'data_traces'})
    if pk and got_dose != want_dose:
        viol.append({'sub': 'dose_traces', 'message': 'dose panel does not hold '
                     'exactly each individual\'s dose rows (%s)' % lab,
                     'expected': want_dose, 'observed': got_dose,
                     'behaviour': 'dose_traces'})
    return {'transitions': 2, 'outcome': key_of([case['cls'], got, got_dose]),
            'violations': viol}


def w_bands(case):
    viol = []
    rows = []
    for t, samples in case['samples']:
        for v in samples:
            rows.append({'Time': t, 'Observable': 'x', 'Value': v,
                         'Dose': np.nan, 'Duration': np.nan})
    # row order: time blocks ascending / descending / rows interleaved
    ro = case.get('row_order', 'asc')
    if ro == 'desc':
        rows = rows[::-1]
    elif ro == 'interleaved':
        rows = rows[1::2] + rows[0::2]
    if case.get('nan_rows'):
        # samples with a missing value
        for t, _ in case['samples']:
            rows.insert(len(rows) // 2, {'Time': t, 'Observable': 'x',
                                         'Value': np.nan, 'Dose': np.nan,
                                         'Duration': np.nan})
    if not case.get('single_obs'):
        # an unrelated observable must not leak into the bands
        rows.append({'Time': case['samples'][0][0], 'Observable': 'other',
                     'Value': 99.0, 'Dose': np.nan, 'Duration': np.nan})
    df = pd.DataFrame(rows)
    if case.get('single_obs') and case['cls'] == 'PDPP':
        df = df.drop(columns=['Dose', 'Duration'])
    before = df.copy(deep=True)
    cls = getattr(chi.plots, CLASSES[case['cls']])
    fig = cls()
    probs = case['probs']
    ix = case.get('index', 'range')
    if ix == 'dup':
        df.index = [i % 2 for i in range(len(df))]
        before = df.copy(deep=True)
    elif ix == 'reversed':
        df.index = list(range(len(df)))[::-1]
        before = df.copy(deep=True)
    if case.get('earlier'):
        # an earlier prediction on the same figure: same observable, probabilities
        # and number of rows, other sample values
        rows0 = []
        for (t, samples), (_, other) in zip(case['samples'], case['earlier']):
            for v in other:
                rows0.append({'Time': t, 'Observable': 'x', 'Value': v,
                              'Dose': np.nan, 'Duration': np.nan})
        rows0.append({'Time': case['samples'][0][0], 'Observable': 'other',
                      'Value': 55.0, 'Dose': np.nan, 'Duration': np.nan})
        fig.add_prediction(pd.DataFrame(rows0), observable='x',
                           bulk_probs=list(probs))
        n_before = len(fig._fig.data)
    else:
        n_before = 0
    fig.add_prediction(df, observable='x', bulk_probs=list(probs))
    if not before.equals(df):
        viol.append({'sub': 'frame', 'message': 'add_prediction altered the '
                     'caller\'s data frame', 'expected': 'unchanged',
                     'observed': 'changed', 'behaviour': 'frame_mutated'})
    times = [t for t, _ in case['samples']]
    bands = {}
    for tr in fig._fig.data[n_before:]:
        if tr.fill != 'toself':
            continue
        p = float(str(tr.text).split()[0])
        xs, ys = list(tr.x), list(tr.y)
        k = len(xs) // 2
        upper = dict(zip(xs[:k], ys[:k]))
        lower = dict(zip(xs[k:][::-1], ys[k:][::-1]))
        bands[p] = (lower, upper)
    if sorted(bands) != sorted(float(p) for p in probs):
        viol.append({'sub': 'n_bands', 'message': 'not one band per requested '
                     'bulk probability', 'expected': sorted(probs),
                     'observed': sorted(bands), 'behaviour': 'n_bands'})
        return {'transitions': 1, 'outcome': 'n_bands', 'violations': viol}
    for t, samples in case['samples']:
        n = len(samples)
        prev = None
        for p in sorted(bands):
            lo, up = bands[p][0].get(t), bands[p][1].get(t)
            lo = None if lo is None or (isinstance(lo, float) and math.isnan(lo)) \
                else float(lo)
            up = None if up is None or (isinstance(up, float) and math.isnan(up)) \
                else float(up)
            if lo is not None and up is not None:
                if lo not in samples or up not in samples:
                    viol.append({'sub': 'limits', 'message': 'band limits are not '
                                 'sample values', 'expected': samples,
                                 'observed': [lo, up], 'behaviour': 'band_limits'})
                inside = sum(1 for v in samples if lo <= v <= up)
                if inside < p * n - 1e-9:
                    viol.append({
                        'sub': 'coverage', 'message': 'the band for bulk '
                        'probability %s encloses %d of %d samples (< p*n)'
                        % (p, inside, n), 'samples': samples,
                        'expected': '>= %.3f' % (p * n), 'observed': [lo, up],
                        'behaviour': 'band_coverage'})
            if prev is not None:
                plo, pup = prev
                if (plo is not None and lo is not None and lo > plo + 1e-12) or \
                        (pup is not None and up is not None and up < pup - 1e-12):
                    viol.append({'sub': 'nested', 'message': 'bands are not nested '
                                 'for increasing bulk probabilities',
                                 'samples': samples, 'expected': 'nested',
                                 'observed': {'p': p, 'band': [lo, up],
                                              'smaller': [plo, pup]},
                                 'behaviour': 'band_nested'})
            prev = (lo, up)
    return {'transitions': 1, 'outcome': key_of([case['samples'], tol.rnd([
        [bands[p][0].get(t), bands[p][1].get(t)] for p in sorted(bands)
        for t in times])]), 'violations': viol}


def w_simulation(case):
    """PDTimeSeriesPlot.add_simulation: one line trace holding exactly the given
    (time, value) pairs; the caller's frame is left alone."""
    viol = []
    t = list(case['times'])
    v = list(case['values'])
    df = pd.DataFrame({'Time': t, 'Value': v})
    if case.get('extra_col'):
        df.insert(0, 'Comment', ['c%d' % i for i in range(len(df))])
    ix = case.get('index', 'range')
    if ix == 'reversed':
        df.index = list(range(len(df)))[::-1]
    elif ix == 'dup':
        df.index = [i % 2 for i in range(len(df))]
    elif ix == 'labels':
        df.index = ['r%d' % i for i in range(len(df))]
    keys = {}
    if case.get('custom_keys'):
        df = df.rename(columns={'Time': 'T', 'Value': 'Y'})
        keys = {'time_key': 'T', 'value_key': 'Y'}
    before = df.copy(deep=True)
    fig = chi.plots.PDTimeSeriesPlot()
    n0 = len(fig._fig.data)
    fig.add_simulation(df, **keys)
    if not before.equals(df) or list(before.index) != list(df.index) or \
            list(before.columns) != list(df.columns):
        viol.append({'sub': 'frame', 'message': 'add_simulation altered the '
                     'caller\'s data frame', 'expected': 'unchanged',
                     'observed': 'changed', 'behaviour': 'frame_mutated'})
    new = fig._fig.data[n0:]
    if len(new) != 1:
        viol.append({'sub': 'sim_traces', 'message': 'add_simulation does not add '
                     'exactly one trace', 'expected': 1, 'observed': len(new),
                     'behaviour': 'sim_traces'})
    else:
        got = sorted(zip([float(x_) for x_ in new[0].x],
                         [float(y_) for y_ in new[0].y]))
        exp = sorted(zip([float(x_) for x_ in t], [float(y_) for y_ in v]))
        if got != exp:
            viol.append({'sub': 'sim_pairs', 'message': 'the simulation trace does '
                         'not hold exactly the supplied (time, value) pairs',
                         'expected': exp, 'observed': got,
                         'behaviour': 'sim_pairs'})
    return {'transitions': 2, 'outcome': key_of(case), 'violations': viol}


WORKERS = {'data': w_data, 'bands': w_bands, 'simulation': w_simulation}


def build(tier, seed):
    data = []
    # (0 is an identifier like any other)
    id_sets = [[1], [2, 1], ['a', 1], [1, 2, 'a'], [0, 1], [1, 0, 2]] \
        if tier == 'thorough' else [[1], [2, 1], ['a', 1], [1, 0]]
    for cls in CLASSES:
        for ids in id_sets:
            for n_obs, undosed_last in ((1, False), (2, False), (1, True)):
                if undosed_last and (cls not in ('PKTS', 'PKPP') or len(ids) < 2):
                    continue
                base = []
                for k, _id in enumerate(ids):
                    # time multiset with a tie, values with a tie and a NaN
                    base.append([_id, 0.5, 'A', 1.5 + k, None, None])
                    base.append([_id, 0.5 + k, 'A', 1.5 + k, None, None])
                    if k == 0:
                        base.append([_id, 2.0, 'A', None, None, None])
                    if n_obs == 2:
                        base.append([_id, 1.0 + k, 'B', 7.0 + k, None, None])
                    if cls in ('PKTS', 'PKPP') and not (undosed_last and
                                                        k == len(ids) - 1):
                        base.append([_id, 0.0, None, None, 2.0 + k, 0.5])
                        if k == 1:
                            base.append([_id, 1.0, None, None, 3.0, 0.25])
                        # a measurement recorded in the same row as a dose
                        base.append([_id, 3.0, 'A', 0.4 + k, 1.0 + k, 0.1])
                        # a dose row without duration (bolus by default)
                        base.append([_id, 2.5, None, None, 0.7 + k, None])
                n = len(base)
                if n <= 4:
                    orders = list(itertools.permutations(range(n)))
                else:
                    ident = list(range(n))
                    orders = [ident, ident[::-1], ident[1::2] + ident[0::2],
                              ident[n // 2:] + ident[:n // 2]]
                for order in orders:
                    for obs in ([None, 'A', 'B'] if n_obs == 2 else [None, 'A']):
                        for ck in (False, True):
                            if ck and tier == 'quick' and order != orders[0]:
                                continue
                            for ix in (('range', 'dup', 'zeros', 'reversed',
                                        'labels') if order == orders[0] or
                                       tier == 'thorough' else ('range',)):
                                data.append({'cls': cls, 'rows': [base[i] for i in
                                                                  order],
                                             'observable': obs, 'custom_keys': ck,
                                             'index': ix})
    # many individuals (more than any colour palette holds), an individual with
    # dose rows of amount zero
    for cls in CLASSES:
        rows13 = []
        for k in range(13):
            rows13.append([100 + k, 0.5 + 0.1 * k, 'A', 1.0 + 0.2 * k, None, None])
            rows13.append([100 + k, 1.5, 'A', 2.0 + 0.1 * k, None, None])
            if cls in ('PKTS', 'PKPP'):
                rows13.append([100 + k, 0.0, None, None,
                               0.0 if k % 4 == 1 else 1.0 + k, 0.5])
                if k % 4 == 1:
                    rows13.append([100 + k, 1.0, None, None, 0.0, None])
        for order in (list(range(len(rows13))), list(range(len(rows13)))[::-1]):
            data.append({'cls': cls, 'rows': [rows13[i] for i in order],
                         'observable': 'A', 'custom_keys': False})
    # a second frame added to a figure that already shows the same individuals
    extra_hist = []
    for c_ in data:
        if c_.get('index', 'range') == 'range' and not c_.get('custom_keys') and \
                len(c_['rows']) >= 4 and len(extra_hist) < 200:
            c2 = dict(c_)
            c2['earlier_frame'] = True
            extra_hist.append(c2)
    data += extra_hist[::2]
    # PD figures fed with a PKPD dataset: rows without an observable label (dose
    # rows, one individual has nothing else) are no measurements
    for cls in ('PDTS', 'PDPP'):
        for n_obs in (1, 2):
            rows_pd = []
            for k, _id in enumerate([1, 2, 3]):
                if k < 2:
                    rows_pd.append([_id, 0.5 + k, 'A', 1.5 + k, None, None])
                    rows_pd.append([_id, 2.5, 'A', 37.2 + k, None, None])
                    if n_obs == 2:
                        rows_pd.append([_id, 1.0, 'B', 7.0 + k, None, None])
                rows_pd.append([_id, 0.0, None, None, 2.0 + k, 0.5])
                rows_pd.append([_id, 2.5, None, 4.4, None, None])
            n_ = len(rows_pd)
            for order in (list(range(n_)), list(range(n_))[::-1],
                          list(range(1, n_, 2)) + list(range(0, n_, 2))):
                for obs in (None, 'A'):
                    if obs is None and order[0] != 0:
                        continue      # (the default is the first label met)
                    for keep in (False, True):
                        data.append({'cls': cls, 'rows': [rows_pd[i] for i in order],
                                     'observable': obs, 'custom_keys': False,
                                     'keep_dose_cols': keep})
    # small frames: every row permutation
    small = [[1, 0.5, 'A', 2.0, None, None], [2, 0.5, 'A', 2.0, None, None],
             [1, 1.5, 'B', 3.0, None, None], [2, 1.0, 'A', 1.0, None, None]]
    for cls in ('PDTS', 'PDPP'):
        for order in itertools.permutations(range(4)):
            data.append({'cls': cls, 'rows': [small[i] for i in order],
                         'observable': 'A', 'custom_keys': False})
    bands = []
    alphabet = [1.0, 2.0, 3.5, 5.0]
    lattice = [round(0.1 * k, 1) for k in range(1, 10)]
    prob_sets = [[p] for p in lattice]
    prob_sets += [list(c) for c in itertools.combinations(lattice, 2)]
    if tier == 'thorough':
        prob_sets += [list(c) for c in itertools.combinations(lattice[::2], 3)]
    max_n = 4 if tier == 'quick' else 6
    multisets = []
    for n in range(1, max_n + 1):
        multisets += [list(c) for c in itertools.combinations_with_replacement(
            alphabet, n)]
    for cls in ('PDPP', 'PKPP'):
        for i, ms in enumerate(multisets):
            for j, ps in enumerate(prob_sets):
                if tier == 'quick' and (i + j) % 3:
                    continue
                second = multisets[(i * 7 + 3) % len(multisets)]
                c = {'cls': cls, 'probs': ps,
                     'samples': [[0.5, ms], [1.5, second]],
                     'row_order': ['asc', 'desc', 'interleaved'][(i + 2 * j) % 3],
                     'index': ['range', 'dup', 'reversed'][(i + j) % 3]}
                if (i + j) % 2:
                    # same numbers of samples per time point, other values
                    shift = [[0.5, [v + 10.0 for v in ms]],
                             [1.5, [v * 3.0 for v in second]]]
                    c['earlier'] = shift
                bands.append(c)
    # larger sample sets with different numbers of samples per time point, frames
    # holding only the plotted observable, missing sample values
    for cls in ('PDPP', 'PKPP'):
        for n0, n1 in ((10, 20), (20, 10), (7, 13), (13, 7), (25, 25)):
            for ps in ([0.5], [0.9], [0.3, 0.6, 0.9], [0.1, 0.8]):
                for k_, (single, nan_rows) in enumerate(
                        ((False, False), (True, False), (True, True),
                         (False, True))):
                    bands.append({
                        'cls': cls, 'probs': ps, 'single_obs': single,
                        'nan_rows': nan_rows,
                        'samples': [[0.5, [float(v) for v in range(1, n0 + 1)]],
                                    [1.5, [0.5 * v for v in range(1, n1 + 1)]]],
                        'row_order': ['asc', 'desc', 'interleaved'][k_ % 3]})
    # a few hundred samples per time point and bulk probabilities whose percentiles
    # have more than two decimals
    for cls in ('PDPP', 'PKPP'):
        for n_s in (200, 333):
            for ps in ([0.95], [0.99], [0.305], [0.9, 0.95, 0.99], [0.125, 0.875]):
                bands.append({
                    'cls': cls, 'probs': ps,
                    'samples': [[0.5, [0.37 * v_ for v_ in range(1, n_s + 1)]],
                                [1.5, [100.0 - 0.21 * v_ for v_ in range(n_s)]]],
                    'row_order': 'interleaved'})
    # bulk probabilities given in decreasing / arbitrary order
    for cls in ('PDPP', 'PKPP'):
        for ps in ([0.9, 0.5], [0.8, 0.2], [0.6, 0.9, 0.3], [0.5, 0.9, 0.7, 0.1],
                   [0.3, 0.9, 0.6]):
            for n0, n1 in ((10, 20), (13, 7)):
                for ro in ('asc', 'interleaved'):
                    bands.append({
                        'cls': cls, 'probs': ps,
                        'samples': [[0.5, [float(v) for v in range(1, n0 + 1)]],
                                    [1.5, [0.5 * v for v in range(1, n1 + 1)]]],
                        'row_order': ro})
    # samples piling up on a lower / upper limit (censored or rounded values): many
    # ties towards the tails
    for cls in ('PDPP', 'PKPP'):
        for n_lo, n_mid, n_hi in ((6, 3, 7), (0, 4, 12), (12, 4, 0), (5, 0, 5),
                                  (9, 1, 2), (3, 10, 3)):
            for ps in ([0.2], [0.5], [0.8], [0.2, 0.6], [0.1, 0.9]):
                s0 = [1.0] * n_lo + [2.0 + 0.5 * k_ for k_ in range(n_mid)] + \
                    [9.0] * n_hi
                s1 = [0.5] * n_hi + [1.0 + 0.25 * k_ for k_ in range(n_mid)] + \
                    [7.0] * n_lo
                bands.append({'cls': cls, 'probs': ps,
                              'samples': [[0.5, s0], [1.5, s1]],
                              'row_order': ['asc', 'desc', 'interleaved'][
                                  (n_lo + len(ps)) % 3]})
    # distinct time points that differ only far behind the decimal point
    for cls in ('PDPP', 'PKPP'):
        for t0, dt in ((10000.0, 0.005), (1.0, 1e-9), (250.0, 1e-4)):
            for ps in ([0.5], [0.9], [0.3, 0.8]):
                bands.append({
                    'cls': cls, 'probs': ps,
                    'samples': [[t0, [float(v) for v in range(1, 11)]],
                                [t0 + dt, [100.0 + v for v in range(1, 31)]],
                                [t0 + 2 * dt, [1000.0 + v for v in range(1, 21)]]],
                    'row_order': 'asc'})
    sims = []
    base_t = [0.0, 0.5, 1.0, 1.5, 2.5]
    base_v = [1.0, 3.5, 2.0, 2.0, 0.7]
    for n in (1, 2, 3, 5):
        orders_ = list(itertools.permutations(range(n))) if n <= 3 else [
            tuple(range(5)), (4, 3, 2, 1, 0), (0, 2, 4, 1, 3), (0, 1, 2, 4, 3),
            # a refinement grid appended to a coarse one
            (0, 2, 4, 1, 3)[::-1]]
        for o in orders_:
            for ix in ('range', 'reversed', 'dup', 'labels'):
                for ck, extra in ((False, False), (True, False), (False, True)):
                    sims.append({'times': [base_t[i] for i in o],
                                 'values': [base_v[i] for i in o], 'index': ix,
                                 'custom_keys': ck, 'extra_col': extra})
    # tied times
    for ix in ('range', 'reversed'):
        sims.append({'times': [1.0, 0.5, 1.0, 0.5], 'values': [2.0, 1.0, 3.0, 1.0],
                     'index': ix})
    return {
        'parts': [
            Part('simulation', sims, w_simulation,
                 'PDTimeSeriesPlot.add_simulation: time orders x row labels x keys'),
            Part('data', data, w_data, 'figure class x ID sets x observables x row '
                 'orders x keys'),
            Part('bands', bands, w_bands, 'sample multisets x bulk probabilities'),
        ],
        'bounds': {'ids': id_sets, 'sample_alphabet': alphabet,
                   'max_samples_per_time': max_n, 'prob_lattice': lattice},
        'rule': 'all multisets of 1..%d samples over a 4-value alphabet x all single '
                'and paired bulk probabilities of the lattice (a third of the '
                'product in quick); all row permutations for <= 4 rows; distinct = '
                'distinct decoded traces' % max_n,
        'min_outcomes': {'data': 10, 'bands': 50},
        'assumptions': ['traces are read from the plotly figure object (no '
                        'rendering)'],
    }


META = {
    'technique': 'bounded exhaustive enumeration of data frames and sample multisets; '
                 'decoding of the plotly traces and comparison with the multiset of '
                 'supplied rows / order-statistics properties of the bands',
    'level_text': 'For the four figure classes: frames with int / string IDs, 1-2 '
                  'observables, tied times and values, NaN values, dose rows, custom '
                  'keys, every row permutation (<=4 rows) or block permutations -- '
                  'traces must hold exactly each individual\'s pairs / dose rows. '
                  'Every multiset of 1..6 samples over a 4-value alphabet with every '
                  'single, pair and triple of bulk probabilities on 0.1..0.9: limits '
                  'are sample values, enclose >= p*n samples, bands nested. Caller '
                  'frames unchanged.',
    'level_note': 'Exhaustive within the stated alphabets; figures are inspected as '
                  'objects, not rendered.',
}
META['level_text'] += (
    ' Also: PDTimeSeriesPlot.add_simulation over time orders x row labels x keys; s'
    'amples piling up on limits; a few hundred samples with fine percentiles; bulk '
    'probabilities in arbitrary order; PD figures fed with PKPD frames.')
