"""C08 — fixing parameters is exact substitution, reversible and order-independent.

Shape (B), to closure: for every reducible object the abstract state is the map
parameter -> {free, v1, v2} (3^n states). Breadth-first search over histories of
fix / re-fix / release calls (single- and two-key dictionaries) interleaved with
evaluations at another point (they rewrite the shared value buffers); a history is
extended only if its abstract state is new, so every (state, operation) pair is
executed. In every state: names / counts = free parameters in original order; value,
pointwise values, seeded samples and sensitivities restricted to the free parameters
equal the UNFIXED object at the substituted vector (differential, chi against chi);
the all-free state is indistinguishable from the unwrapped object."""
import itertools

import numpy as np
import pints

import chi
import chi.library

from ..core import tol, vals
from ..core.engine import bfs, key_of
from ..gen import hier, popbuild, popvals
from ..gen.toymodel import ToyModel
from ..ref import errors as rerr, populations as rp

PROPERTY = 'C08'
V1, V2 = 1.0, 2.0   # multipliers of the base value: v1 = base*1.1, v2 = base*0.8


# ------------------------------------------------------------------ adapters

class Adapter(object):
    """Wraps one reducible object kind. `names` are the full parameter names,
    `base` generic in-support values."""
    def fix(self, obj, d):
        obj.fix_parameters(d)

    def names_of(self, obj):
        return list(obj.get_parameter_names())

    def n_of(self, obj):
        return obj.n_parameters()

    def n_fixed(self, obj):
        return None

    # how a user duplicates the object (None: no supported way)
    copy = None


class ErrAdapter(Adapter):
    def __init__(self, code):
        self.code = code
        self.names = rerr.DEFAULT_NAMES[code]
        self.base = [0.5, 0.2][:len(self.names)]
        self.ybar = np.array([1.3, 2.1, 0.8])
        self.y = np.array([1.1, 2.6, 0.9])
        self.S = np.array([[0.3, -0.2], [0.5, 0.1], [-0.4, 0.7]])

    def make(self):
        return chi.ReducedErrorModel(getattr(chi, rerr.CHI_CLASS[self.code])())

    def n_fixed(self, obj):
        return obj.n_fixed_parameters()

    def observe(self, obj, x, free_idx):
        ll = obj.compute_log_likelihood(list(x), self.ybar, self.y)
        pw = obj.compute_pointwise_ll(list(x), self.ybar, self.y)
        s, g = obj.compute_sensitivities(list(x), self.ybar, self.S, self.y)
        smp = obj.sample(list(x), self.ybar, n_samples=2, seed=3)
        # a rejected value (first free parameter negative): same answer as the
        # unfixed model, restricted to the free parameters
        bad = [-abs(x[0])] + list(x[1:])
        sb, gb = obj.compute_sensitivities(bad, self.ybar, self.S, self.y)
        return {'ll': ll, 'pw': pw, 'score': s, 'grad': g, 'sample': smp,
                'score_rejected': sb, 'grad_rejected': gb}

    def copy(self, obj):
        import copy
        return copy.deepcopy(obj)

    def reference(self, full, free_idx):
        m = getattr(chi, rerr.CHI_CLASS[self.code])()
        s, g = m.compute_sensitivities(list(full), self.ybar, self.S, self.y)
        keep = [0, 1] + [2 + i for i in free_idx]
        bad = list(full)
        bad[free_idx[0]] = -abs(bad[free_idx[0]])
        sb, gb = m.compute_sensitivities(bad, self.ybar, self.S, self.y)
        return {'ll': m.compute_log_likelihood(list(full), self.ybar, self.y),
                'pw': m.compute_pointwise_ll(list(full), self.ybar, self.y),
                'score': s, 'grad': np.asarray(g)[keep],
                'sample': m.sample(list(full), self.ybar, n_samples=2, seed=3),
                'score_rejected': sb, 'grad_rejected': np.asarray(gb)[keep]}


class MechAdapter(Adapter):
    def __init__(self, kind):
        # '<kind>:sens': sensitivities are enabled once at creation and never
        # toggled by the harness, so that fix/release calls have to keep the
        # selection of sensitivities up to date themselves
        self.keep_sens = kind.endswith(':sens')
        # '<kind>:regimen': a finite periodic regimen is (re-)set through the object
        # under test before every simulation
        self.regimen = ':regimen' in kind
        # '<kind>:outs': the same outputs are selected again through the object under
        # test before every simulation (documented to reset the sensitivities)
        self.outs = ':outs' in kind
        kind = kind.split(':')[0]
        self.kind = kind
        if kind == 'toy':
            self.names = ['p0', 'p1', 'p2']
        elif kind == 'sbmlren':
            # user-chosen names for two of the three parameters
            self.names = ['A0', 'central.size', 'k_e']
        else:
            self.names = ['central.drug_amount', 'central.size',
                          'global.elimination_rate']
        self.base = [0.9, 1.4, 0.6]
        self.times = [0.2, 1.0, 1.7]

    def _model(self):
        if self.kind == 'toy':
            return ToyModel(3, 2)
        m = chi.library.ModelLibrary().one_compartment_pk_model()
        m.set_administration('central')
        m.set_dosing_regimen(1.5, start=0.3, duration=0.4)
        m.set_outputs(['central.drug_amount', 'central.drug_concentration'])
        if self.kind == 'sbmlren':
            m.set_parameter_names({'central.drug_amount': 'A0',
                                   'global.elimination_rate': 'k_e'})
        return m

    def make(self):
        m = chi.ReducedMechanisticModel(self._model())
        if self.keep_sens:
            m.enable_sensitivities(True)
        return m

    def copy(self, obj):
        cp = obj.copy()
        if self.keep_sens:
            # documented: copying resets the sensitivity settings
            cp.enable_sensitivities(True)
        return cp

    def names_of(self, obj):
        return list(obj.parameters())

    def n_fixed(self, obj):
        return obj.n_fixed_parameters()

    REG = dict(dose=1.5, start=0.1, duration=0.2, period=0.4, num=2)

    def observe(self, obj, x, free_idx):
        if self.regimen:
            obj.set_dosing_regimen(**self.REG)
        after = {}
        if self.outs:
            obj.set_outputs(['central.drug_amount', 'central.drug_concentration'])
            r_ = obj.simulate(list(x), self.times)
            # number of sensitivity columns handed out right after the selection
            # (-1: none, the documented reset)
            after = {'S_cols_after_outputs':
                     [np.shape(r_[1])[2] if isinstance(r_, tuple) else -1]}
            obj.enable_sensitivities(False)
            y = obj.simulate(list(x), self.times)
            obj.enable_sensitivities(True)
            y2, S = obj.simulate(list(x), self.times)
            return dict({'y': y, 'y_s': y2, 'S': S}, **after)
        if self.keep_sens:
            y2, S = obj.simulate(list(x), self.times)
            return {'y': y2, 'y_s': y2, 'S': S}
        obj.enable_sensitivities(False)
        y = obj.simulate(list(x), self.times)
        obj.enable_sensitivities(True)
        y2, S = obj.simulate(list(x), self.times)
        return {'y': y, 'y_s': y2, 'S': S}

    def reference(self, full, free_idx):
        m = self._model()
        if self.regimen:
            m.set_dosing_regimen(**self.REG)
        y = m.simulate(list(full), self.times)
        m.enable_sensitivities(True)
        y2, S = m.simulate(list(full), self.times)
        ref = {'y': y, 'y_s': y2, 'S': np.asarray(S)[:, :, free_idx]}
        if self.outs:
            ref['S_cols_after_outputs'] = [-1]
        return ref


class PopAdapter(Adapter):
    def __init__(self, spec, n_ids, renamed=False):
        self.spec = spec
        self.n_ids = n_ids
        # renamed: dimension and covariate names are set on the WRAPPER after it was
        # created; parameters are then addressed by the names the wrapper reports
        self.renamed = renamed
        m = popbuild.build(spec, n_ids)
        self._rename(m)
        self.names = list(m.get_parameter_names())
        self.base = popvals.top_values(spec, n_ids, 0)
        self.cov = popvals.covariates(spec, n_ids, 0)
        self.obs = popvals.obs_values(spec, self.base, n_ids, self.cov, 0)
        self.c = np.array(vals.reals('c08.c', self.obs.size, -1, 1, 0)
                          ).reshape(self.obs.shape)
        # pooled / heterogeneous dims: observations must follow fixed values
        self.special = any(x is not None for x in rp.special(spec))

    def _rename(self, m):
        if self.renamed:
            m.set_dim_names(['d%s' % chr(97 + i) for i in range(m.n_dim())])
            if m.n_covariates():
                m.set_covariate_names(
                    ['c%s' % chr(97 + i) for i in range(m.n_covariates())])

    def make(self):
        m = chi.ReducedPopulationModel(popbuild.build(self.spec, self.n_ids))
        self._rename(m)
        return m

    def n_fixed(self, obj):
        return obj.n_fixed_parameters()

    def copy(self, obj):
        import copy
        return copy.deepcopy(obj)

    @staticmethod
    def _special(m):
        sd, n_p, n_h = m.get_special_dims()
        return [[int(v) for v in e[:4]] + [bool(e[4])] for e in sd], int(n_p), \
            int(n_h)

    def _obs(self, full):
        if not self.special:
            return self.obs
        return popvals.obs_values(self.spec, list(full), self.n_ids, self.cov, 0)

    def _kw(self):
        return {'covariates': self.cov} if self.cov is not None else {}

    def observe(self, obj, x, free_idx, full=None):
        obs = self._obs(full)
        kw = self._kw()
        ll = obj.compute_log_likelihood(np.array(x), obs, **kw)
        s, dpsi, dth = obj.compute_sensitivities(
            np.array(x), obs, dlogp_dpsi=self.c.copy(), **kw)
        s2, ds = obj.compute_sensitivities(
            np.array(x), obs, dlogp_dpsi=self.c.copy(), reduce=True, **kw)
        psi = obj.compute_individual_parameters(np.array(x), obs, **kw)
        smp = obj.sample(np.array(x), n_samples=self.n_ids, seed=5, **kw)
        sd, n_p, n_h = self._special(obj)
        return {'ll': ll, 'score': s, 'dpsi': dpsi, 'dtheta': dth, 'score_r': s2,
                'reduce': ds, 'psi': psi, 'sample': smp,
                'n_hier': list(obj.n_hierarchical_parameters(self.n_ids)),
                'special_dims': np.array(sd, dtype=float).flatten(),
                'n_special': [n_p, n_h]}

    def reference(self, full, free_idx):
        m = popbuild.build(self.spec, self.n_ids)
        obs = self._obs(full)
        kw = self._kw()
        full = np.array(full)
        s, dpsi, dth = m.compute_sensitivities(
            full, obs, dlogp_dpsi=self.c.copy(), **kw)
        s2, ds = m.compute_sensitivities(
            full, obs, dlogp_dpsi=self.c.copy(), reduce=True, **kw)
        nb = rp.n_bottom(self.spec, self.n_ids)
        # pooled / heterogeneous blocks: same dimensions, parameter positions
        # counted in the vector of free parameters
        sd, n_p, n_h = self._special(m)
        fixed_before = lambda p_: sum(1 for i in range(p_) if i not in free_idx)
        sd = [[e[0], e[1], e[2] - fixed_before(e[2]), e[3] - fixed_before(e[3]),
               e[4]] for e in sd]
        return {'special_dims': np.array(sd, dtype=float).flatten(),
                'n_special': [n_p, n_h],
                'll': m.compute_log_likelihood(full, obs, **kw), 'score': s,
                'dpsi': dpsi, 'dtheta': np.asarray(dth)[free_idx], 'score_r': s2,
                'reduce': np.concatenate(
                    (np.asarray(ds)[:nb], np.asarray(ds)[nb:][free_idx])),
                'psi': m.compute_individual_parameters(full, obs, **kw),
                'sample': m.sample(full, n_samples=self.n_ids, seed=5, **kw),
                'n_hier': [nb, len(free_idx)]}


class LLAdapter(Adapter):
    def __init__(self):
        self.names = ['p0', 'p1', 'Sigma base', 'Sigma rel.']
        self.base = [1.1, 0.7, 0.4, 0.15]

    def make(self):
        return chi.LogLikelihood(
            ToyModel(2, 1), chi.ConstantAndMultiplicativeGaussianErrorModel(),
            [2.2, 3.1, 1.7], [0.2, 0.9, 1.6])

    def observe(self, obj, x, free_idx):
        s, g = obj.evaluateS1(np.array(x))
        out = {'ll': obj(np.array(x)), 'pw': obj.compute_pointwise_ll(np.array(x)),
               'score': s, 'grad': g}
        # rejected error-model value (last free parameter negative, if it is one)
        if free_idx[-1] >= 2:
            bad = np.array(x)
            bad[-1] = -abs(bad[-1])
            out['score_rejected'], out['grad_rejected'] = obj.evaluateS1(bad)
        return out

    def reference(self, full, free_idx):
        m = self.make()
        s, g = m.evaluateS1(np.array(full))
        out = {'ll': m(np.array(full)),
               'pw': m.compute_pointwise_ll(np.array(full)), 'score': s,
               'grad': np.asarray(g)[free_idx]}
        if free_idx[-1] >= 2:
            bad = np.array(full)
            bad[free_idx[-1]] = -abs(bad[free_idx[-1]])
            sb, gb = m.evaluateS1(bad)
            out['score_rejected'], out['grad_rejected'] = \
                sb, np.asarray(gb)[free_idx]
        return out

    def copy(self, obj):
        import copy
        return copy.deepcopy(obj)

    def collapsed(self, obj):
        sub = obj._mechanistic_model, obj._error_models
        return not isinstance(sub[0], chi.ReducedMechanisticModel) and not any(
            isinstance(e, chi.ReducedErrorModel) for e in sub[1])


class PredAdapter(Adapter):
    def __init__(self):
        self.names = ['p0', 'p1', 'o0 Sigma', 'o1 Sigma rel.']
        self.base = [1.1, 0.7, 0.4, 0.15]
        self.times = [1.4, 0.3, 0.8]

    def make(self):
        return chi.PredictiveModel(ToyModel(2, 2), [
            chi.GaussianErrorModel(), chi.MultiplicativeGaussianErrorModel()])

    def observe(self, obj, x, free_idx):
        return {'sample': obj.sample(np.array(x), self.times, n_samples=2, seed=4,
                                     return_df=False)}

    def reference(self, full, free_idx):
        return {'sample': self.make().sample(
            np.array(full), self.times, n_samples=2, seed=4, return_df=False)}


class PopPredAdapter(Adapter):
    def __init__(self):
        self.spec = rp.Comp([rp.LN(1), rp.P(1), rp.G(1, False)])
        self.names = list(popbuild.build(self.spec, None).get_parameter_names())
        self.base = popvals.top_values(self.spec, 1, 0, positive=True)
        self.times = [1.4, 0.3, 0.8]

    def make(self):
        pm = chi.PredictiveModel(ToyModel(2, 1), [chi.GaussianErrorModel()])
        return chi.PopulationPredictiveModel(pm, popbuild.build(self.spec, None))

    def observe(self, obj, x, free_idx):
        return {'sample': obj.sample(np.array(x), self.times, n_samples=2, seed=4,
                                     return_df=False)}

    def reference(self, full, free_idx):
        return {'sample': self.make().sample(
            np.array(full), self.times, n_samples=2, seed=4, return_df=False)}


class CtrlAdapter(Adapter):
    """ProblemModellingController without population model."""
    def __init__(self):
        self.names = ['p0', 'p1', 'Sigma']
        self.base = [1.1, 0.7, 0.4]

    def make(self):
        import pandas as pd
        c = chi.ProblemModellingController(ToyModel(2, 1), chi.GaussianErrorModel())
        c.set_data(pd.DataFrame({
            'ID': [1, 1, 1], 'Time': [0.2, 0.9, 1.6], 'Observable': ['o0'] * 3,
            'Value': [2.2, 3.1, 1.7]}))
        return c

    def n_of(self, obj):
        return obj.get_n_parameters()

    def _post(self, obj, n):
        obj.set_log_prior(pints.ComposedLogPrior(*[
            pints.GaussianLogPrior(1.0, 3.0) for _ in range(n)]))
        return obj.get_log_posterior()

    def observe(self, obj, x, free_idx):
        post = self._post(obj, len(x))
        s, g = post.evaluateS1(np.array(x))
        return {'post': post(np.array(x)), 'score': s, 'grad': g,
                'post_names': list(post.get_parameter_names())}

    def reference(self, full, free_idx):
        post = self._post(self.make(), len(full))
        # prior of the reduced problem only covers the free parameters
        pri_all = sum(-0.5 * np.log(2 * np.pi) - np.log(3.0)
                      - (v - 1.0) ** 2 / 18.0 for v in full)
        pri_free = sum(-0.5 * np.log(2 * np.pi) - np.log(3.0)
                       - (full[i] - 1.0) ** 2 / 18.0 for i in free_idx)
        s, g = post.evaluateS1(np.array(full))
        return {'post': post(np.array(full)) - pri_all + pri_free,
                'score': s - pri_all + pri_free, 'grad': np.asarray(g)[free_idx],
                'post_names': [self.names[i] for i in free_idx]}


def adapter(kind):
    if kind.startswith('err:'):
        return ErrAdapter(kind[4:])
    if kind.startswith('mech:'):
        return MechAdapter(kind[5:])
    if kind.startswith('pop:'):
        key = kind[4:].split(':')[0]
        return PopAdapter(POP_SPECS[key][0], POP_SPECS[key][1],
                          renamed=kind.endswith(':renamed'))
    return {'ll': LLAdapter, 'pred': PredAdapter, 'poppred': PopPredAdapter,
            'ctrl': CtrlAdapter}[kind]()


POP_SPECS = {
    'G1': (rp.G(1), 2), 'Gnc2': (rp.G(2, False), 2), 'LN1': (rp.LN(1), 3),
    'TG1': (rp.TG(1), 2), 'P2': (rp.P(2), 2), 'H1': (rp.H(1), 2),
    'comp': (rp.Comp([rp.P(1), rp.H(1), rp.LN(1, False)]), 2),
    'cov': (rp.Cov(rp.G(1), 1), 2),
    'compcov': (rp.Comp([rp.Cov(rp.LN(1), 1), rp.P(1)]), 2),
    # a regular sub-model in front of a pooled and a heterogeneous block
    'gp': (rp.Comp([rp.G(1), rp.P(1), rp.H(1)]), 2),
}


# ------------------------------------------------------------------ worker

def value_of(ad, i, tag):
    return ad.base[i] * (1.1 if tag == 'v1' else 0.8)


def w_history(case):
    kind = case[0]
    history = case[1:]
    ad = adapter(kind)
    n = len(ad.names)
    obj = ad.make()
    state = ['free'] * n
    viol = []
    x_other = [b * 1.05 for b in ad.base]
    def check_state(o, st, tagname):
        # full comparison of object `o`, believed to be in abstract state `st`
        fr = [i for i in range(n) if st[i] == 'free']
        if ad.names_of(o) != [ad.names[i] for i in fr]:
            viol.append({'sub': tagname + '_names', 'message': 'names of the %s are '
                         'not its own free parameters (%s)' % (tagname, kind),
                         'history': history, 'expected': [ad.names[i] for i in fr],
                         'observed': ad.names_of(o), 'behaviour': tagname})
            return
        if not fr:
            return
        fl = [x_other[i] if st[i] == 'free' else value_of(ad, i, st[i])
              for i in range(n)]
        xs = [x_other[i] for i in fr]
        g_ = ad.observe(o, xs, fr, fl) if isinstance(ad, PopAdapter) \
            else ad.observe(o, xs, fr)
        e_ = ad.reference(fl, fr)
        for k in e_:
            if isinstance(e_[k], list) and e_[k] and isinstance(e_[k][0], str):
                ok = list(g_[k]) == e_[k]
            else:
                ok = tol.allclose(np.asarray(g_[k], dtype=float),
                                  np.asarray(e_[k], dtype=float), 1e-8, 1e-10)
            if not ok:
                viol.append({'sub': tagname + '_' + k, 'message': '%s of the %s of a '
                             'reduced %s differs from the unfixed object at its own '
                             'substituted vector' % (k, tagname, kind),
                             'history': history, 'expected': e_[k],
                             'observed': g_[k], 'behaviour': tagname})
                return

    for op in history:
        if op[0] in ('fork', 'forkswap'):
            # duplicate the object; one of the two receives a fix/release call and
            # is evaluated, the other one is carried on and must be unaffected
            cp = ad.copy(obj)
            st_cp = list(state)
            if op[0] == 'forkswap':
                obj, cp = cp, obj
            d = {}
            for i, tag in op[1][1]:
                d[ad.names[i]] = None if tag == 'free' else value_of(ad, i, tag)
                st_cp[i] = tag
            try:
                ad.fix(cp, d)
            except ValueError as e:
                if 'None of the parameters could be identified' in str(e) and \
                        all(s_ != 'free' for s_ in st_cp):
                    continue        # F-C08-all-fixed-sens, reported by the BFS
                raise
            check_state(cp, st_cp, 'copy' if op[0] == 'fork' else 'copied-from')
            continue
        if op[0] == 'eval':
            free = [i for i in range(n) if state[i] == 'free']
            full = [x_other[i] if state[i] == 'free' else value_of(ad, i, state[i])
                    for i in range(n)]
            if free:
                if isinstance(ad, PopAdapter):
                    ad.observe(obj, [x_other[i] for i in free], free, full)
                else:
                    ad.observe(obj, [x_other[i] for i in free], free)
            continue
        d = {}
        for i, tag in op[1]:
            d[ad.names[i]] = None if tag == 'free' else value_of(ad, i, tag)
            state[i] = tag
        try:
            ad.fix(obj, d)
        except ValueError as e:
            if 'None of the parameters could be identified' in str(e) and \
                    all(s_ != 'free' for s_ in state):
                # known finding F-C08-all-fixed-sens
                return {'state': 'EXC-all-fixed-sens', 'transitions': 1,
                        'outcome': 'raise', 'violations': [{
                            'sub': 'fix_all', 'message': 'fixing every parameter '
                            'of %s while sensitivities are enabled raises: %s'
                            % (kind, str(e)[:80]), 'history': history,
                            'expected': 'all parameters fixed',
                            'observed': repr(e)[:200],
                            'behaviour': 'all_fixed_sens'}]}
            raise
    lab = '%s %s' % (kind, history)
    free = [i for i in range(n) if state[i] == 'free']
    e_names = [ad.names[i] for i in free]
    g_names = ad.names_of(obj)
    if g_names != e_names or ad.n_of(obj) != len(free):
        viol.append({'sub': 'names', 'message': 'names / count are not the free '
                     'parameters in original order (%s)' % kind,
                     'history': history, 'expected': e_names,
                     'observed': [g_names, ad.n_of(obj)], 'behaviour': 'names'})
    # the list handed out is the caller's
    for getter in ('get_parameter_names', 'parameters'):
        if hasattr(obj, getter):
            raw = getattr(obj, getter)()
            if isinstance(raw, list):
                raw.append('appended by the caller')
                if list(getattr(obj, getter)()) != e_names and g_names == e_names:
                    viol.append({'sub': 'list_alias', 'message': 'the name list '
                                 'handed out by the reduced %s is its own list'
                                 % kind, 'history': history, 'expected': e_names,
                                 'observed': list(getattr(obj, getter)()),
                                 'behaviour': 'list_alias'})
            break
    nf = ad.n_fixed(obj)
    if nf is not None and nf != n - len(free):
        viol.append({'sub': 'n_fixed', 'message': 'n_fixed_parameters wrong (%s)'
                     % kind, 'history': history, 'expected': n - len(free),
                     'observed': nf, 'behaviour': 'n_fixed'})
    outcome = [state]
    if free and not viol:
        full = [ad.base[i] if state[i] == 'free' else value_of(ad, i, state[i])
                for i in range(n)]
        x = [ad.base[i] for i in free]
        if isinstance(ad, PopAdapter):
            got = ad.observe(obj, x, free, full)
        else:
            got = ad.observe(obj, x, free)
        exp = ad.reference(full, free)
        for k in exp:
            g, e = got[k], exp[k]
            if isinstance(e, list) and e and isinstance(e[0], str):
                ok = list(g) == e
            else:
                g = np.asarray(g, dtype=float)
                e = np.asarray(e, dtype=float)
                ok = g.shape == e.shape and tol.allclose(g, e, 1e-8, 1e-10)
            if not ok:
                viol.append({
                    'sub': 'subst_' + k, 'message': '%s of the reduced %s differs '
                    'from the unfixed object at the substituted vector'
                    % (k, kind), 'history': history, 'state': state,
                    'expected': e, 'observed': g, 'behaviour': 'subst_' + k})
        outcome.append(tol.rnd([np.asarray(got[k], dtype=float) for k in got
                                if not (isinstance(got[k], list) and got[k]
                                        and isinstance(got[k][0], str))], 8))
    if not free:
        outcome.append('all-fixed')
    if all(s == 'free' for s in state) and hasattr(ad, 'collapsed') \
            and not ad.collapsed(obj):
        viol.append({'sub': 'collapse', 'message': 'all-free %s still holds '
                     'reduced sub-models' % kind, 'history': history,
                     'expected': 'unwrapped', 'observed': 'wrapped',
                     'behaviour': 'collapse'})
    return {'state': key_of([kind, state]), 'transitions': len(history) + 3,
            'outcome': key_of(outcome), 'violations': viol}


def w_pop_nids(case):
    """Fixed population parameters are identified by NAME: fixing, then changing
    the number of individuals (which changes the parameter set of heterogeneous
    dimensions) keeps exactly the named parameters fixed."""
    spec = case['spec']
    a, b = case['n_before'], case['n_after']
    viol = []
    inner = popbuild.build(spec, a)
    red = chi.ReducedPopulationModel(inner)
    names_a = inner.get_parameter_names()
    fixed = {names_a[i]: v for i, v in case['fix']}
    if fixed:
        red.fix_parameters(dict(fixed))
    if case.get('release_first'):
        # everything released again before the number of individuals changes
        red.fix_parameters({n_: None for n_ in fixed})
        fixed = {}
    red.set_n_ids(b)
    full_names = inner.get_parameter_names()
    e_names = [n for n in full_names if n not in fixed]
    if red.get_parameter_names() != e_names or red.n_parameters() != len(e_names):
        viol.append({'sub': 'nids_names', 'message': 'after set_n_ids the reduced '
                     'population model does not list the parameters that were not '
                     'fixed by name', 'expected': e_names,
                     'observed': [red.get_parameter_names(), red.n_parameters()],
                     'behaviour': 'nids_names'})
    else:
        base = popvals.top_values(spec, b, 0)
        full = np.array([fixed.get(n, base[i]) for i, n in enumerate(full_names)])
        x = np.array([full[i] for i, n in enumerate(full_names) if n not in fixed])
        obs = popvals.obs_values(spec, list(full), b, None, 0)
        got = red.compute_log_likelihood(x, obs)
        exp = popbuild.build(spec, b).compute_log_likelihood(full, obs)
        if not tol.close(got, exp):
            viol.append({'sub': 'nids_subst', 'message': 'after set_n_ids the '
                         'reduced population model does not substitute the values '
                         'fixed by name', 'expected': exp, 'observed': got,
                         'behaviour': 'nids_subst'})
    return {'transitions': 4, 'outcome': key_of([case, red.get_parameter_names()]),
            'violations': viol}


def w_zero(case):
    """A parameter fixed at exactly 0 (0.0, integer 0, -0.0) is fixed: it leaves the
    names / counts, and the value is the unfixed object's at the substituted vector
    (compared by class where 0 is outside the support)."""
    kind, i, zero = case['kind'], case['index'], case['zero']
    ad = adapter(kind)
    n = len(ad.names)
    obj = ad.make()
    viol = []
    z = {'0.0': 0.0, '0': 0, '-0.0': -0.0}[zero]
    ad.fix(obj, {ad.names[i]: z})
    free = [j for j in range(n) if j != i]
    e_names = [ad.names[j] for j in free]
    if ad.names_of(obj) != e_names or ad.n_of(obj) != len(free):
        viol.append({'sub': 'zero_names', 'message': 'a parameter fixed at %s is '
                     'still listed as free (%s)' % (zero, kind),
                     'expected': e_names, 'observed': ad.names_of(obj),
                     'behaviour': 'zero_fix'})
    elif free:
        full = list(ad.base)
        full[i] = 0.0
        x = [ad.base[j] for j in free]
        import warnings
        with warnings.catch_warnings():
            warnings.simplefilter('ignore')
            try:
                got = ad.observe(obj, x, free, full) if isinstance(ad, PopAdapter) \
                    else ad.observe(obj, x, free)
                exp = ad.reference(full, free)
            except Exception:
                # (0 may be outside what the unfixed object accepts: names only)
                got = exp = {}
        for k in exp:
            if k not in ('ll', 'y', 'post', 'sample'):
                continue
            if not tol.allclose(np.asarray(got[k], dtype=float),
                                np.asarray(exp[k], dtype=float), 1e-8, 1e-10):
                viol.append({'sub': 'zero_subst', 'message': '%s with a parameter '
                             'fixed at %s differs from the unfixed %s at the '
                             'substituted vector' % (k, zero, kind),
                             'expected': exp[k], 'observed': got[k],
                             'behaviour': 'zero_fix'})
    # re-fixing at 0 keeps it fixed; releasing restores the full list
    ad.fix(obj, {ad.names[i]: z})
    if ad.names_of(obj) != e_names:
        viol.append({'sub': 'zero_refix', 'message': 're-fixing a parameter at %s '
                     'released it (%s)' % (zero, kind), 'expected': e_names,
                     'observed': ad.names_of(obj), 'behaviour': 'zero_fix'})
    ad.fix(obj, {ad.names[i]: None})
    if ad.names_of(obj) != list(ad.names):
        viol.append({'sub': 'zero_release', 'message': 'releasing after a fix at %s '
                     'does not restore the names (%s)' % (zero, kind),
                     'expected': list(ad.names), 'observed': ad.names_of(obj),
                     'behaviour': 'zero_fix'})
    return {'transitions': 5, 'outcome': key_of([kind, i, zero]),
            'violations': viol}


def w_intfree(case):
    """Free parameters worth whole numbers handed over as Python ints / an integer
    array while the fixed values are not whole numbers: exact substitution all the
    same."""
    kind, fixed, form = case['kind'], case['fixed'], case['form']
    ad = adapter(kind)
    n = len(ad.names)
    obj = ad.make()
    viol = []
    ad.fix(obj, {ad.names[i]: value_of(ad, i, 'v1') for i in fixed})
    free = [j for j in range(n) if j not in fixed]
    whole = [1 + (k_ % 2) for k_ in range(len(free))]
    full = [value_of(ad, i, 'v1') if i in fixed else float(whole[free.index(i)])
            for i in range(n)]
    x = [int(v) for v in whole]
    if form == 'array':
        x = np.array(x, dtype=int)
    import warnings
    with warnings.catch_warnings():
        warnings.simplefilter('ignore')
        try:
            exp = ad.reference(full, free)
        except Exception:
            return {'transitions': 1, 'outcome': 'reference-rejects', 'violations': []}
        got = ad.observe(obj, x, free, full) if isinstance(ad, PopAdapter) \
            else ad.observe(obj, x, free)
    for k in exp:
        e = exp[k]
        if isinstance(e, list) and e and isinstance(e[0], str):
            continue
        g = np.asarray(got[k], dtype=float)
        e = np.asarray(e, dtype=float)
        if g.shape != e.shape or not tol.allclose(g, e, 1e-8, 1e-10):
            viol.append({'sub': 'int_free_' + k, 'message': '%s of a reduced %s with '
                         'integer-typed free parameters (%s) and non-integer fixed '
                         'values differs from the unfixed object at the substituted '
                         'vector' % (k, kind, form), 'fixed': fixed, 'expected': e,
                         'observed': g, 'behaviour': 'int_free'})
    return {'transitions': 3, 'outcome': key_of([kind, fixed, form, tol.rnd(
        [np.asarray(got[k], dtype=float) for k in sorted(got)
         if not (isinstance(got[k], list) and got[k]
                 and isinstance(got[k][0], str))], 8)]), 'violations': viol}


SHARED_OPS = {
    'fix_sb': {'Sigma base': 0.45}, 'fix_sr': {'Sigma rel.': 0.15},
    'refix_sb': {'Sigma base': 0.9}, 'rel_sb': {'Sigma base': None},
    'swap': {'Sigma base': None, 'Sigma rel.': 0.3}, 'fix_p0': {'p0': 1.2}}


def w_shared_em(case):
    """Two likelihoods (and a predictive model) built from ONE user error model
    that already is a parameter-fixing wrapper: each behaves according to its own
    fix / release history only, and the user's object is left alone."""
    from ..ref import errors as rerr, toy
    viol = []
    user = chi.ReducedErrorModel(chi.ConstantAndMultiplicativeGaussianErrorModel())
    pre = dict(case['pre'])
    if pre:
        user.fix_parameters(dict(pre))
    times, obs = [0.3, 0.9, 1.4], [1.0, 2.0, 1.5]
    objs = [chi.LogLikelihood(ToyModel(2, 1), [user], obs, times)
            for _ in range(2)]
    state = [dict(pre), dict(pre)]
    full = {'p0': 0.9, 'p1': 0.6, 'Sigma base': 0.5, 'Sigma rel.': 0.2}
    names = list(full)

    def expect(k):
        v = dict(full)
        v.update(state[k])
        ybar = np.real(toy.evaluate([v['p0'], v['p1']], times, 1))[0]
        e = float(np.sum(rerr.pointwise(
            'CM', np.array([v['Sigma base'], v['Sigma rel.']]), ybar,
            np.array(obs))))
        return e, [n_ for n_ in names if n_ not in state[k]]
    for k, op in case['ops']:
        objs[k].fix_parameters(dict(SHARED_OPS[op]))
        for n_, v_ in SHARED_OPS[op].items():
            if v_ is None:
                state[k].pop(n_, None)
            else:
                state[k][n_] = v_
        for j in (0, 1):
            e, free = expect(j)
            if list(objs[j].get_parameter_names()) != free:
                viol.append({'sub': 'shared_names', 'message': 'likelihood %d built '
                             'from a shared reduced error model lists %s after %s'
                             % (j, objs[j].get_parameter_names(), case['ops']),
                             'expected': free,
                             'observed': list(objs[j].get_parameter_names()),
                             'behaviour': 'shared_em'})
                return {'transitions': 3, 'outcome': 'viol', 'violations': viol}
            if free:
                x = [full[n_] for n_ in free]
                g = [objs[j](x), objs[j].evaluateS1(x)[0]]
                if not all(tol.close(v_, e) for v_ in g):
                    viol.append({'sub': 'shared_value', 'message': 'likelihood %d '
                                 'built from a shared reduced error model is not '
                                 'the density at its OWN fixed values after %s'
                                 % (j, case['ops']), 'expected': e, 'observed': g,
                                 'behaviour': 'shared_em'})
                    return {'transitions': 3, 'outcome': 'viol', 'violations': viol}
    e_user = [n_ for n_ in ('Sigma base', 'Sigma rel.') if n_ not in pre]
    if list(user.get_parameter_names()) != e_user:
        viol.append({'sub': 'shared_user', 'message': 'the user\'s reduced error '
                     'model changed after %s' % case['ops'], 'expected': e_user,
                     'observed': list(user.get_parameter_names()),
                     'behaviour': 'shared_em'})
    return {'transitions': 2 * len(case['ops']) + 3,
            'outcome': key_of([case, expect(0)[0], expect(1)[0]]),
            'violations': viol}


def ops_for(n, with_eval=True):
    ops = []
    for i in range(n):
        for tag in ('v1', 'v2', 'free'):
            ops.append(['fix', [[i, tag]]])
    # two-key dictionaries (adjacent pairs, mixed fix/release)
    for i in range(n - 1):
        ops.append(['fix', [[i, 'v1'], [i + 1, 'v2']]])
        ops.append(['fix', [[i, 'free'], [i + 1, 'v1']]])
    if n > 1:
        # a dictionary written down against the parameter order
        ops.append(['fix', [[n - 1, 'v1'], [0, 'v2']]])
        ops.append(['fix', [[n - 1, 'free'], [0, 'v1']]])
    if with_eval:
        ops.append(['eval'])
    return ops


WORKERS = {'pop_nids': w_pop_nids, 'zero_values': w_zero, 'int_free': w_intfree,
           'shared_error_model': w_shared_em}
ALL_KINDS = ['err:G', 'err:M', 'err:CM', 'err:LN', 'mech:toy', 'mech:sbml',
             'mech:toy:sens', 'mech:sbml:sens', 'mech:sbmlren', 'mech:sbmlren:sens',
             'mech:sbml:regimen', 'mech:sbml:outs',
             'll',
             'pred', 'poppred', 'ctrl'] + ['pop:' + k for k in POP_SPECS] + [
                 'pop:comp:renamed', 'pop:compcov:renamed']
for _k in ALL_KINDS:
    WORKERS['fix_' + _k] = w_history


def make_search(kind, depth):
    name = 'fix_' + kind
    n = len(adapter(kind).names)

    def run(workers):
        part, st = bfs(name, w_history, ops_for(n), depth, seeds=[[kind]],
                       workers=workers,
                       descr='BFS over fix/re-fix/release/eval histories on %s '
                             '(%d parameters, %d abstract states), then from every '
                             'abstract state: evaluate, apply every operation, '
                             'observe' % (kind, n, 3 ** n))
        # second pass: the BFS does not extend histories that end in a known state,
        # so an evaluation (which leaves the abstract state unchanged) is never
        # followed by further operations there. For every reached state A and every
        # fix/release operation: path(A) + [eval] + [op] (+ [eval] + [op2] on the
        # way back) -- every (state, operation) pair with an evaluation in between.
        from ..core import engine
        ops = [o for o in ops_for(n, with_eval=False)]
        extra = []
        can_copy = adapter(kind).copy is not None
        for key, hist in sorted(part.paths.items(), key=lambda kv: len(kv[1])):
            for op in ops:
                extra.append(list(hist) + [['eval'], op])
                if can_copy:
                    # the object is duplicated in state A; the operation goes to
                    # the duplicate (fork) or to the original (forkswap); the other
                    # one is observed afterwards in state A
                    extra.append(list(hist) + [['fork', op]])
                    extra.append(list(hist) + [['forkswap', op]])
        p2 = engine.Part(name, extra, w_history, part.descr)
        st2 = engine.explore([p2], workers)[name]
        for v in st2['violations']:
            v['case_index'] += len(part.cases)
        part.cases += extra
        st['cases'] += st2['cases']
        st['states'] |= st2['states']
        st['transitions'] += st2['transitions']
        st['outcomes'] |= st2['outcomes']
        st['violations'] += st2['violations']
        st['info']['eval_then_op_histories'] = len(extra)
        return part, st
    return run


def build(tier, seed):
    # (quick: every class of object; the thorough tier adds the larger variants of
    # classes already present)
    kinds = ALL_KINDS if tier == 'thorough' else [
        'err:G', 'err:M', 'err:CM', 'err:LN', 'mech:toy', 'mech:sbml',
        'mech:sbml:regimen', 'mech:sbml:outs', 'mech:sbml:sens',
        'mech:sbmlren:sens',
        'll', 'pred',
        'poppred', 'ctrl',
        'pop:G1', 'pop:LN1', 'pop:TG1', 'pop:P2', 'pop:comp', 'pop:cov', 'pop:H1',
        'pop:gp', 'pop:compcov:renamed']
    depth = 12   # the searches stop at closure (no new abstract state)
    nids = []
    for spec in [rp.Comp([rp.H(1), rp.LN(1)]), rp.Comp([rp.G(1), rp.H(1), rp.P(1)]),
                 rp.Comp([rp.H(2), rp.G(1, False)]), rp.Comp([rp.LN(1), rp.H(1)])]:
        for a, b in ((1, 2), (2, 3), (3, 1), (2, 2)):
            n_a = rp.n_top(spec, a)
            names_a = rp.names(spec, a)
            names_b = set(rp.names(spec, b))
            for i in range(n_a):
                if names_a[i] in names_b:      # the parameter survives the change
                    nids.append({'spec': spec, 'n_before': a, 'n_after': b,
                                 'fix': [[i, 0.77]]})
                    nids.append({'spec': spec, 'n_before': a, 'n_after': b,
                                 'fix': [[i, 0.77]], 'release_first': True})
            # a wrapper with nothing fixed
            nids.append({'spec': spec, 'n_before': a, 'n_after': b, 'fix': []})
    from ..core.engine import Part
    zeros = []
    for kind in ALL_KINDS:
        if kind.endswith(':sens') and 'sbml' in kind:
            continue
        for i in range(len(adapter(kind).names)):
            for zero in ('0.0', '0', '-0.0'):
                zeros.append({'kind': kind, 'index': i, 'zero': zero})
    intfree = []
    for kind in ALL_KINDS:
        if 'sbml' in kind and kind != 'mech:sbml':
            continue
        n_k = len(adapter(kind).names)
        for r_ in (1, 2):
            for fx in itertools.combinations(range(n_k), r_):
                if len(fx) == n_k:
                    continue
                for form in ('list', 'array'):
                    intfree.append({'kind': kind, 'fixed': list(fx), 'form': form})
    shared = []
    for pre in ([], [['Sigma rel.', 0.25]], [['Sigma base', 0.7]]):
        for d_ in (1, 2):
            for seq in itertools.product(
                    [(k_, o_) for k_ in (0, 1) for o_ in SHARED_OPS], repeat=d_):
                shared.append({'pre': pre, 'ops': [list(x_) for x_ in seq]})
    return {
        'parts': [Part('shared_error_model', shared, w_shared_em,
                       'two likelihoods built from one reduced user error model: '
                       'every sequence of <= 2 fix / release calls on either'),
                  Part('int_free', intfree, w_intfree,
                       'whole-number free parameters handed over as ints while the '
                       'fixed values are not whole numbers: every subset of <= 2 '
                       'fixed parameters of every reducible object'),
                  Part('pop_nids', nids, w_pop_nids,
                       'fix by name, then change the number of individuals'),
                  Part('zero_values', zeros, w_zero,
                       'every parameter of every reducible object fixed at 0.0 / 0 '
                       '/ -0.0, re-fixed, released')],
        'searches': [make_search(k, depth) for k in kinds],
        'bounds': {'objects': kinds, 'values_per_parameter': ['free', 'v1', 'v2'],
                   'max_parameters': 7},
        'rule': 'BFS to closure over abstract states (parameter -> free/v1/v2); '
                'every (state, operation) pair executed; states = abstract states '
                'reached',
        'assumptions': ['differential oracle: the unfixed chi object at the '
                        'substituted vector (decided by C01/C04/C05/C09)',
                        'SBML object runs on RefSimulation'],
    }


META = {
    'technique': 'explicit-state breadth-first search to closure over fix / re-fix / '
                 'release / evaluate histories on every reducible object, '
                 'differential against the unfixed object at the substituted vector',
    'level_text': 'For each reducible object (reduced error, mechanistic (toy and '
                  'SBML), population models incl. composed/covariate/heterogeneous, '
                  'LogLikelihood, PredictiveModel, PopulationPredictiveModel, '
                  'ProblemModellingController) all 3^n assignments parameter -> '
                  '{free, v1, v2} are reached by BFS and every operation (single and '
                  'two-key fix/release dictionaries, interleaved evaluations) is '
                  'executed from every abstract state; names, counts, values, '
                  'pointwise values, seeded samples and restricted sensitivities '
                  'are compared with the unfixed object.',
    'level_note': 'Runs to closure (not depth-bounded). Two fixed values per '
                  'parameter. Histories reaching a known abstract state are not '
                  'extended further.',
}
META['level_text'] += (
    ' Also: every subset of <= 2 parameters fixed at non-integer values with intege'
    'r-typed free parameters; two likelihoods built from one reduced user error mod'
    'el under every sequence of <= 2 fix / release calls; outputs re-selected throu'
    'gh the wrapper before every simulation; wrappers with nothing fixed across set'
    '_n_ids.')
