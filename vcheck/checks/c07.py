"""C07 — covariate models shift the selected population parameters linearly.

Shape (A + B): underlying model x n_dim x n_cov x EVERY non-empty set of in-range
[parameter, dimension] pairs (given sorted, reversed, and with a duplicated pair) x
covariate matrices (generic, all-zero, one zero column) x beta (generic, zero) x n_ids;
histories construct -> set_population_parameters(sel1) -> (sel2) -> set_dim_names.
Oracle: the real underlying chi model evaluated per individual at
vartheta_i = vartheta_0 + sum_c beta_c chi_ic (reference linear map), complex-step
gradients of the reference, and the reference name table."""
import itertools

import numpy as np

import chi

from ..core import tol, vals
from ..core.engine import Part
from ..gen import popbuild, popvals
from ..ref import cstep, populations as rp
from . import c05

PROPERTY = 'C07'


def apply_history(m, history):
    for op in history:
        if op[0] == 'sel':
            m.set_population_parameters([list(p) for p in op[1]])
        elif op[0] == 'badsel':
            # a selection naming a parameter / dimension that does not exist is
            # refused and leaves the model as it was
            try:
                m.set_population_parameters([list(p) for p in op[1]])
            except (IndexError, ValueError):
                pass
        elif op[0] == 'dims':
            m.set_dim_names(op[1])
        elif op[0] == 'covnames':
            m.set_covariate_names(op[1])


def w_cov(case):
    inner = case['inner']
    n_cov = case['n_cov']
    n_ids = case['n_ids']
    d = inner['n_dim']
    viol = []
    ntr = 0
    lab = 'Cov(%s, n_cov=%d, sel=%s)' % (popbuild.label(inner), n_cov, case['sel'])
    # (the base model and the covariate model are the caller's objects: what is done
    # to them after the covariate population model was built does not reach it)
    user_base = popbuild.build(inner, None)
    user_cvm = chi.LinearCovariateModel(n_cov=n_cov)
    m = chi.CovariatePopulationModel(user_base, user_cvm)
    try:
        apply_history(m, case['history'])
        ntr += len(case['history'])
        user_base.set_dim_names(['user dim %d' % k_ for k_ in range(d)])
        user_base.set_n_ids(5)
        user_cvm.set_covariate_names(['user cov %d' % k_ for k_ in range(n_cov)])
        chi.CovariatePopulationModel(
            user_base, user_cvm, dim_names=['second %d' % k_ for k_ in range(d)])
    except Exception as e:
        import traceback
        tb = traceback.format_exc()
        beh = 'sel:' + type(e).__name__
        if isinstance(e, ValueError) and 'ambiguous' in str(e):
            beh = 'sel_ambiguous_truth'
        return {'transitions': 1, 'outcome': 'sel-raise', 'violations': [{
            'sub': 'select', 'message': 'set_population_parameters rejects an '
            'in-range selection (%s): %s: %s' % (lab, type(e).__name__, e),
            'expected': 'accepted', 'observed': tb[-600:], 'behaviour': beh}]}
    m.set_n_ids(n_ids)
    spec = rp.Cov(inner, n_cov, case['sel'])
    top = np.array(case['top'], dtype=float)
    cov = np.array(case['cov'], dtype=float).reshape(n_ids, n_cov)
    obs = np.array(case['obs'], dtype=float).reshape(n_ids, d)

    def top_arg():
        # zero == 'int': whole-number parameters handed over as an integer array
        return top.astype(int) if case['zero'] == 'int' else top.copy()
    c = np.array(case['dlogp'], dtype=float).reshape(n_ids, d)
    nt = rp.n_top(spec, n_ids)
    if m.n_parameters() != nt or len(top) != nt:
        viol.append({'sub': 'count', 'message': 'n_parameters wrong (%s)' % lab,
                     'expected': nt, 'observed': m.n_parameters(),
                     'behaviour': 'count'})
        return {'transitions': ntr, 'outcome': 'count', 'violations': viol}
    # --- names identify (parameter, dimension, covariate)
    dims = case.get('dim_names') or ['Dim. %d' % (i + 1) for i in range(d)]
    e_names = rp._names(spec, n_ids, dims)
    if case.get('cov_names'):
        n_in = rp.n_top(inner, n_ids)
        k = 0
        for (p, kd) in rp.selection(spec):
            for cc in range(n_cov):
                e_names[n_in + k] = '%s %s' % (
                    rp._names(inner, n_ids, dims)[p * d + kd],
                    case['cov_names'][cc])
                k += 1
    g_names = list(m.get_parameter_names())
    if g_names != e_names:
        beh = 'names'
        viol.append({'sub': 'names', 'message': 'parameter names do not identify '
                     'the (parameter, dimension, covariate) each beta acts on (%s)'
                     % lab, 'expected': e_names, 'observed': g_names,
                     'behaviour': beh})
    # --- per-individual equivalence with the REAL underlying model
    th = np.real(rp.vartheta(spec, top, cov, n_ids))     # (n_ids, ppd, d)
    under = popbuild.build(inner, None)
    under.set_n_ids(1)
    exp_ll = 0.0
    exp_psi = np.empty((n_ids, d))
    for i in range(n_ids):
        exp_ll += under.compute_log_likelihood(th[i].flatten(), obs[i:i + 1])
        exp_psi[i] = under.compute_individual_parameters(
            th[i].flatten(), obs[i:i + 1])[0]
        ntr += 2
    got_ll = m.compute_log_likelihood(top_arg(), obs.copy(), cov.copy())
    ntr += 1
    if not tol.close(got_ll, exp_ll):
        viol.append({'sub': 'll', 'message': 'log-likelihood differs from the '
                     'underlying model evaluated per individual at vartheta_i (%s)'
                     % lab, 'expected': exp_ll, 'observed': got_ll,
                     'behaviour': 'll'})
    # the transform with return_eta=True (what a hierarchical likelihood asks for):
    # the underlying model's answer at vartheta_i, individual by individual
    if case['zero'] != 'bad_later':
        # (at values other than the individuals' own: a pooled dimension answers
        # with vartheta_i whatever it is handed)
        probe = obs * 1.37 + 0.2
        exp_eta = np.empty((n_ids, d))
        for i in range(n_ids):
            exp_eta[i] = under.compute_individual_parameters(
                th[i].flatten(), probe[i:i + 1], return_eta=True)[0]
        got_eta = m.compute_individual_parameters(
            top_arg(), probe.copy(), cov.copy(), return_eta=True)
        ntr += 1 + n_ids
        if not tol.allclose(np.asarray(got_eta, dtype=float), exp_eta):
            viol.append({'sub': 'psi_eta', 'message': 'compute_individual_parameters'
                         '(return_eta=True) differs from the underlying model at '
                         'vartheta_i (%s)' % lab, 'expected': exp_eta,
                         'observed': got_eta, 'behaviour': 'psi'})
    if case['zero'] == 'bad_later':
        # outside the domain for the last individual only: the per-individual sum
        # decides (-inf as soon as one individual's scale is not positive); the
        # score returned with the sensitivities agrees
        s_b = m.compute_sensitivities(top_arg(), obs.copy(), cov.copy(),
                                      dlogp_dpsi=c.copy())[0]
        if not tol.close(s_b, exp_ll):
            viol.append({'sub': 'll_rejected', 'message': 'score returned with the '
                         'sensitivities differs from the underlying model evaluated '
                         'per individual when a later individual\'s parameters '
                         'leave the domain (%s)' % lab, 'expected': exp_ll,
                         'observed': s_b, 'behaviour': 'll'})
        return {'transitions': ntr + 1, 'outcome': tol.rnd([got_ll]),
                'violations': viol}
    got_psi = m.compute_individual_parameters(top_arg(), obs.copy(), cov.copy())
    ntr += 1
    if not tol.allclose(got_psi, exp_psi):
        viol.append({'sub': 'psi', 'message': 'individual-parameter transform '
                     'differs from the underlying model at vartheta_i (%s)' % lab,
                     'expected': exp_psi, 'observed': got_psi, 'behaviour': 'psi'})
    # the documented flat form of eta (individual-major, length n_ids * n_dim)
    if inner['kind'] not in ('P', 'H'):
        flat_psi = np.asarray(m.compute_individual_parameters(
            top_arg(), obs.flatten().copy(), cov.copy()))
        flat_eta = np.asarray(m.compute_individual_parameters(
            top_arg(), obs.flatten().copy(), cov.copy(), return_eta=True))
        ntr += 2
        if flat_psi.shape != np.shape(exp_psi) or not tol.allclose(
                flat_psi, exp_psi) or not tol.allclose(
                    flat_eta.reshape(n_ids, d), np.asarray(
                        m.compute_individual_parameters(
                            top_arg(), obs.copy(), cov.copy(), return_eta=True))):
            viol.append({'sub': 'psi_flat', 'message': 'individual parameters for '
                         'eta given in the documented flat form differ from the '
                         '(n_ids, n_dim) form (%s)' % lab, 'expected': exp_psi,
                         'observed': flat_psi, 'behaviour': 'psi_flat'})
    # sampling: sample i is a draw of the underlying model at vartheta_i of row i.
    # Under a constant script (every base variate equal) a draw is a deterministic
    # function of vartheta_i, so the row order is observable; rows are interleaved
    # repeats in descending order.
    from ..env.rngseam import Seam, Script
    rows = [cov[(n_ids - 1 - j) % n_ids] * (1.0 if j < n_ids else 1.5)
            for j in range(2 * n_ids)]
    rows = np.array(rows + rows[:1])

    def const(stream, index, kind, n=None):
        return 0.45 if kind == 'z' else (0.6 if kind == 'u' else 0)
    with Seam(Script(base=const)):
        smp = np.asarray(m.sample(top_arg(), n_samples=len(rows), seed=3,
                                  covariates=rows.copy()), dtype=float)
        th_s = np.real(rp.vartheta(spec, top, rows, len(rows)))
        exp_s = np.array([np.asarray(under.sample(
            th_s[i].flatten(), n_samples=1, seed=3), dtype=float)[0]
            for i in range(len(rows))])
    ntr += 1 + len(rows)
    if smp.shape != exp_s.shape or not tol.allclose(smp, exp_s):
        viol.append({'sub': 'sample_rows', 'message': 'sample i is not a draw of the '
                     'underlying model at vartheta_i of covariate row i (%s)' % lab,
                     'expected': exp_s, 'observed': smp,
                     'behaviour': 'sample_rows'})
    # individuals with EQUAL covariates are still separate draws: under the generic
    # script every sample is fed by its own base variates (integer seed and generator)
    if inner['kind'] != 'P':
        same_rows = np.repeat(cov[:1], 3, axis=0)
        for sd_ in (5, 'generator'):
            with Seam(Script()) as seam_e:
                sd_arg = np.random.default_rng(5) if sd_ == 'generator' else sd_
                smp_e = np.asarray(m.sample(top_arg(), n_samples=3, seed=sd_arg,
                                            covariates=same_rows.copy()),
                                   dtype=float)
                used = [(s_, i_) for s_, i_, k_, c_ in seam_e.log if k_ != 'i']
            ntr += 1
            if len(set(used)) != len(used) or any(
                    np.array_equal(smp_e[a_], smp_e[b_])
                    for a_ in range(3) for b_ in range(a_ + 1, 3)):
                viol.append({'sub': 'sample_equal_cov', 'message': 'individuals '
                             'with equal covariates are not separate draws (seed '
                             '%s): a base variate is used for several of them (%s)'
                             % (sd_, lab), 'expected': 'pairwise different rows',
                             'observed': smp_e, 'behaviour': 'sample_equal_cov'})
                break
    # the caller re-uses and modifies its arrays in place between evaluations: the
    # same array objects, first with covariates zeroed, then with a parameter moved
    cov_obj, top_obj = cov.copy(), top.copy()
    m.compute_log_likelihood(top_obj, obs.copy(), cov_obj)
    m.compute_individual_parameters(top_obj, obs.copy(), cov_obj)
    cov_obj[:] = 0
    z_ll = m.compute_log_likelihood(top_obj, obs.copy(), cov_obj)
    fresh = chi.CovariatePopulationModel(
        popbuild.build(inner, None), chi.LinearCovariateModel(n_cov=n_cov))
    apply_history(fresh, case['history'])
    fresh.set_n_ids(n_ids)
    e_ll = fresh.compute_log_likelihood(top.copy(), obs.copy(), np.zeros_like(cov))
    top_obj[-1] += 0.05
    cov_obj[:] = cov
    t_ll = m.compute_log_likelihood(top_obj, obs.copy(), cov_obj)
    t_psi = m.compute_individual_parameters(top_obj, obs.copy(), cov_obj)
    e2_ll = fresh.compute_log_likelihood(top_obj.copy(), obs.copy(), cov.copy())
    e2_psi = fresh.compute_individual_parameters(top_obj.copy(), obs.copy(),
                                                 cov.copy())
    ntr += 7
    if not tol.close(z_ll, e_ll) or not tol.close(t_ll, e2_ll) or \
            not tol.allclose(t_psi, e2_psi):
        viol.append({'sub': 'inplace', 'message': 'after the caller changed its '
                     'covariate / parameter arrays in place, the evaluation with '
                     'the same array objects does not use the new values (%s)'
                     % lab, 'expected': [e_ll, e2_ll], 'observed': [z_ll, t_ll],
                     'behaviour': 'inplace'})
    # reference agrees as well (ties the reference to the real underlying model)
    ref_ll = float(np.real(rp.logpop(spec, top, obs, cov)))
    if np.isfinite(exp_ll) and not tol.close(ref_ll, exp_ll):
        raise AssertionError('harness: reference disagrees with underlying model')
    # --- zero covariates or zero beta => coincides with the underlying model
    if case['zero'] in ('cov', 'beta'):
        n_in = rp.n_top(inner, n_ids)
        base = popbuild.build(inner, None)
        base.set_n_ids(n_ids)
        b_ll = base.compute_log_likelihood(top[:n_in].copy(), obs.copy())
        ntr += 1
        if not tol.close(got_ll, b_ll):
            viol.append({'sub': 'zero', 'message': 'with all %s zero the model does '
                         'not coincide with the underlying model (%s)'
                         % (case['zero'], lab), 'expected': b_ll,
                         'observed': got_ll, 'behaviour': 'zero'})
    # --- sensitivities w.r.t. vartheta_0 and beta, separate and reduce forms
    if np.isfinite(exp_ll):
        e_score, e_dobs, e_dtop = c05.expected_separate(spec, top, obs, c, cov)
        s, dpsi, dth = m.compute_sensitivities(
            top_arg(), obs.copy(), cov.copy(), dlogp_dpsi=c.copy())
        ntr += 1
        if not tol.close(s, e_score):
            viol.append({'sub': 'sens_score', 'message': 'score of '
                         'compute_sensitivities differs (%s)' % lab,
                         'expected': e_score, 'observed': s})
        c05._cmp(viol, 'dpsi', 'sensitivities w.r.t. individual parameters wrong '
                 '(%s)' % lab, e_dobs, dpsi)
        if c05._cmp(viol, 'dtheta', 'sensitivities w.r.t. (vartheta_0, beta) wrong '
                    '(%s)' % lab, e_dtop, dth) is False:
            viol[-1]['behaviour'] = 'dtheta'
        e_red = c05.expected_reduced(spec, top, obs, c, cov)
        s, ds = m.compute_sensitivities(
            top_arg(), obs.copy(), cov.copy(), dlogp_dpsi=c.copy(), reduce=True)
        ntr += 1
        if c05._cmp(viol, 'reduce', 'reduce-form sensitivities wrong (%s)' % lab,
                    e_red, ds) is False:
            viol[-1]['behaviour'] = 'reduce'
    return {'transitions': ntr, 'outcome': tol.rnd([got_ll, got_psi]),
            'violations': viol}


def w_linear(case):
    """LinearCovariateModel.compute_population_parameters on its own."""
    n_cov, sel = case['n_cov'], case['sel']
    ppd, d, n_ids = case['ppd'], case['d'], case['n_ids']
    cm = chi.LinearCovariateModel(n_cov=n_cov)
    cm.set_population_parameters([list(p) for p in sel])
    pairs = sorted(set((int(p), int(k)) for p, k in sel))
    beta = np.array(case['beta'], dtype=float)
    pop = np.array(case['pop'], dtype=float).reshape(ppd, d)
    cov = np.array(case['cov'], dtype=float).reshape(n_ids, n_cov)
    ints = case.get('ints', '')
    if 'b' in ints:
        beta = np.sign(beta) * np.maximum(1, np.round(np.abs(beta)))
    if 'p' in ints:
        pop = np.maximum(1, np.round(pop))
    if 'c' in ints:
        cov = np.maximum(1, np.round(cov * 2))
    got = cm.compute_population_parameters(
        beta.astype(int) if 'b' in ints else beta.copy(),
        pop.astype(int) if 'p' in ints else pop.copy(),
        cov.astype(int) if 'c' in ints else cov.copy())
    if case.get('beta_matrix'):
        # documented alternative: coefficients as a (n_selected, n_cov) matrix
        got = cm.compute_population_parameters(
            beta.reshape(len(pairs), n_cov).copy(), pop.copy(), cov.copy())
    exp = np.broadcast_to(pop[np.newaxis], (n_ids, ppd, d)).copy()
    b = beta.reshape(len(pairs), n_cov)
    for j, (p, k) in enumerate(pairs):
        exp[:, p, k] += cov @ b[j]
    viol = []
    if np.asarray(got).shape != exp.shape or not tol.allclose(got, exp):
        viol.append({'sub': 'vartheta', 'message': 'compute_population_parameters '
                     'is not vartheta_0 + sum_c beta_c chi_c on the selected pairs',
                     'expected': exp, 'observed': got, 'behaviour': 'vartheta'})
    if cm.n_parameters() != len(pairs) * n_cov:
        viol.append({'sub': 'count', 'message': 'n_parameters != n_selected*n_cov',
                     'expected': len(pairs) * n_cov, 'observed': cm.n_parameters()})
    return {'transitions': 2, 'outcome': tol.rnd(got), 'violations': viol}


def w_composed(case):
    """Several covariate sub-models in one composition: each one is shifted by ITS
    columns of the covariate matrix, in every entry point."""
    spec, n_ids = case['spec'], case['n_ids']
    m = popbuild.build(spec, n_ids)
    top = np.array(case['top'], dtype=float)
    cov = np.array(case['cov'], dtype=float)
    eta = np.array(case['eta'], dtype=float).reshape(n_ids, rp.n_dim(spec))
    lab = popbuild.label(spec)
    viol = []
    e_psi = np.real(rp.psi_of(spec, top, eta, cov))
    g_psi = np.asarray(m.compute_individual_parameters(top, eta.copy(),
                                                       covariates=cov.copy()))
    if g_psi.shape != e_psi.shape or not tol.allclose(g_psi, e_psi):
        viol.append({'sub': 'comp_psi', 'message': 'individual parameters of a '
                     'composition of covariate models are not each sub-model\'s '
                     'transform at its own covariates (%s)' % lab,
                     'expected': e_psi, 'observed': g_psi, 'behaviour': 'comp_psi'})
    obs = np.array(case['obs'], dtype=float).reshape(n_ids, rp.n_dim(spec))
    e_ll = float(np.real(rp.logpop(spec, top, obs, cov)))
    g_ll = float(m.compute_log_likelihood(top, obs.copy(), covariates=cov.copy()))
    s_ll = m.compute_sensitivities(top, obs.copy(), covariates=cov.copy())[0]
    if not (tol.close(g_ll, e_ll) and tol.close(s_ll, e_ll)):
        viol.append({'sub': 'comp_ll', 'message': 'log-likelihood of a composition '
                     'of covariate models is not the sum of the sub-models\' '
                     'densities at their own covariates (%s)' % lab,
                     'expected': e_ll, 'observed': [g_ll, s_ll],
                     'behaviour': 'comp_ll'})
    # one covariate column moved: only the sub-model reading it responds
    ncs = [rp.n_cov(p) for p in spec['parts']]
    dims = [rp.n_dim(p) for p in spec['parts']]
    col0 = 0
    for j, nc in enumerate(ncs):
        for cc in range(col0, col0 + nc):
            cov2 = cov.copy()
            cov2[:, cc] += 0.37
            p2 = np.asarray(m.compute_individual_parameters(
                top, eta.copy(), covariates=cov2))
            d0 = sum(dims[:j])
            moved = np.abs(p2 - g_psi) > 1e-12
            moved[:, d0:d0 + dims[j]] = False
            if np.any(moved):
                viol.append({'sub': 'comp_cols', 'message': 'covariate column %d '
                             'moves individual parameters of another sub-model '
                             '(%s)' % (cc, lab), 'expected': 'no change outside '
                             'dimensions %d..%d' % (d0, d0 + dims[j] - 1),
                             'observed': np.argwhere(moved),
                             'behaviour': 'comp_cols'})
                break
        col0 += nc
    return {'transitions': 4 + sum(ncs), 'outcome': tol.rnd([g_psi, g_ll], 9),
            'violations': viol}


WORKERS = {'selections': w_cov, 'histories': w_cov, 'linear': w_linear,
           'composed': w_composed}


def selections(ppd, d):
    pairs = [[p, k] for p in range(ppd) for k in range(d)]
    out = []
    for r in range(1, len(pairs) + 1):
        for sub in itertools.combinations(pairs, r):
            sub = [list(x) for x in sub]
            out.append(('sorted', sub))
            if len(sub) > 1:
                out.append(('reversed', sub[::-1]))
            out.append(('dup', sub + [sub[0]]))
    return out


def make_case(inner, n_cov, sel, n_ids, seed, zero='none', history=None,
              dim_names=None, cov_names=None):
    spec = rp.Cov(inner, n_cov, sel)
    top = popvals.top_values(spec, n_ids, seed)
    d = inner['n_dim']
    cov = np.array(vals.reals('c07.cov', n_ids * n_cov, 0.2, 1.5, seed)
                   ).reshape(n_ids, n_cov)
    n_in = rp.n_top(inner, n_ids)
    if zero == 'cov':
        cov[:] = 0
    elif zero == 'col':
        cov[:, 0] = 0
    elif zero == 'beta':
        top = list(top[:n_in]) + [0.0] * (len(top) - n_in)
    elif zero == 'bad_later':
        # the coefficient of the last selected pair drives that parameter negative
        # for the LAST individual only (covariates ascending over individuals)
        cov = np.sort(np.abs(cov), axis=0) + np.arange(n_ids)[:, None] * 2.0
        top = list(top)
        pairs_ = rp.selection(spec)
        ppd_ = rp.per_dim(inner)
        p_, k_ = pairs_[-1]
        base_v = top[p_ * d + k_]
        j_ = n_in + (len(pairs_) - 1) * n_cov
        top[j_] = -(abs(base_v) + 0.1) / float(cov[-1, 0]) - 0.05
    elif zero == 'int':
        # whole numbers; the underlying parameters are kept large enough for every
        # individual's shifted scale to stay positive (|beta| = 1, covariates < 1.5)
        top = [float(max(1, round(abs(v))) + 3) if i < n_in
               else float(np.sign(v) * 1) for i, v in enumerate(top)]
    obs = popvals.obs_values(spec, top, n_ids, cov, seed)
    c = vals.reals('c07.c', n_ids * d, -1.5, 1.5, seed)
    if history is None:
        history = [['sel', sel]]
    return {'inner': inner, 'n_cov': n_cov, 'sel': sel, 'n_ids': n_ids,
            'top': list(top), 'cov': cov.tolist(), 'obs': obs.flatten().tolist(),
            'dlogp': c, 'zero': zero, 'history': history, 'dim_names': dim_names,
            'cov_names': cov_names}


def build(tier, seed):
    inners = ['G', 'Gnc', 'LN', 'LNnc', 'TG', 'P']
    cases, hist, lin = [], [], []
    max_ids = 2 if tier == 'quick' else 3
    for k in inners:
        for d in (1, 2) if tier == 'quick' else (1, 2, 3):
            inner = popbuild.elem(k, d)
            ppd = rp.per_dim(inner)
            for n_cov in (1, 2) if tier == 'quick' or d == 3 else (1, 2, 3):
                for form, sel in selections(ppd, d):
                    if tier == 'quick' and d == 2 and n_cov == 2 and form == 'dup':
                        continue
                    for n_ids in range(1, max_ids + 1):
                        zs = ['none']
                        if form == 'sorted':
                            zs = ['none', 'cov', 'beta', 'col', 'int', 'bad_later'] \
                                if n_ids == 2 else ['none']
                        for z in zs:
                            if z == 'bad_later' and (
                                    not inner.get('centered', True)
                                    or inner['kind'] == 'P'
                                    or max(p_ for p_, _ in sel) == 0):
                                # (only a scale parameter of a centred model has
                                # a domain to leave; non-centred models score eta
                                # as standard normal whatever the parameters)
                                continue
                            cases.append(make_case(inner, n_cov, sel, n_ids, seed, z))
    # default-constructed models with many (parameter, dimension) pairs: the betas
    # are named and applied pair by pair in the documented order
    for k, dims_ in (('G', (4, 6, 9, 12)), ('LNnc', (5, 8)), ('P', (9, 17))):
        for d in dims_ if tier == 'thorough' else dims_[::2] + dims_[1:2]:
            inner = popbuild.elem(k, d)
            cases.append(make_case(inner, 1, None, 2, seed, history=[]))
    # histories: sel1 then sel2 (final = sel2), then dimension / covariate names
    for k in ('G', 'LNnc', 'P'):
        inner = popbuild.elem(k, 2)
        ppd = rp.per_dim(inner)
        sels = [s for f, s in selections(ppd, 2) if f != 'dup']
        sels = sels[::3] if tier == 'quick' else sels
        for s1 in sels[::2]:
            for s2 in sels:
                hist.append(make_case(inner, 1, s2, 2, seed,
                                      history=[['sel', s1], ['sel', s2]]))
        for s2 in sels:
            hist.append(make_case(
                inner, 2, s2, 2, seed,
                history=[['sel', s2], ['dims', ['a', 'b']]], dim_names=['a', 'b']))
            hist.append(make_case(
                inner, 2, s2, 2, seed,
                history=[['dims', ['a', 'b']], ['sel', s2],
                         ['covnames', ['age', 'w']]],
                dim_names=['a', 'b'], cov_names=['age', 'w']))
    # names given and taken back again (None = back to the defaults), in every
    # position relative to the selection
    for k in ('G', 'LNnc', 'P'):
        inner = popbuild.elem(k, 2)
        ppd = rp.per_dim(inner)
        sels = [s for f, s in selections(ppd, 2) if f != 'dup'][::3]
        for s2 in sels:
            for h_, dn_, cn_ in (
                    ([['covnames', ['age', 'w']], ['covnames', None]], None, None),
                    ([['covnames', ['age', 'w']], ['sel', s2], ['covnames', None]],
                     None, None),
                    ([['sel', s2], ['covnames', ['age', 'w']], ['covnames', None]],
                     None, None),
                    ([['sel', s2], ['dims', ['a', 'b']], ['dims', None]], None, None),
                    ([['dims', ['a', 'b']], ['covnames', ['age', 'w']],
                      ['sel', s2], ['covnames', None]], ['a', 'b'], None),
                    ([['covnames', ['age', 'w']], ['dims', ['a', 'b']],
                      ['sel', s2], ['dims', None]], None, ['age', 'w'])):
                final_sel = s2 if any(o[0] == 'sel' for o in h_) else None
                hist.append(make_case(inner, 2, final_sel, 2, seed, history=h_,
                                      dim_names=dn_, cov_names=cn_))
    # refused selections (parameter or dimension index out of range) in between
    for k in ('G', 'LNnc', 'P'):
        inner = popbuild.elem(k, 2)
        ppd = rp.per_dim(inner)
        sels = [s for f, s in selections(ppd, 2) if f != 'dup'][::3]
        bads = [[[ppd, 0]], [[0, 2]], [[0, 0], [ppd + 3, 1]]]
        for bad in bads:
            hist.append(make_case(inner, 2, None, 2, seed,
                                  history=[['badsel', bad]]))
            for s2 in sels:
                hist.append(make_case(inner, 2, s2, 2, seed,
                                      history=[['sel', s2], ['badsel', bad]]))
                hist.append(make_case(
                    inner, 1, s2, 2, seed, history=[
                        ['dims', ['a', 'b']], ['sel', s2], ['badsel', bad]],
                    dim_names=['a', 'b']))
    # LinearCovariateModel alone
    for ppd, d in ((2, 1), (2, 2), (1, 2), (2, 3)):
        for n_cov in (1, 2):
            for form, sel in selections(ppd, d):
                if len(sel) > 3 and tier == 'quick':
                    continue
                for n_ids in (1, 3):
                    npairs = len(set(map(tuple, sel)))
                    # which of (beta, pop, cov) are whole numbers in integer arrays
                    lin.append({
                        'n_cov': n_cov, 'sel': sel, 'ppd': ppd, 'd': d,
                        'n_ids': n_ids, 'ints': '', 'beta_matrix': True,
                        'beta': vals.reals('c07.lb', npairs * n_cov, -1, 1, seed),
                        'pop': vals.reals('c07.lp', ppd * d, 0.5, 3, seed),
                        'cov': vals.reals('c07.lc', n_ids * n_cov, 0.1, 2, seed)})
                    for ints in ('', 'p', 'b', 'c', 'pb', 'pc', 'bc', 'pbc'):
                        lin.append({
                            'n_cov': n_cov, 'sel': sel, 'ppd': ppd, 'd': d,
                            'n_ids': n_ids, 'ints': ints,
                            'beta': vals.reals('c07.lb', npairs * n_cov, -1, 1,
                                               seed),
                            'pop': vals.reals('c07.lp', ppd * d, 0.5, 3, seed),
                            'cov': vals.reals('c07.lc', n_ids * n_cov, 0.1, 2,
                                              seed)})
    # compositions of two or three covariate sub-models (and plain ones in between)
    comp = []
    ckinds = ['G', 'Gnc', 'LNnc', 'P', 'TG']
    for a, b in itertools.product(ckinds, repeat=2):
        for nca, ncb in ((1, 1), (1, 2), (2, 1)):
            for mid in (None, 'P', 'G'):
                parts = [rp.Cov(popbuild.elem(a, 1), nca)]
                if mid:
                    parts.append(popbuild.elem(mid, 1))
                parts.append(rp.Cov(popbuild.elem(b, 1), ncb))
                if tier == 'quick' and mid == 'G' and (nca, ncb) != (1, 2):
                    continue
                spec = rp.Comp(parts)
                for n_ids in (1, 2, 3) if tier == 'thorough' else (2,):
                    top = popvals.top_values(spec, n_ids, seed, positive=True)
                    cov = popvals.covariates(spec, n_ids, seed)
                    obs = popvals.obs_values(spec, top, n_ids, cov, seed,
                                             positive=True)
                    comp.append({'spec': spec, 'n_ids': n_ids, 'top': list(top),
                                 'cov': cov.tolist(), 'obs': obs.flatten().tolist(),
                                 'eta': vals.reals('c07.ceta', n_ids * rp.n_dim(spec),
                                                   0.3, 1.4, seed)})
    return {
        'parts': [
            Part('composed', comp, w_composed,
                 'compositions of two covariate sub-models reading different '
                 'covariate columns: transform, density, column-wise response'),
            Part('selections', cases, w_cov,
                 'underlying x n_dim x n_cov x every selection x zero patterns'),
            Part('histories', hist, w_cov,
                 'sequences of set_population_parameters / set_dim_names / '
                 'set_covariate_names'),
            Part('linear', lin, w_linear,
                 'LinearCovariateModel alone, float and integer-typed arguments'),
        ],
        'bounds': {'underlying': inners, 'n_dim': [1, 2], 'n_cov': [1, 2],
                   'n_ids_max': max_ids},
        'rule': 'every non-empty subset of in-range pairs in sorted / reversed / '
                'duplicated form; distinct = distinct (ll, psi) observations',
        'min_outcomes': {'selections': 100},
        'assumptions': ['underlying elementary models decided by C05',
                        'sampling of covariate models is decided in C06'],
    }


META = {
    'technique': 'bounded exhaustive enumeration of covariate selections and '
                 'reconfiguration histories on the real CovariatePopulationModel, '
                 'differential against the real underlying model per individual',
    'level_text': 'For six underlying models, n_dim 1-2, 1-2 covariates and EVERY '
                  'non-empty set of in-range (parameter, dimension) pairs (sorted, '
                  'reversed, with a duplicate), with generic / zero covariates and '
                  'betas and 1-3 individuals, likelihood, transform, both '
                  'sensitivity forms and the name table are compared with the '
                  'underlying model evaluated per individual at the reference '
                  'vartheta_i; selection histories of length 2 and renamings.',
    'level_note': 'Exhaustive over selections within n_dim<=2; generic values. '
                  'The linear map vartheta_i is computed by the reference.',
}
META['level_text'] += (
    ' Also: compositions of two covariate sub-models reading different covariate co'
    'lumns (transform, density, column-wise response), histories with refused selec'
    'tions and with names given and taken back, individuals with equal covariates a'
    's separate draws.')
