"""C09 — simulation returns the ODE solution (and its derivatives) in parameter order.

Shape (A, programs): generated linear compartment SBML models (1-3 compartments, chain
and mammillary, derived constants, intermediate variables, every declaration order of
compartments / species / parameters) and the four library models; per program every
ordered output selection of <= 2 variables, 2 parameter vectors with pairwise distinct
entries, 2 time grids, sensitivities off / on / on for subsets of fixed parameters.
Oracle: closed-form matrix-exponential solution in which the i-th vector entry is
assigned to the i-th *published name* (ref.compartments); library models against their
documented equations typed by hand. Decides chi's use of the solver API on the
RefSimulation stand-in (DESIGN §2.1), not CVODES numerics."""
import itertools
import os
import shutil
import tempfile

import numpy as np
from scipy.integrate import solve_ivp

import chi
import chi.library

from ..core import tol, vals
from ..core.engine import Part
from ..gen import sbmlgen
from ..ref import compartments as rc

PROPERTY = 'C09'


def published(desc):
    comps = [c['id'] for c in desc['comps']]
    states = sorted(rc.state_name(c) for c in comps)
    consts = sorted([c + '.size' for c in comps]
                    + ['global.' + p for p in desc['literal']])
    return states, consts


def candidate_outputs(desc):
    comps = sorted(c['id'] for c in desc['comps'])
    outs = [rc.state_name(c) for c in comps] + [rc.conc_name(c) for c in comps]
    outs += ['global.' + k for k in desc.get('inter', {})]
    return outs


def w_program(case):
    desc = case['desc']
    viol = []
    ntr = 0
    tmp = tempfile.mkdtemp(prefix='vc09_')
    try:
        path = sbmlgen.write(desc, tmp)
        cls = chi.PKPDModel if case['cls'] == 'PKPD' else chi.SBMLModel
        m = cls(path)
    finally:
        shutil.rmtree(tmp, ignore_errors=True)
    lab = desc['id']
    states, consts = published(desc)
    names = m.parameters()
    if names != states + consts:
        viol.append({'sub': 'names', 'message': 'parameters() is not (initial values '
                     'of states, then constants, each alphabetically) for ' + lab,
                     'expected': states + consts, 'observed': names,
                     'behaviour': 'names'})
        return {'transitions': 1, 'outcome': 'names', 'violations': viol}
    if m.n_parameters() != len(names) or m.outputs() != states or \
            m.n_outputs() != len(states):
        viol.append({'sub': 'defaults', 'message': 'default outputs / counts wrong '
                     'for ' + lab, 'expected': [len(names), states],
                     'observed': [m.n_parameters(), m.outputs()]})
    outcome = []
    kept = []
    for pi, pv in enumerate(case['points']):
        values = dict(zip(names, pv))
        for ti, times in enumerate(case['grids']):
            ref = rc.solve(desc, values, times)
            for sel in case['selections']:
                m.set_outputs(list(sel))
                y = np.asarray(m.simulate(list(pv), list(times)), dtype=float)
                ntr += 2
                exp = np.real(np.array([ref[o] for o in sel]))
                if y.shape != exp.shape or not tol.allclose(
                        y, exp, tol.ODE_REL, tol.ODE_ABS):
                    viol.append({
                        'sub': 'trajectory', 'message': 'simulate() is not the '
                        'solution of the IVP with entry i assigned to the i-th '
                        'published parameter (%s, outputs %s)' % (lab, list(sel)),
                        'expected': exp, 'observed': y, 'behaviour': 'trajectory'})
                if pi == 0 and ti == 0:
                    outcome.append(tol.rnd(y, 6))
                kept.append((y, y.copy(), list(sel)))
    # results handed out earlier are not touched by later simulations
    for y_obj, y_snap, sel_k in kept:
        if not np.array_equal(y_obj, y_snap):
            viol.append({'sub': 'retained', 'message': 'an array returned by '
                         'simulate changed with a later simulation of the same '
                         'model (%s, outputs %s)' % (lab, sel_k), 'expected': y_snap,
                         'observed': y_obj, 'behaviour': 'retained'})
            break
    # a copy taken after simulations solves the same initial-value problem, at the
    # point simulated last and at another one
    sel_last = list(case['selections'][-1])
    for mc, what in ((m.copy(), 'copy'),
                     (chi.ReducedMechanisticModel(m).copy(), 'copy of the wrapper')):
        for pv_c in (case['points'][-1], case['points'][0]):
            times_c = case['grids'][-1]
            y = np.asarray(mc.simulate(list(pv_c), list(times_c)), dtype=float)
            ref = rc.solve(desc, dict(zip(names, pv_c)), times_c)
            exp = np.real(np.array([ref[o] for o in sel_last]))
            ntr += 1
            if y.shape != exp.shape or not tol.allclose(
                    y, exp, tol.ODE_REL, tol.ODE_ABS):
                viol.append({
                    'sub': 'copy_trajectory', 'message': 'a %s taken after '
                    'simulations does not return the solution of the IVP (%s)'
                    % (what, lab), 'expected': exp, 'observed': y,
                    'behaviour': 'copy_trajectory'})
                break
    # a reduced model and its copy with different fixed parameters do not share
    # their values: fix A, copy, swap the fixed parameter in the copy, simulate the
    # copy, then the original still solves ITS problem
    if len(names) >= 3:
        pv_r = case['points'][0]
        times_r = case['grids'][-1]
        rm_o = chi.ReducedMechanisticModel(m)
        rm_o.fix_parameters({names[0]: pv_r[0]})
        rm_c = rm_o.copy()
        rm_c.fix_parameters({names[0]: None, names[1]: pv_r[1] * 4.0})
        rm_c.simulate([3.0 + k_ for k_ in range(len(names) - 1)], list(times_r))
        y = np.asarray(rm_o.simulate(list(pv_r[1:]), list(times_r)), dtype=float)
        ref = rc.solve(desc, dict(zip(names, pv_r)), times_r)
        exp = np.real(np.array([ref[o] for o in sel_last]))
        ntr += 4
        if y.shape != exp.shape or not tol.allclose(y, exp, tol.ODE_REL,
                                                    tol.ODE_ABS):
            viol.append({'sub': 'copy_shares', 'message': 'a reduced model returns '
                         'another solution after its copy was given other fixed '
                         'parameters and simulated (%s)' % lab, 'expected': exp,
                         'observed': y, 'behaviour': 'copy_trajectory'})
        rm_o.fix_parameters({names[0]: None})
    # sensitivities, all parameters, then fixed subsets via ReducedMechanisticModel
    pv = case['points'][0]
    times = case['grids'][1]
    sel = case['sens_outputs']
    values = dict(zip(names, pv))

    orig = list(names)

    def closed(vec, free_idx):
        v = dict(values)
        for k, i in enumerate(free_idx):
            v[orig[i]] = vec[k]
        r = rc.solve(desc, v, times)
        return np.array([r[o] for o in sel])   # (n_out, n_times)
    if case.get('rename'):
        # user-chosen names for some parameters: positions keep their meaning
        m.set_parameter_names({orig[i]: 'q_%d' % i for i in case['rename']})
        names = ['q_%d' % i if i in case['rename'] else nme
                 for i, nme in enumerate(orig)]
        if m.parameters() != names:
            viol.append({'sub': 'renamed', 'message': 'renamed parameters are not '
                         'published in place (%s)' % lab, 'expected': names,
                         'observed': m.parameters(), 'behaviour': 'renamed'})
            return {'transitions': ntr, 'outcome': 'renamed', 'violations': viol}
    for fixed in case['fixed_sets'] + [['wrap']]:
        # ('wrap': the parameter-fixing wrapper with nothing fixed; the caller sorts
        # the name list it was handed, which is the caller's)
        wrap_only = fixed == ['wrap']
        if wrap_only:
            fixed = []
        free_idx = [i for i in range(len(names)) if i not in fixed]
        if wrap_only:
            rm = chi.ReducedMechanisticModel(m)
            m.set_outputs(list(sel))
            handed = rm.parameters()
            if isinstance(handed, list):
                handed.sort(reverse=True)
                handed.append('appended by the caller')
            rm.enable_sensitivities(True)
            model = rm
            if model.parameters() != names:
                viol.append({'sub': 'reduced_names', 'message': 'names of the '
                             'wrapper with nothing fixed changed with the list '
                             'handed out earlier', 'expected': names,
                             'observed': model.parameters(),
                             'behaviour': 'reduced_names'})
        elif fixed:
            rm = chi.ReducedMechanisticModel(m)
            m.set_outputs(list(sel))
            # (fixed at other values first: the values in force are the last ones)
            rm.fix_parameters({names[i]: 1.7 * pv[i] + 0.1 for i in fixed})
            rm.fix_parameters({names[i]: pv[i] for i in fixed})
            rm.enable_sensitivities(True)
            model = rm
            if model.parameters() != [names[i] for i in free_idx]:
                viol.append({'sub': 'reduced_names', 'message': 'reduced model '
                             'names are not the free parameters in order',
                             'expected': [names[i] for i in free_idx],
                             'observed': model.parameters()})
        else:
            m.set_outputs(list(sel))
            m.enable_sensitivities(True)
            model = m
        x = np.array([pv[i] for i in free_idx], dtype=float)
        res = model.simulate(list(x), list(times))
        ntr += 3
        if not isinstance(res, tuple) or len(res) != 2:
            viol.append({'sub': 'sens_form', 'message': 'simulate with '
                         'sensitivities does not return (outputs, sensitivities)',
                         'expected': 'tuple', 'observed': repr(type(res)),
                         'behaviour': 'sens_form'})
            continue
        y, S = res
        S = np.asarray(S, dtype=float)
        h = 1e-30
        eS = np.empty((len(times), len(sel), len(free_idx)))
        for k in range(len(free_idx)):
            z = x.astype(complex)
            z[k] += 1j * h
            eS[:, :, k] = (np.imag(closed(z, free_idx)) / h).T
        ey = np.real(closed(x, free_idx))
        if not tol.allclose(np.asarray(y, dtype=float), ey, tol.ODE_REL,
                            tol.ODE_ABS):
            viol.append({'sub': 'sens_values', 'message': 'outputs differ when '
                         'sensitivities are enabled (%s, fixed=%s)' % (lab, fixed),
                         'expected': ey, 'observed': y, 'behaviour': 'sens_values'})
        if S.shape != eS.shape or not tol.allclose(S, eS, 1e-5, 1e-7):
            viol.append({'sub': 'sens', 'message': 'sensitivities are not the '
                         'derivatives of the outputs w.r.t. the (free) parameters '
                         'in published order (%s, fixed=%s)' % (lab, fixed),
                         'expected': eS, 'observed': S, 'behaviour': 'sens'})
        # results handed out stay the caller's: a later simulation at other values
        # (same grid, same outputs) does not change them
        y_first = y
        snap_y = np.array(y, dtype=float, copy=True)
        snap_S = np.array(S, dtype=float, copy=True)
        res_first = res
        model.simulate(list(1.3 * x + 0.1), list(times))
        ntr += 1
        if not (np.array_equal(np.asarray(y_first, dtype=float), snap_y) and
                np.array_equal(np.asarray(res_first[1], dtype=float), snap_S)):
            viol.append({'sub': 'retained', 'message': 'outputs / sensitivities '
                         'returned by simulate changed with the next simulation of '
                         'the same model (%s, fixed=%s)' % (lab, fixed),
                         'expected': snap_y, 'observed': np.asarray(
                             y_first, dtype=float), 'behaviour': 'retained'})
        if fixed and len(free_idx):
            # whole-number free values handed over as Python ints (the fixed values
            # are not whole numbers)
            ones = [1] * len(free_idx)
            y_i = model.simulate(ones, list(times))
            y_i = np.asarray(y_i[0] if isinstance(y_i, tuple) else y_i, dtype=float)
            e_i = np.real(closed(np.ones(len(free_idx)), free_idx))
            ntr += 1
            if y_i.shape != e_i.shape or not tol.allclose(y_i, e_i, tol.ODE_REL,
                                                         tol.ODE_ABS):
                viol.append({'sub': 'int_free', 'message': 'reduced model simulated '
                             'at integer-typed free values is not the solution at '
                             'the substituted vector (%s, fixed=%s)' % (lab, fixed),
                             'expected': e_i, 'observed': y_i,
                             'behaviour': 'int_free'})
        outcome.append(tol.rnd(S, 5))
        model.enable_sensitivities(False)
    # the list given to set_outputs is the caller's: reversing / extending it
    # afterwards changes neither the selection nor the pairing of sensitivity rows
    # with outputs; and selecting outputs through the wrapper while sensitivities
    # are on resets them (documented), after which re-enabling gives the free set
    if len(sel) > 1:
        given = list(sel)
        m.set_outputs(given)
        m.enable_sensitivities(True)
        given.reverse()
        given.append(names[0])
        y, S = m.simulate(list(pv), list(times))
        ntr += 2
        x_all = np.array(pv, dtype=float)
        ey = np.real(closed(x_all, list(range(len(names)))))
        eS = np.empty((len(times), len(sel), len(names)))
        for k in range(len(names)):
            z = x_all.astype(complex)
            z[k] += 1j * 1e-30
            eS[:, :, k] = (np.imag(closed(z, list(range(len(names)))))
                           / 1e-30).T
        if list(m.outputs()) != list(sel) or not tol.allclose(
                np.asarray(y, dtype=float), ey, tol.ODE_REL, tol.ODE_ABS) or \
                not tol.allclose(np.asarray(S, dtype=float), eS, 1e-5, 1e-7):
            viol.append({'sub': 'outputs_alias', 'message': 'after the caller '
                         'changed the list it had passed to set_outputs the model '
                         'no longer returns the selected outputs / their '
                         'sensitivities (%s)' % lab, 'expected': list(sel),
                         'observed': list(m.outputs()),
                         'behaviour': 'outputs_alias'})
        m.enable_sensitivities(False)
        # a selection naming one output twice: every row, and every row of the
        # sensitivities, is the named output's
        dup_idx = [0, len(sel) - 1, 0]
        m.set_outputs([sel[i] for i in dup_idx])
        m.enable_sensitivities(True)
        res_d = m.simulate(list(pv), list(times))
        ntr += 3
        ok_d = isinstance(res_d, tuple) and len(res_d) == 2
        if ok_d:
            y_d = np.asarray(res_d[0], dtype=float)
            S_d = np.asarray(res_d[1], dtype=float)
            ok_d = y_d.shape == (3, len(times)) and \
                S_d.shape == (len(times), 3, len(names)) and \
                tol.allclose(y_d, ey[dup_idx], tol.ODE_REL, tol.ODE_ABS) and \
                tol.allclose(S_d, eS[:, dup_idx, :], 1e-5, 1e-7)
        if not ok_d or m.n_outputs() != 3:
            viol.append({'sub': 'dup_outputs', 'message': 'with one output selected '
                         'twice the outputs / sensitivities are not those of the '
                         'named outputs row by row (%s)' % lab,
                         'expected': [[3, len(times)], [len(times), 3, len(names)]],
                         'observed': [list(np.shape(r_)) for r_ in res_d]
                         if isinstance(res_d, tuple) else repr(type(res_d)),
                         'behaviour': 'dup_outputs'})
        m.enable_sensitivities(False)
    if len(sel) > 1:
        # the same outputs selected again in another order while sensitivities are
        # on: rows of the outputs and of the sensitivities follow the new order
        m.set_outputs(list(sel))
        m.enable_sensitivities(True)
        rev = list(sel)[::-1]
        m.set_outputs(rev)
        res = m.simulate(list(pv), list(times))
        ntr += 3
        x_all = np.array(pv, dtype=float)
        ey = np.real(closed(x_all, list(range(len(names)))))[::-1]
        if isinstance(res, tuple):
            y_r, S_r = np.asarray(res[0], dtype=float), np.asarray(res[1],
                                                                    dtype=float)
            eS = np.empty((len(times), len(sel), len(names)))
            for k in range(len(names)):
                z = x_all.astype(complex)
                z[k] += 1j * 1e-30
                eS[:, :, k] = (np.imag(closed(z, list(range(len(names)))))
                               / 1e-30).T[:, ::-1]
            ok = tol.allclose(y_r, ey, tol.ODE_REL, tol.ODE_ABS) and \
                S_r.shape == eS.shape and tol.allclose(S_r, eS, 1e-5, 1e-7)
        else:
            ok = tol.allclose(np.asarray(res, dtype=float), ey, tol.ODE_REL,
                              tol.ODE_ABS)
        if not ok or list(m.outputs()) != rev:
            viol.append({'sub': 'outputs_reordered', 'message': 'after selecting the '
                         'same outputs in another order with sensitivities on, the '
                         'rows of outputs / sensitivities do not follow the '
                         'published output order (%s)' % lab, 'expected': rev,
                         'observed': list(m.outputs()),
                         'behaviour': 'outputs_reordered'})
        m.enable_sensitivities(False)
        m.set_outputs(list(sel))
    fx = [len(names) - 1]
    rm2 = chi.ReducedMechanisticModel(m)
    rm2.fix_parameters({names[i]: pv[i] for i in fx})
    rm2.enable_sensitivities(True)
    rm2.set_outputs(list(sel))
    free2 = [i for i in range(len(names)) if i not in fx]
    x2 = np.array([pv[i] for i in free2], dtype=float)
    res = rm2.simulate(list(x2), list(times))
    ntr += 3
    if isinstance(res, tuple):
        # (sensitivities still on: then they must be those of the free parameters)
        S2 = np.asarray(res[1], dtype=float)
        if S2.shape[2] != len(free2):
            viol.append({'sub': 'reduced_outputs_sens', 'message': 'after '
                         'set_outputs on a reduced model with sensitivities on, the '
                         'sensitivities are not w.r.t. the free parameters (%s)'
                         % lab, 'expected': len(free2), 'observed': list(S2.shape),
                         'behaviour': 'reduced_outputs_sens'})
    rm2.enable_sensitivities(True)
    y2, S2 = rm2.simulate(list(x2), list(times))
    S2 = np.asarray(S2, dtype=float)
    eS2 = np.empty((len(times), len(sel), len(free2)))
    for k in range(len(free2)):
        z = x2.astype(complex)
        z[k] += 1j * 1e-30
        eS2[:, :, k] = (np.imag(closed(z, free2)) / 1e-30).T
    if S2.shape != eS2.shape or not tol.allclose(S2, eS2, 1e-5, 1e-7):
        viol.append({'sub': 'reduced_outputs_sens', 'message': 'sensitivities of a '
                     'reduced model after set_outputs / re-enabling are not the '
                     'derivatives w.r.t. the free parameters (%s)' % lab,
                     'expected': eS2, 'observed': S2,
                     'behaviour': 'reduced_outputs_sens'})
    rm2.fix_parameters({names[i]: None for i in fx})
    m.enable_sensitivities(False)
    # a subset requested by name in another order than the published one (and with
    # a name twice): columns are the requested parameters in PUBLISHED order
    n_all = len(names)
    for req_idx in ([n_all - 1, 0], [1, n_all - 1, 1], list(range(n_all))[::-1]):
        m.set_outputs(list(sel))
        m.enable_sensitivities(True, [names[i] for i in req_idx])
        free_idx = sorted(set(req_idx))
        y, S = m.simulate(list(pv), list(times))
        ntr += 2
        S = np.asarray(S, dtype=float)
        x_all = np.array(pv, dtype=float)
        eS = np.empty((len(times), len(sel), len(free_idx)))
        for k, i in enumerate(free_idx):
            z = x_all.astype(complex)
            z[i] += 1j * 1e-30
            eS[:, :, k] = (np.imag(closed(z, list(range(n_all)))) / 1e-30).T
        if S.shape != eS.shape or not tol.allclose(S, eS, 1e-5, 1e-7):
            viol.append({'sub': 'sens_request_order', 'message': 'sensitivities '
                         'requested by name (%s) are not those parameters in '
                         'published order (%s)' % (req_idx, lab), 'expected': eS,
                         'observed': S, 'behaviour': 'sens_request_order'})
            break
    m.enable_sensitivities(False)
    # sensitivities must follow the free set through fix / swap / release calls made
    # while they are enabled
    if case.get('swap'):
        a, b = case['swap']
        m.set_outputs(list(sel))
        rm = chi.ReducedMechanisticModel(m)
        rm.enable_sensitivities(True)
        steps = [{names[a]: pv[a]}, {names[a]: None, names[b]: pv[b]},
                 {names[b]: None}]
        fixed_now = set()
        for step in steps:
            rm.fix_parameters(step)
            for k_, v_ in step.items():
                (fixed_now.discard if v_ is None else fixed_now.add)(
                    names.index(k_))
            free_idx = [i for i in range(len(names)) if i not in fixed_now]
            x = np.array([pv[i] for i in free_idx], dtype=float)
            y, S = rm.simulate(list(x), list(times))
            ntr += 2
            S = np.asarray(S, dtype=float)
            eS = np.empty((len(times), len(sel), len(free_idx)))
            for k in range(len(free_idx)):
                z = x.astype(complex)
                z[k] += 1j * 1e-30
                eS[:, :, k] = (np.imag(closed(z, free_idx)) / 1e-30).T
            if S.shape != eS.shape or not tol.allclose(S, eS, 1e-5, 1e-7):
                viol.append({'sub': 'sens_history', 'message': 'after fix / swap / '
                             'release calls with sensitivities enabled the '
                             'sensitivities are not w.r.t. the free parameters in '
                             'published order (%s)' % lab, 'fixed': sorted(fixed_now),
                             'expected': eS, 'observed': S,
                             'behaviour': 'sens_history'})
    # dosed initial-value problem (PKPD models): the input enters the IVP whatever
    # the sequence of enable_sensitivities / fix_parameters calls, also when the
    # regimen is given through the reduced wrapper with its documented defaults
    if case['cls'] == 'PKPD' and case.get('dosed'):
        comp = case['dosed']
        for variant in case['dose_variants']:
            tmp = tempfile.mkdtemp(prefix='vc09_')
            try:
                md = chi.PKPDModel(sbmlgen.write(desc, tmp))
            finally:
                shutil.rmtree(tmp, ignore_errors=True)
            if variant == 'sens_before_route':
                # sensitivities were on (and used) before the route was chosen
                md.set_outputs(list(sel))
                md.enable_sensitivities(True)
                md.simulate(list(pv), list(times))
            md.set_administration(comp, amount_var='drug_%s_amount' % comp,
                                  direct=True)
            if case.get('rename'):
                md.set_parameter_names(
                    {orig[i]: 'q_%d' % i for i in case['rename']})
            md.set_outputs(list(sel))
            dose, start = 1.7, 0.35
            fixed = [0]
            free_idx = [i for i in range(len(names)) if i not in fixed]
            x = np.array([pv[i] for i in free_idx], dtype=float)
            if variant == 'plain_indirect':
                # indirect route on a fresh model: a depot (called 'dose', or
                # 'dose_1' when the model has a compartment of that name) feeds the
                # dosed compartment at its absorption rate
                tmp = tempfile.mkdtemp(prefix='vc09_')
                try:
                    mi = chi.PKPDModel(sbmlgen.write(desc, tmp))
                finally:
                    shutil.rmtree(tmp, ignore_errors=True)
                mi.set_administration(comp, amount_var='drug_%s_amount' % comp,
                                      direct=False)
                mi.set_outputs(list(sel))
                duration = 0.4
                mi.set_dosing_regimen(dose, start=start, duration=duration)
                depot = 'dose_1' if any(c_['id'] == 'dose'
                                        for c_ in desc['comps']) else 'dose'
                vi = dict(zip(orig, pv))
                vi[depot + '.drug_amount'] = 0.37
                vi[depot + '.absorption_rate'] = 1.3
                names_i = list(mi.parameters())
                ntr += 3
                if sorted(names_i) != sorted(vi):
                    viol.append({'sub': 'indirect_names', 'message': 'parameters of '
                                 'the indirectly dosed model are not the model\'s '
                                 'own plus the depot\'s amount and absorption rate '
                                 '(%s)' % lab, 'expected': sorted(vi),
                                 'observed': sorted(names_i),
                                 'behaviour': 'indirect_names'})
                    continue
                y = np.asarray(mi.simulate([vi[n_] for n_ in names_i], list(times)),
                               dtype=float)
                r_ = rc.solve(desc, vi, times, dosed=comp,
                              events=[(start, duration, dose / duration)],
                              depot=True, depot_name=depot)
                ey = np.real(np.array([r_[o] for o in sel]))
                if y.shape != ey.shape or not tol.allclose(
                        y, ey, tol.ODE_REL, tol.ODE_ABS):
                    viol.append({'sub': 'dosed_values', 'message': 'simulation of '
                                 'the indirectly dosed model is not the solution of '
                                 'the documented initial-value problem with a depot '
                                 '(%s)' % lab, 'expected': ey, 'observed': y,
                                 'behaviour': 'dosed_values'})
                continue
            if variant == 'sens_before_route':
                duration = 0.4
                md.set_dosing_regimen(dose, start=start, duration=duration)
                md.enable_sensitivities(True)
                y, S_ = md.simulate(list(pv), list(times))
                y = np.asarray(y, dtype=float)
                ntr += 4
                r_ = rc.solve(desc, dict(zip(orig, pv)), times, dosed=comp,
                              events=[(start, duration, dose / duration)])
                ey = np.real(np.array([r_[o] for o in sel]))
                if y.shape != ey.shape or not tol.allclose(
                        y, ey, tol.ODE_REL, tol.ODE_ABS):
                    viol.append({'sub': 'dosed_values', 'message': 'simulation '
                                 'with sensitivities of the dosed model is not the '
                                 'solution of the dosed initial-value problem when '
                                 'sensitivities had been enabled before the route '
                                 'was set (%s)' % lab, 'expected': ey,
                                 'observed': y, 'behaviour': 'dosed_values'})
                continue
            if variant == 'copy_regimen':
                # a copy gets another regimen: the original keeps applying its own
                duration = 0.4
                md.set_dosing_regimen(dose, start=start, duration=duration)
                other = md.copy()
                other.set_dosing_regimen(7.0, start=0.1, duration=0.2)
                other.simulate(list(pv), list(times))
                y = np.asarray(md.simulate(list(pv), list(times)), dtype=float)
                ntr += 4
                r_ = rc.solve(desc, dict(zip(orig, pv)), times, dosed=comp,
                              events=[(start, duration, dose / duration)])
                ey = np.real(np.array([r_[o] for o in sel]))
                if y.shape != ey.shape or not tol.allclose(
                        y, ey, tol.ODE_REL, tol.ODE_ABS):
                    viol.append({'sub': 'dosed_values', 'message': 'after a copy '
                                 'was given another regimen the original does not '
                                 'solve its own dosed initial-value problem (%s)'
                                 % lab, 'expected': ey, 'observed': y,
                                 'behaviour': 'dosed_values'})
                continue
            if variant in ('plain_numbers', 'plain_protocol'):
                import myokit
                duration = 0.4
                if variant == 'plain_numbers':
                    md.set_dosing_regimen(dose, start=start, duration=duration)
                else:
                    # twice: the regimen applied is the one given last
                    p0 = myokit.Protocol()
                    p0.add(myokit.ProtocolEvent(9.0, 0.1, 0.2))
                    md.set_dosing_regimen(p0)
                    p1 = myokit.Protocol()
                    p1.add(myokit.ProtocolEvent(dose / duration, start, duration))
                    md.set_dosing_regimen(p1)
                events = [(start, duration, dose / duration)]
                y = np.asarray(md.simulate(list(pv), list(times)), dtype=float)
                ntr += 2
                r_ = rc.solve(desc, dict(zip(orig, pv)), times, dosed=comp,
                              events=events)
                ey = np.real(np.array([r_[o] for o in sel]))
                if y.shape != ey.shape or not tol.allclose(
                        y, ey, tol.ODE_REL, tol.ODE_ABS):
                    viol.append({'sub': 'dosed_values', 'message': 'simulation of '
                                 'the dosed model is not the solution of the dosed '
                                 'initial-value problem (%s, %s)' % (lab, variant),
                                 'expected': ey, 'observed': y,
                                 'behaviour': 'dosed_values'})
                continue
            if variant == 'wrapper_default':
                # documented default of the wrapper: bolus of duration 0.01
                rm = chi.ReducedMechanisticModel(md)
                rm.set_dosing_regimen(dose, start)
                duration = 0.01
                rm.fix_parameters({names[0]: pv[0]})
                rm.enable_sensitivities(True)
            else:
                duration = 0.4
                md.set_dosing_regimen(dose, start=start, duration=duration)
                rm = chi.ReducedMechanisticModel(md)
                if variant == 'sens_twice':
                    rm.enable_sensitivities(True)
                    rm.enable_sensitivities(True)
                    rm.fix_parameters({names[0]: pv[0]})
                elif variant == 'fix_after_sens':
                    rm.enable_sensitivities(True)
                    rm.fix_parameters({names[0]: pv[0]})
                elif variant == 'subset':
                    md.enable_sensitivities(True)
                    md.enable_sensitivities(
                        True, [names[i] for i in free_idx])
                    rm = None
                else:           # 'toggle'
                    rm.fix_parameters({names[0]: pv[0]})
                    rm.enable_sensitivities(True)
                    rm.enable_sensitivities(False)
                    rm.enable_sensitivities(True)
            events = [(start, duration, dose / duration)]

            def closed_d(vec):
                v = dict(values)
                for k, i in enumerate(free_idx):
                    v[orig[i]] = vec[k]
                r = rc.solve(desc, v, times, dosed=comp, events=events)
                return np.array([r[o] for o in sel])
            if rm is None:
                y, S = md.simulate(list(pv), list(times))
            else:
                y, S = rm.simulate(list(x), list(times))
            ntr += 4
            S = np.asarray(S, dtype=float)
            ey = np.real(closed_d(x))
            eS = np.empty((len(times), len(sel), len(free_idx)))
            for k in range(len(free_idx)):
                z = x.astype(complex)
                z[k] += 1j * 1e-30
                eS[:, :, k] = (np.imag(closed_d(z)) / 1e-30).T
            if not tol.allclose(np.asarray(y, dtype=float), ey, tol.ODE_REL,
                                tol.ODE_ABS):
                viol.append({'sub': 'dosed_values', 'message': 'simulation of the '
                             'dosed model is not the solution of the dosed '
                             'initial-value problem (%s, %s)' % (lab, variant),
                             'expected': ey, 'observed': y,
                             'behaviour': 'dosed_values'})
            elif S.shape != eS.shape or not tol.allclose(S, eS, 1e-5, 1e-7):
                viol.append({'sub': 'dosed_sens', 'message': 'sensitivities of the '
                             'dosed model are not the derivatives w.r.t. the free '
                             'parameters (%s, %s)' % (lab, variant),
                             'expected': eS, 'observed': S,
                             'behaviour': 'dosed_sens'})
            outcome.append(tol.rnd(y, 6))
    return {'transitions': ntr, 'outcome': outcome, 'violations': viol}


# ----------------------------------------------------------------- library models

def _lib_reference(kind, names, pv, times, outputs):
    """Documented equations, typed by hand from the model library docstrings."""
    v = dict(zip(names, pv))
    if kind == 'one_compartment_pk_model':
        def f(t, y):
            return [-v['global.elimination_rate'] * y[0]]
        y0 = [v['central.drug_amount']]

        def out(y):
            return {'central.drug_amount': y[0],
                    'central.drug_concentration': y[0] / v['central.size']}
    elif kind == 'tumour_growth_inhibition_model_koch':
        def f(t, y):
            V = y[0]
            l0, l1 = v['global.lambda_0'], v['global.lambda_1']
            return [2 * l0 * l1 * V / (2 * l0 * V + l1)
                    - v['global.kappa'] * v['global.drug_concentration'] * V]
        y0 = [v['global.tumour_volume']]

        def out(y):
            return {'global.tumour_volume': y[0]}
    elif kind == 'tumour_growth_inhibition_model_koch_reparametrised':
        def f(t, y):
            V = y[0]
            lam, vc = v['global.lambda'], v['global.critical_volume']
            return [lam * vc * V / (V + vc)
                    - v['global.kappa'] * v['global.drug_concentration'] * V]
        y0 = [v['global.tumour_volume']]

        def out(y):
            return {'global.tumour_volume': y[0]}
    elif kind == 'erlotinib_tumour_growth_inhibition_model':
        def f(t, y):
            A, V = y
            c = A / v['central.size']
            lam, vc = v['global.lambda'], v['global.critical_volume']
            return [-v['global.elimination_rate'] * A,
                    lam * vc * V / (V + vc) - v['global.kappa'] * c * V]
        y0 = [v['central.drug_amount'], v['global.tumour_volume']]

        def out(y):
            return {'central.drug_amount': y[0],
                    'central.drug_concentration': y[0] / v['central.size'],
                    'global.tumour_volume': y[1]}
    sol = solve_ivp(f, (0, times[-1] + 1e-9), y0, t_eval=times, rtol=1e-11,
                    atol=1e-13, method='LSODA')
    o = out(sol.y)
    return np.array([o[name] for name in outputs])


LIB_NAMES = {
    'one_compartment_pk_model': [
        'central.drug_amount', 'central.size', 'global.elimination_rate'],
    'tumour_growth_inhibition_model_koch': [
        'global.tumour_volume', 'global.drug_concentration', 'global.kappa',
        'global.lambda_0', 'global.lambda_1'],
    'tumour_growth_inhibition_model_koch_reparametrised': [
        'global.tumour_volume', 'global.critical_volume',
        'global.drug_concentration', 'global.kappa', 'global.lambda'],
    'erlotinib_tumour_growth_inhibition_model': [
        'central.drug_amount', 'global.tumour_volume', 'central.size',
        'global.critical_volume', 'global.elimination_rate', 'global.kappa',
        'global.lambda'],
}
LIB_OUTPUTS = {
    'one_compartment_pk_model': ['central.drug_concentration',
                                 'central.drug_amount'],
    'tumour_growth_inhibition_model_koch': ['global.tumour_volume'],
    'tumour_growth_inhibition_model_koch_reparametrised': ['global.tumour_volume'],
    'erlotinib_tumour_growth_inhibition_model': [
        'global.tumour_volume', 'central.drug_concentration',
        'central.drug_amount'],
}


def w_library(case):
    kind = case['kind']
    viol = []
    # (ONE library object: the model examined is requested after an earlier one of
    # the same kind was requested and configured by the caller)
    lib = chi.library.ModelLibrary()
    earlier = getattr(lib, kind)()
    if hasattr(earlier, 'set_administration') and any(
            n_.startswith('central.') for n_ in earlier.parameters()):
        earlier.set_administration('central', direct=False)
        earlier.set_dosing_regimen(3.0, start=0.1, duration=0.2)
    earlier.set_outputs(earlier.outputs()[:1])
    earlier.set_parameter_names({earlier.parameters()[-1]: 'renamed earlier'})
    earlier.enable_sensitivities(True)
    m = getattr(lib, kind)()
    names = m.parameters()
    if names != LIB_NAMES[kind]:
        viol.append({'sub': 'names', 'message': 'library model %s: parameter names '
                     'are not states then constants alphabetically' % kind,
                     'expected': LIB_NAMES[kind], 'observed': names,
                     'behaviour': 'lib_names'})
        return {'transitions': 1, 'outcome': 'names', 'violations': viol}
    outs = case['outputs']
    m.set_outputs(outs)
    pv, times = case['point'], case['times']
    y = np.asarray(m.simulate(list(pv), list(times)), dtype=float)
    e = _lib_reference(kind, names, pv, times, outs)
    if y.shape != e.shape or not tol.allclose(y, e, 1e-6, 1e-8):
        viol.append({'sub': 'lib_traj', 'message': 'library model %s does not obey '
                     'its documented equations (outputs %s)' % (kind, outs),
                     'expected': e, 'observed': y, 'behaviour': 'lib_traj'})
    # sensitivities vs central differences of the documented equations
    m.enable_sensitivities(True)
    y2, S = m.simulate(list(pv), list(times))
    S = np.asarray(S, dtype=float)
    eS = np.empty((len(times), len(outs), len(pv)))
    for k in range(len(pv)):
        h = 1e-5 * max(1.0, abs(pv[k]))
        a, b = list(pv), list(pv)
        a[k] += h
        b[k] -= h
        eS[:, :, k] = ((_lib_reference(kind, names, a, times, outs)
                        - _lib_reference(kind, names, b, times, outs)) / (2 * h)).T
    if S.shape != eS.shape or not tol.allclose(S, eS, 2e-4, 2e-6):
        viol.append({'sub': 'lib_sens', 'message': 'library model %s: sensitivities '
                     'are not the derivatives of the documented solution' % kind,
                     'expected': eS, 'observed': S, 'behaviour': 'lib_sens'})
    return {'transitions': 4, 'outcome': tol.rnd(y, 6), 'violations': viol}


from . import c10 as _c10_mod  # noqa: E402

WORKERS = {'generated': w_program, 'library': w_library,
           'amount_var': _c10_mod.w_amount_var}


def build(tier, seed):
    # (quick: the 3-compartment model comes with identity / reversed / rotated
    # declaration orders -- the rotation is a 3-cycle w.r.t. alphabetical order)
    topologies = ['one', 'chain2', 'chain2mixed', 'chain2dose', 'mam2', 'mam3'] \
        if tier == 'quick' else \
        ['one', 'chain2', 'chain2mixed', 'chain2dose', 'mam2', 'chain3', 'mam3']
    descs = sbmlgen.all_descriptors(topologies, full_perms=(tier == 'thorough'))
    cases = []
    for di, desc in enumerate(descs):
        states, consts = published(desc)
        n = len(states) + len(consts)
        points = [vals.reals('c09.p%d' % k, n, 0.25, 2.0, seed) for k in (0, 1)]
        grids = [[0.0, 0.7, 1.9], sorted(vals.reals('c09.t', 3, 0.1, 3.0, seed))]
        cands = candidate_outputs(desc)
        sels = [[o] for o in cands] + [list(p) for p in
                                      itertools.permutations(cands, 2)]
        if tier == 'quick':
            sels = sels[di % 3::3]
        sens_out = [cands[(di + 1) % len(cands)], cands[(di + 3) % len(cands)]]
        if sens_out[0] == sens_out[1]:
            sens_out = sens_out[:1]
        fixed_sets = [[]]
        if tier == 'thorough' or di % 2 == 0:
            fixed_sets += [[di % n], [0, n - 1], [(di + 1) % n, (di + 2) % n]]
        cases.append({'desc': desc, 'cls': 'PKPD' if di % 2 else 'SBML',
                      'points': points, 'grids': grids, 'selections': sels,
                      'sens_outputs': sens_out, 'fixed_sets': fixed_sets,
                      'swap': [di % n, (di + 2) % n] if n > 2 else None,
                      'rename': [[], [1], list(range(n)), [0, n - 1]][di % 4],
                      'dosed': sorted(c['id'] for c in desc['comps'])[
                          di % len(desc['comps'])],
                      'dose_variants': ['plain_indirect', 'sens_before_route',
                                        'copy_regimen',
                                        'plain_numbers',
                                        'plain_protocol',
                                        'sens_twice', 'fix_after_sens', 'subset',
                                        'toggle', 'wrapper_default']})
    lib = []
    for kind in LIB_NAMES:
        n = len(LIB_NAMES[kind])
        outs = LIB_OUTPUTS[kind]
        orders = [list(p) for r in (1, 2) for p in itertools.permutations(outs, r)]
        for oi, o in enumerate(orders):
            for k in (0, 1):
                lib.append({'kind': kind, 'outputs': o,
                            'point': vals.reals('c09.lib%d' % k, n, 0.3, 2.0, seed),
                            'times': [[0.0, 0.5, 2.0],
                                      sorted(vals.reals('c09.lt', 3, 0.1, 4, seed))
                                      ][k]})
    from . import c10 as _c10
    av = [c for part in _c10.build(tier, seed)['parts']
          if part.name == 'amount_var' for c in part.cases]
    return {
        'parts': [
            Part('amount_var', av, _c10.w_amount_var,
                 'two species in one compartment, dosed through either state '
                 'variable and route after every sequence of <= 3 '
                 'set_administration calls (cases and closed form of C10)'),
            Part('generated', cases, w_program,
                 'generated compartment models x declaration orders x output '
                 'selections x points x grids x sensitivity subsets'),
            Part('library', lib, w_library,
                 'the four library models vs their documented equations'),
        ],
        'bounds': {'topologies': topologies,
                   'declaration_orders': 'all permutations' if tier == 'thorough'
                   else 'identity, reversed, rotation'},
        'rule': 'programs = topology x declaration orders; per program all ordered '
                'output selections of <=2 variables (a third of them in quick); '
                'distinct = distinct trajectories',
        'min_outcomes': {'generated': 10},
        'assumptions': ['RefSimulation stands in for myokit/CVODES (DESIGN §2.1): '
                        'decides name->position mapping, output order, requested '
                        'sensitivities -- not solver numerics',
                        'tolerance 1e-6 through the ODE solve'],
    }


META = {
    'technique': 'bounded exhaustive enumeration of generated SBML programs '
                 '(topologies x declaration orders) and output selections on the real '
                 'SBMLModel/PKPDModel/ReducedMechanisticModel over a reference ODE '
                 'solver, against closed-form matrix-exponential solutions',
    'level_text': 'Every declaration order of compartments, species and parameters of '
                  '1-3 compartment chain/mammillary models with derived constants and '
                  'intermediate variables is imported; parameter naming/order, every '
                  'ordered output selection (<=2), two parameter points, two grids, '
                  'and sensitivities for the full and reduced parameter sets are '
                  'compared with closed forms in which values are attached to '
                  'published NAMES. The four library models are compared with their '
                  'documented equations.',
    'level_note': 'Runs on RefSimulation (pure-Python stand-in for myokit.Simulation, '
                  'self-tested against closed forms): decides how chi uses the solver '
                  'API, not CVODES. Linear models only for generated programs.',
}
META['level_text'] += (
    ' Also: indirect administration with a depot (closed form), a model whose own c'
    "ompartment is called 'dose', a model with two species in one compartment dosed"
    ' through either state variable after every sequence of <= 3 set_administration'
    ' calls, sensitivities enabled before the route is chosen, the wrapper with not'
    'hing fixed.')
META['level_text'] += (' Wave 9: retained outputs / sensitivities across simulations, a selection naming one output twice with sensitivities.')
