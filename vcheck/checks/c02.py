"""C02 — hierarchical log-likelihood = individual likelihoods + population density, read
in the published order, with names/IDs describing each position.

Shape (A): every sequence of population sub-models whose dimensions sum to the bottom
dimension (3), bare / composed / reduced, n_ids in 1..3, individual-specific data and
covariates; real chi.HierarchicalLogLikelihood / HierarchicalLogPosterior against
gen.hier.ref_score (ref.populations + ref.errors + ref.toy)."""
import itertools
import re

import numpy as np

import chi

from ..core import tol
from ..core.engine import Part, key_of
from ..gen import hier, popbuild, popvals
from ..ref import populations as rp

PROPERTY = 'C02'


def w_hier(case):
    viol = []
    lab = popbuild.label(case['spec'])
    vec = np.array(case['vec'], dtype=float)
    ntr = 0
    try:
        hl = hier.build(case)
        ntr += 1
    except Exception as e:
        return {'transitions': 1, 'outcome': 'ctor:' + type(e).__name__,
                'violations': [{
                    'sub': 'construct', 'message': 'population model %s cannot be '
                    'used in a hierarchical log-likelihood: %s: %s'
                    % (lab, type(e).__name__, e), 'expected': 'constructible',
                    'observed': repr(e), 'behaviour': 'ctor:' + type(e).__name__}]}
    # (asking for names, in any form and any number of times, changes nothing)
    pm_ = hl.get_population_model()
    for _ in range(2):
        pm_.get_parameter_names(exclude_dim_names=True)
        pm_.get_parameter_names()
        pm_.get_dim_names()
        hl.get_parameter_names()
    n_ids = case['n_ids']
    nb = rp.n_bottom(case['spec'], n_ids)
    nt = rp.n_top(case['spec'], n_ids)
    # counts
    got_counts = [hl.n_parameters(), hl.n_parameters(exclude_bottom_level=True)]
    if got_counts != [nb + nt, nt]:
        viol.append({'sub': 'counts', 'message': 'n_parameters (all, top) wrong '
                     'for %s' % lab, 'expected': [nb + nt, nt],
                     'observed': got_counts, 'behaviour': 'counts'})
    if len(vec) != nb + nt:
        raise AssertionError('harness: vector length')
    # score
    exp = float(np.real(hier.ref_score(case, vec)))
    try:
        got = hl(vec.copy())
        ntr += 1
    except Exception as e:
        viol.append({'sub': 'call', 'message': 'evaluation raises for %s: %s: %s'
                     % (lab, type(e).__name__, e), 'expected': exp,
                     'observed': repr(e), 'behaviour': 'call:' + type(e).__name__})
        return {'transitions': ntr, 'outcome': 'raise', 'violations': viol}
    if not tol.close(got, exp):
        viol.append({'sub': 'score', 'message': 'hierarchical log-likelihood is not '
                     'sum of individual likelihoods + population density in the '
                     'published order (%s, n_ids=%d)' % (lab, n_ids),
                     'expected': exp, 'observed': got, 'behaviour': 'score'})
    # a second point: every entry moved by its own amount
    shift = 1 + 0.01 * (1 + np.arange(len(vec)) % 7)
    vec2 = vec.copy()
    sp = rp.special(case['spec'])
    # (keep pooled/hetero consistent automatically: they live in the top part)
    vec2 = vec2 * shift
    exp2 = float(np.real(hier.ref_score(case, vec2)))
    got2 = hl(vec2.copy())
    ntr += 1
    # the caller moves entries of one array object in place between evaluations
    # (as a hand-written optimiser or finite-difference loop does)
    v_obj = vec.copy()
    hl(v_obj)
    moved = True
    for k_ in (len(vec) - 1, nb, 0):
        v_obj[k_] *= 1.003
        e_m = float(np.real(hier.ref_score(case, v_obj.copy())))
        g_m = hl(v_obj)
        ntr += 1
        if not tol.close(g_m, e_m):
            viol.append({'sub': 'inplace', 'message': 'after entry %d of the SAME '
                         'array object was changed in place the hierarchical '
                         'log-likelihood is not the value at the new vector (%s, '
                         'n_ids=%d)' % (k_, lab, n_ids), 'expected': e_m,
                         'observed': g_m, 'behaviour': 'score'})
            break
    if case.get('int_vec'):
        # whole-number vector handed over as an integer array, a list of Python
        # ints and a float array: one and the same value
        v3 = np.maximum(1, np.round(np.abs(vec)))
        v3[nb:] += 3
        exp3 = float(np.real(hier.ref_score(case, v3)))
        for form, arg in (('int array', v3.astype(int)),
                          ('list of ints', [int(x) for x in v3]),
                          ('float array', v3.copy())):
            got3 = hl(arg)
            ntr += 1
            if not tol.close(got3, exp3):
                viol.append({
                    'sub': 'int_vec', 'message': 'hierarchical log-likelihood wrong '
                    'for a whole-number vector passed as %s (%s, n_ids=%d)'
                    % (form, lab, n_ids), 'expected': exp3, 'observed': got3,
                    'behaviour': 'score'})
                break
    if not tol.close(got2, exp2):
        viol.append({'sub': 'score2', 'message': 'hierarchical log-likelihood '
                     'wrong at the second point (%s, n_ids=%d)' % (lab, n_ids),
                     'expected': exp2, 'observed': got2, 'behaviour': 'score'})
    if case.get('value_only'):
        # (one sub-model object listed several times carries one set of dimension
        # names: only the value is defined)
        return {'transitions': ntr, 'outcome': tol.rnd([got, got2]),
                'violations': viol}
    # names and ids
    e_names, e_ids = hier.ref_names(case, include_ids=True)
    g_names = hl.get_parameter_names(include_ids=True)
    g_ids = hl.get_id()
    if list(g_names) != e_names:
        beh = 'names'
        strip_dim = lambda n_: re.sub(r'Dim\. \d+', 'Dim. #', n_)
        if case.get('rename_reset') and len(g_names) == len(e_names) and \
                [strip_dim(n_) for n_ in g_names] == \
                [strip_dim(n_) for n_ in e_names] and \
                len(set(g_names)) < len(g_names):
            # known finding F-C02-composed-dims-reset: only the numbering of the
            # default dimension names differs, and names coincide
            beh = 'dims_reset_numbering'
        viol.append({'sub': 'names', 'message': 'published names (with IDs) do not '
                     'describe the positions (%s)' % lab, 'expected': e_names,
                     'observed': list(g_names), 'behaviour': beh})
        if beh == 'dims_reset_numbering':
            return {'transitions': ntr, 'outcome': tol.rnd([got, got2]),
                    'violations': viol}
    if list(g_ids) != e_ids:
        viol.append({'sub': 'ids', 'message': 'published IDs do not describe the '
                     'positions (%s)' % lab, 'expected': e_ids,
                     'observed': list(g_ids), 'behaviour': 'ids'})
    e_plain, _ = hier.ref_names(case, include_ids=False)
    if list(hl.get_parameter_names()) != e_plain:
        viol.append({'sub': 'names_plain', 'message': 'names without IDs wrong',
                     'expected': e_plain,
                     'observed': list(hl.get_parameter_names())})
    if list(hl.get_parameter_names(exclude_bottom_level=True)) != e_plain[nb:]:
        viol.append({'sub': 'names_top', 'message': 'top-level names wrong',
                     'expected': e_plain[nb:], 'observed': list(
                         hl.get_parameter_names(exclude_bottom_level=True))})
    # posterior
    if case.get('prior'):
        post = chi.HierarchicalLogPosterior(hl, hier.build_prior(nt))
        gp = post(vec.copy())
        ntr += 1
        ep = float(np.real(hier.ref_score(case, vec, with_prior=True)))
        if not tol.close(gp, ep):
            viol.append({'sub': 'posterior', 'message': 'hierarchical log-posterior '
                         'is not prior(top) + likelihood (%s)' % lab,
                         'expected': ep, 'observed': gp, 'behaviour': 'posterior'})
        if list(post.get_parameter_names(include_ids=True)) != e_names or \
                list(post.get_id()) != e_ids or \
                post.n_parameters() != nb + nt:
            viol.append({'sub': 'post_names', 'message': 'posterior names/ids/count '
                         'differ from the likelihood\'s', 'expected': e_names,
                         'observed': list(post.get_parameter_names(
                             include_ids=True))})
    # the population model the likelihood works with is renamed afterwards: the
    # names the likelihood publishes for the population-level positions are the
    # names that model reports NOW
    if not viol and not case.get('rename_reset'):
        try:
            pm_.set_dim_names(['late %d' % k_ for k_ in range(pm_.n_dim())])
            late_top = list(hl.get_parameter_names(exclude_bottom_level=True))
            late_pm = list(pm_.get_parameter_names())
            if late_top != late_pm:
                viol.append({'sub': 'names_late', 'message': 'after the population '
                             'model was given other dimension names the likelihood '
                             'publishes other population-level names than its '
                             'population model (%s)' % lab, 'expected': late_pm,
                             'observed': late_top, 'behaviour': 'names_late'})
        except NotImplementedError:
            pass
    return {'transitions': ntr, 'outcome': tol.rnd([got, got2]),
            'violations': viol}


def w_empty(case):
    """An individual without measurements still is an individual: the hierarchical
    value is the sum of the individuals' own log-likelihood objects at their
    parameters (whatever those return) plus the population density."""
    from ..gen.toymodel import ToyModel
    viol = []
    n_ids = 3
    data = [([0.3, 1.1], [1.2, 2.0]), ([0.5, 0.9, 1.7], [1.0, 1.6, 2.4]),
            ([0.7], [1.5])]
    lls = []
    for i_, (t_, y_) in enumerate(data):
        if i_ == case['empty']:
            t_, y_ = [], []
        lls.append(chi.LogLikelihood(ToyModel(2, 1), chi.GaussianErrorModel(),
                                     y_, t_))
    spec = rp.Comp([rp.LN(1), rp.P(1), rp.G(1)])
    pop = popbuild.build(spec, None)
    hl = chi.HierarchicalLogLikelihood(lls, pop)
    # bottom: (p0, sigma) per individual; top: LN(log mean, log std), pooled p1,
    # G(mean, std) of sigma
    sig = [0.5, 0.7, 0.6]
    sig[case['empty']] = case['sigma']
    bottom = [[0.9, sig[0]], [1.2, sig[1]], [0.7, sig[2]]]
    top = [0.1, 0.4, 0.8, 0.5, 0.6]
    vec = np.array([v for row in bottom for v in row] + top)
    psi = [[b[0], top[2], b[1]] for b in bottom]
    parts = [float(ll_(np.array(p_))) for ll_, p_ in zip(lls, psi)]
    obs = np.array([[b[0], top[2], b[1]] for b in bottom])
    exp = sum(parts) + float(np.real(rp.logpop(spec, np.array(top), obs, None)))
    got = [float(hl(vec.copy())), float(hl.evaluateS1(vec.copy())[0])]
    if not all(tol.close(g_, exp) for g_ in got):
        viol.append({'sub': 'empty_individual', 'message': 'with an individual '
                     'without measurements (sigma %s) the hierarchical value is '
                     'not the sum of the individuals\' own log-likelihoods plus the '
                     'population density' % case['sigma'], 'expected': exp,
                     'observed': got, 'parts': parts,
                     'behaviour': 'empty_individual'})
    return {'transitions': 6, 'outcome': key_of([case, tol.rnd(got)]),
            'violations': viol}


WORKERS = {'compositions': w_hier, 'reduced': w_hier, 'ids': w_hier,
           'int_vectors': w_hier, 'nested': w_hier, 'empty_individual': w_empty}


def build(tier, seed):
    kinds = hier.KINDS10       # every class in both tiers
    max_ids = 2 if tier == 'quick' else 3
    cases = []
    for spec in hier.structures(3, kinds):
        for n_ids in range(1, max_ids + 1):
            cases.append(hier.make_case(spec, n_ids, seed, prior=(n_ids == 2)))
    if tier == 'thorough':
        # 4-dimensional bottom level (two-parameter error model): every sequence of
        # sub-models over the 10-kind alphabet
        for spec in hier.structures(4, hier.KINDS6):
            for n_ids in (1, 2, 3):
                cases.append(hier.make_case(spec, n_ids, seed, err='CM'))
    # covariate models with an explicit selection on a 2-dimensional model (the
    # betas are published under the selected parameter's name)
    for sel in ([[0, 1]], [[1, 0]], [[0, 1], [1, 0]], [[1, 1], [0, 0]]):
        for inner in (rp.G(2), rp.LN(2, False)):
            for spec in (rp.Comp([rp.Cov(inner, 1, sel), rp.P(1)]),
                         rp.Comp([rp.P(1), rp.Cov(inner, 2, sel)])):
                for n_ids in (1, 2):
                    cases.append(hier.make_case(spec, n_ids, seed))
    # covariates supplied although the population model has none: ignored
    for spec in hier.structures(3, ['G', 'Gnc', 'LNnc', 'TG', 'P', 'H']):
        if spec['kind'] != 'Comp' or len(spec['parts']) == 2 or tier == 'thorough':
            for n_ids in (1, 2):
                c = hier.make_case(spec, n_ids, seed)
                c['extra_cov'] = True
                cases.append(c)
    # nobody is shifted: all covariates zero, or all covariate coefficients zero
    # (the individuals still are separate individuals)
    for spec in hier.structures(3, ['G', 'LNnc', 'P', 'H', 'Cov(G)', 'Cov(LNnc)',
                                    'Cov(P)', 'Cov(TG)']):
        if not rp.n_cov(spec):
            continue
        for n_ids in (2, 3):
            for what in ('cov', 'beta'):
                c = hier.make_case(spec, n_ids, seed)
                if what == 'cov':
                    c['cov'] = (0.0 * np.array(c['cov'])).tolist()
                else:
                    names_z = popbuild.build(spec, n_ids).get_parameter_names()
                    nb_z = rp.n_bottom(spec, n_ids)
                    for i_z, nm in enumerate(names_z):
                        if 'Cov.' in nm:
                            c['vec'][nb_z + i_z] = 0.0
                cases.append(c)
    # names reset to defaults after user-given names (n_ids = 3: heterogeneous
    # blocks of several dimensions and individuals)
    for spec in hier.structures(3, kinds):
        if 'H' in popbuild.label(spec) or tier == 'thorough':
            c = hier.make_case(spec, 3, seed)
            c['rename_reset'] = True
            cases.append(c)
    # reduced population models: every subset of <= 2 fixed top parameters
    red = []
    bases = [rp.Comp([rp.G(1), rp.P(1), rp.LN(1, False)]),
             rp.Comp([rp.H(1), rp.G(2, False)]),
             rp.Comp([rp.Cov(rp.G(1)), rp.LN(1), rp.P(1)]),
             rp.Comp([rp.G(1), rp.H(1), rp.P(1)]),
             rp.G(3), rp.Comp([rp.P(2), rp.TG(1)])]
    if tier == 'quick':
        bases = bases[:4]
    for base in bases:
        for n_ids in range(1, max_ids + 1):
            n = rp.n_top(base, n_ids)
            full = popvals.top_values(base, n_ids, seed, positive=True)
            for r in (1, 2):
                for idx in itertools.combinations(range(n), r):
                    spec = rp.Red(base, {i: full[i] for i in idx})
                    red.append(hier.make_case(spec, n_ids, seed, prior=(r == 1)))
                    # the same wrapper created and fixed for one individual, the
                    # hierarchical likelihood sets the number of individuals
                    if n_ids > 1 and popbuild.build_early(spec, n_ids) is not None:
                        c = hier.make_case(spec, n_ids, seed)
                        c['early'] = True
                        red.append(c)
    # the population model object was used for another number of individuals before
    # (reduced models without a heterogeneous part, and unwrapped models of all kinds)
    for base in (rp.Comp([rp.G(1), rp.P(1), rp.LN(1, False)]),
                 rp.Comp([rp.Cov(rp.G(1)), rp.LN(1), rp.P(1)]),
                 rp.Comp([rp.G(1, False), rp.P(2)])):
        for k_b, n_ids in ((3, 1), (2, 1), (1, 2), (3, 2)):
            n = rp.n_top(base, n_ids)
            full = popvals.top_values(base, n_ids, seed, positive=True)
            for idx in [(i,) for i in range(n)] + [(0, n - 1)]:
                c = hier.make_case(rp.Red(base, {i: full[i] for i in idx}), n_ids,
                                   seed)
                c['used_before'] = k_b
                red.append(c)
    for spec in hier.structures(3, ['G', 'LNnc', 'P', 'H', 'Cov(G)']):
        if spec['kind'] == 'Comp' and len(spec['parts']) == 2:
            for k_b, n_ids in ((3, 1), (1, 2)):
                c = hier.make_case(spec, n_ids, seed)
                c['used_before'] = k_b
                cases.append(c)
    # nested compositions: a composed model inside a composed model, first / last
    nest = []
    inner_kinds = ['G', 'Gnc', 'LNnc', 'P', 'H', 'Cov(G)']
    for a, b in itertools.product(inner_kinds, repeat=2):
        for outer in ('LN', 'Gnc'):
            inner = rp.Comp([popbuild.elem(a, 1), popbuild.elem(b, 1)])
            for spec in (rp.Comp([popbuild.elem(outer, 1), inner]),
                         rp.Comp([inner, popbuild.elem(outer, 1)])):
                for n_ids in (1, 2):
                    c = hier.make_case(spec, n_ids, seed)
                    # (default dimension names of nested compositions are numbered
                    # per composition level, which no document fixes: value and
                    # counts here, distinctness of names in C17)
                    c['value_only'] = True
                    nest.append(c)
    # the same sub-model object listed several times (value only)
    for parts in ([rp.G(1), rp.G(1), rp.P(1)], [rp.LN(1, False), rp.LN(1, False),
                                                rp.G(1)],
                  [rp.LN(1), rp.P(1), rp.LN(1)],
                  [rp.Cov(rp.G(1), 1), rp.Cov(rp.G(1), 1), rp.LN(1)]):
        spec = rp.Comp(parts)
        spec['shared'] = True
        for n_ids in (1, 2, 3):
            c = hier.make_case(spec, n_ids, seed)
            c['value_only'] = True
            nest.append(c)
    # several covariate models built around ONE base model object: each keeps its own
    # copy, so names and values are those of separately built base models
    for parts in ([rp.Cov(rp.G(1), 1), rp.Cov(rp.G(1), 1), rp.LN(1)],
                  [rp.Cov(rp.LN(1, False), 1), rp.P(1), rp.Cov(rp.LN(1, False), 2)],
                  [rp.Cov(rp.P(1), 1), rp.Cov(rp.P(1), 1), rp.Cov(rp.P(1), 2)]):
        spec = rp.Comp(parts)
        spec['shared_inner'] = True
        for n_ids in (1, 2, 3):
            nest.append(hier.make_case(spec, n_ids, seed))
    # whole-number parameter vectors in integer / list / float form
    intc = []
    for spec in hier.structures(3, ['G', 'LNnc', 'P', 'Cov(G)', 'Cov(LNnc)']):
        c = hier.make_case(spec, 2, seed)
        c['int_vec'] = True
        intc.append(c)
    # a population parameter fixed at exactly 0 (means, log-means, pooled values,
    # covariate coefficients) is fixed
    for base in bases:
        for n_ids in (1, 2):
            names_b = popbuild.build(base, n_ids).get_parameter_names()
            for i_, nm in enumerate(names_b):
                if nm.lower().startswith(('mean', 'log mean', 'pooled')) or \
                        'Cov.' in nm:
                    red.append(hier.make_case(rp.Red(base, {i_: 0.0}), n_ids, seed))
    # ... and so is the scale of a non-centred dimension (the individuals then all
    # sit on the population mean, their eta still scored as standard normal)
    for base in (rp.Comp([rp.G(1, False), rp.P(1), rp.LN(1)]),
                 rp.Comp([rp.H(1), rp.G(2, False)]),
                 rp.Comp([rp.G(1), rp.LN(1, False), rp.P(1)])):
        # (not under a covariate model: there the individuals' scale is the fixed
        # 0 plus a covariate term of either sign)
        for n_ids in (1, 2):
            names_b = popbuild.build(base, n_ids).get_parameter_names()
            for i_, nm in enumerate(names_b):
                if nm.lower().startswith(('std', 'log std')) and 'Cov.' not in nm:
                    red.append(hier.make_case(rp.Red(base, {i_: 0.0}), n_ids, seed))
    # ID handling: integer, float-with-.0 and string IDs
    idc = []
    for ids in ([1, 2, 3], [10.0, 2.0, 7.0], ['b', 'a', 'c'], [3, 'x', 1.0]):
        for spec in (rp.Comp([rp.G(1), rp.P(1), rp.H(1)]), rp.LN(3, False)):
            for n_ids in (1, 2, 3):
                idc.append(hier.make_case(spec, n_ids, seed, ids=ids[:n_ids]))
    empties = [{'empty': e_, 'sigma': sg_} for e_ in (0, 1, 2)
               for sg_ in (0.6, -0.3, 0.0)]
    return {
        'parts': [
            Part('empty_individual', empties, w_empty,
                 'one of three individuals without measurements, its noise scale '
                 'inside / outside the domain'),
            Part('compositions', cases, w_hier,
                 'all sub-model sequences with dims summing to the bottom dimension'),
            Part('reduced', red, w_hier,
                 'ReducedPopulationModel with every subset of <=2 fixed parameters, '
                 'wrapped at the final number of individuals or for one individual'),
            Part('ids', idc, w_hier, 'integer / float / string individual IDs'),
            Part('nested', nest, w_hier,
                 'composed models inside composed models (every pair of inner '
                 'sub-models, first / last); one sub-model object listed twice'),
            Part('int_vectors', intc, w_hier,
                 'whole-number parameter vectors as integer array / list / floats'),
        ],
        'bounds': {'kinds': kinds, 'n_ids_max': max_ids, 'bottom_dim': 3},
        'rule': 'complete enumeration of sub-model sequences over the alphabet '
                '(dims 1..3 summing to 3), n_ids 1..max; 2 generic vectors per '
                'structure; distinct = distinct observed score pairs',
        'min_outcomes': {'compositions': 100},
        'assumptions': ['toy closed-form bottom level (C01 decides LogLikelihood)',
                        'generic value alphabets'],
    }


META = {
    'technique': 'bounded exhaustive enumeration of population-model compositions on '
                 'the real HierarchicalLogLikelihood/-Posterior against a reference '
                 'that parses the flat vector in the published order',
    'level_text': 'All sequences of sub-models (Gaussian, log-normal, truncated '
                  'Gaussian, pooled, heterogeneous, covariate; centred/non-centred; '
                  '1-3 dimensional) whose dimensions sum to 3, bare/composed/reduced, '
                  'for 1-3 individuals with individual-specific data and covariates, '
                  'are evaluated at two generic vectors and compared with the '
                  'reference sum; names, IDs and counts are compared with the '
                  'reference meaning table.',
    'level_note': 'Position->quantity mapping is decided by value equality at vectors '
                  'whose entries are pairwise distinct, together with equality of the '
                  'name/ID tables. Trusted: ref.populations, ref.errors, ref.toy.',
}
META['level_text'] += (
    ' Also: covariate models sharing one base object, scales fixed at zero, nobody '
    'shifted (zero covariates / coefficients), covariates supplied to models that n'
    'eed none, repeated name reads before evaluation.')
META['level_text'] += (' Wave 9: population model objects that served a hierarchical log-likelihood of another number of individuals before.')
