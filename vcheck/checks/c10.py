"""C10 — dosing regimens deliver the specified amounts at the specified times.

Shape (A): dose x start x duration x period x num (single / finite / indefinite) and
explicit protocols x direct / indirect route x dosed compartment x model, observation
times on the lattice of all event boundaries and mid-points; the regimen table of
predictive models for a menu of final times; regimens derived from small dose tables.
Oracle: ref.dosing schedule semantics + ref.compartments closed form (cumulative input
when elimination is switched off). Runs on RefSimulation (DESIGN §2.1)."""
import itertools
import os
import shutil
import tempfile

import myokit
import numpy as np
import pandas as pd

import chi
import chi.library

from ..core import tol, vals
from ..core.engine import Part
from ..gen import sbmlgen
from ..ref import compartments as rc, dosing as rd

PROPERTY = 'C10'

LIB_DESC = {
    'id': 'lib1', 'comps': [{'id': 'central'}], 'literal': ['elimination_rate'],
    'derived': {}, 'inter': {},
    'reactions': [{'from': 'central', 'to': None, 'k': 'elimination_rate'}]}


def _lib_names(d):
    # library model uses species id 'drug' (not drug_<comp>)
    return d


def build_model(case):
    if case['model'] == 'lib1':
        m = chi.library.ModelLibrary().one_compartment_pk_model()
        desc = LIB_DESC
        amount = 'drug_amount'
        state = lambda c: 'central.drug_amount'      # noqa: E731
    else:
        desc = sbmlgen.descriptor(case['model'], case.get('cp'), case.get('sp'),
                                  case.get('pp'))
        tmp = tempfile.mkdtemp(prefix='vc10_')
        try:
            m = chi.PKPDModel(sbmlgen.write(desc, tmp))
        finally:
            shutil.rmtree(tmp, ignore_errors=True)
        amount = 'drug_%s_amount' % case['dosed']
        state = rc.state_name
    return m, desc, amount, state


def _solve(case, desc, values, times, events):
    """Closed form; for the library model names differ (species id 'drug')."""
    if case['model'] == 'lib1':
        v = {'central.drug_central_amount': values['central.drug_amount'],
             'central.size': values['central.size'],
             'global.elimination_rate': values['global.elimination_rate']}
        if case['route'] == 'indirect':
            v['dose.drug_amount'] = values['dose.drug_amount']
            v['dose.absorption_rate'] = values['dose.absorption_rate']
        r = rc.solve(desc, v, times, dosed='central', events=events,
                     depot=case['route'] == 'indirect')
        out = {'central.drug_amount': r['central.drug_central_amount']}
        if case['route'] == 'indirect':
            out['dose.drug_amount'] = r['dose.drug_amount']
        return out
    return rc.solve(desc, values, times, dosed=case['dosed'], events=events,
                    depot=case['route'] == 'indirect', depot_name=depot_of(case))


def depot_of(case):
    # the depot of an indirect route is called 'dose' unless the model has a
    # compartment of that name itself
    return 'dose_1' if case['model'] == 'chain2dose' else 'dose'


def reg_events(reg, horizon):
    if reg['kind'] == 'protocol':
        return [(s, d, lv) for (lv, s, d) in reg['events'] if s < horizon]
    return rd.occurrences(reg['dose'], reg['start'], reg['duration'],
                          reg['period'], reg['num'], horizon)


def apply_regimen(m, reg):
    if reg['kind'] == 'protocol':
        p = myokit.Protocol()
        for lv, s, d in reg['events']:
            p.add(myokit.ProtocolEvent(lv, s, d))
        m.set_dosing_regimen(p)
    else:
        kw = {'dose': reg['dose'], 'start': reg['start'],
              'duration': reg['duration']}
        if reg['period'] is not None:
            kw['period'] = reg['period']
        if reg['num'] is not None:
            kw['num'] = reg['num']
        m.set_dosing_regimen(**kw)


def lattice(events, t_end):
    pts = set([0.0, t_end])
    for s, d, r in events:
        for x in (s, s + d):
            if 0 <= x <= t_end:
                pts.add(round(x, 9))
    pts = sorted(pts)
    mids = [0.5 * (a + b) for a, b in zip(pts[:-1], pts[1:])]
    return sorted(set(pts + mids))


def w_schedule(case):
    viol = []
    m, desc, amount, state = build_model(case)
    direct = case['route'] == 'direct'
    dosed = case['dosed']
    # the flag as Python bool, numpy bool or integer
    flag = {'bool': direct, 'np': np.bool_(direct), 'int': int(direct)}[
        case.get('flag', 'bool')]
    m.set_administration(dosed, amount_var=amount, direct=flag)
    if case.get('route_after'):
        # the regimen is given while the OTHER route is in place; the final route
        # is chosen afterwards and keeps the regimen
        m.set_administration(dosed, amount_var=amount, direct=not direct)
        apply_regimen(m, case['reg'])
        m.set_administration(dosed, amount_var=amount, direct=flag)
    if case.get('via') == 'reduced':
        # the regimen is given to the parameter-fixing wrapper (nothing fixed); the
        # wrapper is what is simulated and asked for its regimen
        m = chi.ReducedMechanisticModel(m)
    if not case.get('route_after'):
        apply_regimen(m, case['reg'])
    ntr = 3
    lab = '%s/%s/%s %s' % (case['model'], dosed, case['route'], case['reg'])
    t_end = case['t_end']
    events = reg_events(case['reg'], t_end + 1.0)
    times = lattice(events, t_end)
    names = m.parameters()
    outs = [state(dosed)] if case['model'] != 'lib1' else ['central.drug_amount']
    if not direct:
        outs = outs + [depot_of(case) + '.drug_amount']
    m.set_outputs(outs)
    # the schedule is applied whatever sensitivity switches happened since
    seq = case.get('sens_seq', 'none')
    if seq == 'on_on':
        m.enable_sensitivities(True)
        m.enable_sensitivities(True)
    elif seq == 'on_subset':
        m.enable_sensitivities(True)
        m.enable_sensitivities(True, names[:2])
    elif seq == 'on_off':
        m.enable_sensitivities(True)
        m.enable_sensitivities(False)
    elif seq == 'off_on':
        m.enable_sensitivities(False)
        m.enable_sensitivities(True)
    elif seq == 'on_outputs':
        # the outputs are selected (again) while sensitivities are on
        m.enable_sensitivities(True)
        m.set_outputs(outs[::-1])
        m.set_outputs(outs)
    for elim in (0.0, case['k_e']):
        values = {}
        for n in names:
            if n.endswith('amount'):
                values[n] = 0.0
            elif n.endswith('.size'):
                values[n] = case['size']
            elif n == depot_of(case) + '.absorption_rate':
                values[n] = case['k_a']
            else:
                values[n] = elim if elim == 0.0 else vals.real(
                    'c10.' + n, 0.2, 1.5, case['seed'])
        if case['model'] != 'lib1' and elim == 0.0:
            # switch off every outflow: only rate constants leaving the dosed
            # compartment matter for the cumulative-input statement; all are 0 here
            pass
        y = m.simulate([values[n] for n in names], times)
        if isinstance(y, tuple):
            y = y[0]
        y = np.asarray(y, dtype=float)
        ntr += 1
        ref = _solve(case, desc, values, times, events)
        exp = np.real(np.array([ref[o] for o in outs]))
        if y.shape != exp.shape or not tol.allclose(y, exp, 2e-6, 1e-8):
            viol.append({'sub': 'closed_form' if elim else 'no_elim',
                         'message': 'simulated amounts differ from the closed form '
                         'with the scheduled piecewise-constant input (%s)' % lab,
                         'expected': exp, 'observed': y, 'times': times,
                         'behaviour': 'trajectory'})
        if elim == 0.0:
            cum = np.array([rd_cum(events, t) for t in times])
            tot = y.sum(axis=0)
            if not tol.allclose(tot, cum, 2e-6, 1e-8):
                viol.append({'sub': 'cumulative', 'message': 'with elimination '
                             'off the dosed amount (+ depot) is not the cumulative '
                             'input = sum of scheduled doses (%s)' % lab,
                             'expected': cum, 'observed': tot, 'times': times,
                             'behaviour': 'cumulative'})
    # the regimen the model reports is the one it applies
    rep = m.dosing_regimen()
    rep_events = sorted((e.start(), e.duration(), e.level(), e.period(),
                         e.multiplier()) for e in rep.events())
    reg = case['reg']
    if reg['kind'] == 'protocol':
        exp_events = sorted((s, d, lv, 0, 0) for lv, s, d in reg['events'])
    else:
        per = reg['period'] or 0
        num = 0 if (reg['period'] is None or reg['num'] is None) else reg['num']
        exp_events = [(reg['start'], reg['duration'],
                       reg['dose'] / reg['duration'], per, num)]
    if not tol.allclose(np.array(rep_events, dtype=float),
                        np.array(exp_events, dtype=float)):
        viol.append({'sub': 'reported', 'message': 'dosing_regimen() does not '
                     'report the configured regimen (%s)' % lab,
                     'expected': exp_events, 'observed': rep_events,
                     'behaviour': 'reported'})
    return {'transitions': ntr, 'outcome': tol.rnd(y, 6), 'violations': viol}


def rd_cum(events, t):
    return rc.cumulative_input(events, t)


def w_table(case):
    """PredictiveModel.get_dosing_regimen(final_time)."""
    viol = []
    m = chi.library.ModelLibrary().one_compartment_pk_model()
    m.set_administration('central', direct=case['route'] == 'direct')
    pm = chi.PredictiveModel(m, [chi.GaussianErrorModel()])
    if case.get('fixed_first'):
        # with a fixed parameter the predictive model holds a reduced mechanistic
        # model, which forwards the regimen
        pm.fix_parameters({'central.size': 1.2})
    reg = case['reg']
    if reg['kind'] == 'events':
        # an explicit protocol of several events (one-off and periodic ones), as a
        # dataset with one dose row per administration produces
        import myokit
        prot = myokit.Protocol()
        for e in reg['events']:
            prot.add(myokit.ProtocolEvent(
                e['dose'] / e['duration'], e['start'], e['duration'],
                e['period'] or 0, 0 if (not e['period'] or e['num'] is None)
                else e['num']))
        pm.set_dosing_regimen(prot)
    else:
        kw = {'dose': reg['dose'], 'start': reg['start'],
              'duration': reg['duration']}
        if reg['period'] is not None:
            kw['period'] = reg['period']
        if reg['num'] is not None:
            kw['num'] = reg['num']
        pm.set_dosing_regimen(**kw)
    ntr = 2
    outcome = []

    def table_of(ft):
        if reg['kind'] != 'events':
            return rd.table(reg['dose'], reg['start'], reg['duration'],
                            reg['period'], reg['num'], ft)
        rows = []
        for e in reg['events']:
            rows += rd.table(e['dose'], e['start'], e['duration'], e['period'],
                             e['num'], ft)
        return sorted(rows)
    for ft in case['final_times']:
        df = pm.get_dosing_regimen(final_time=ft)
        ntr += 1
        exp = table_of(ft)
        got = [] if df is None else sorted(
            (float(r['Time']), float(r['Duration']), float(r['Dose']))
            for _, r in df.iterrows())
        outcome.append(got)
        ok = len(got) == len(exp) and all(
            tol.allclose(np.array(g), np.array(e)) for g, e in zip(got, exp))
        if ft is not None and case.get('sample_rows', True):
            # the sample table repeats exactly these rows under every sample ID
            for ns in (2, 3):
                df_s = pm.sample([0.4, 0.9, 0.5, 0.2, 0.7, 0.3][:pm.n_parameters()],
                                 [0.1 * ft, ft], n_samples=ns, seed=1,
                                 include_regimen=True)
                ntr += 1
                rows = df_s[df_s['Dose'].notna()] if 'Dose' in df_s else df_s[:0]
                per_id = {}
                for _, r in rows.iterrows():
                    per_id.setdefault(int(r['ID']), []).append(
                        (float(r['Time']), float(r['Duration']), float(r['Dose'])))
                bad = (exp and sorted(per_id) != list(range(1, ns + 1))) or any(
                    len(v) != len(exp) or not tol.allclose(
                        np.array(sorted(v)), np.array(exp))
                    for v in per_id.values() if exp) or (not exp and per_id)
                if bad:
                    viol.append({
                        'sub': 'sample_rows', 'message': 'sample(include_regimen='
                        'True, n_samples=%d) does not list the dose events up to '
                        'the last time under every sample ID (%s)' % (ns, reg),
                        'expected': exp, 'observed': {str(k_): v for k_, v in
                                                      per_id.items()},
                        'behaviour': 'sample_rows'})
                    break
        if not ok:
            indefinite = reg['kind'] != 'events' and \
                reg['period'] is not None and reg['num'] is None
            viol.append({
                'sub': 'table', 'message': 'get_dosing_regimen(final_time=%s) does '
                'not list exactly the dose events applied up to then (%s)'
                % (ft, reg), 'expected': exp, 'observed': got,
                'behaviour': 'table_indefinite' if indefinite else 'table'})
    return {'transitions': ntr, 'outcome': tol.rnd(outcome), 'violations': viol}


def _wrapped_predictive(kind, reg_first, kw):
    """A predictive-model wrapper over the dosed one-compartment model. The regimen
    is either given to the underlying PredictiveModel before wrapping (reg_first) or
    to the finished wrapper."""
    import pints
    import xarray as xr
    from ..gen import popbuild
    from ..ref import populations as rp

    def pred():
        m = chi.library.ModelLibrary().one_compartment_pk_model()
        m.set_administration('central', direct=True)
        pm = chi.PredictiveModel(m, [chi.GaussianErrorModel()])
        if reg_first:
            pm.set_dosing_regimen(**kw)
        return pm

    def dataset(shift, n_draws):
        names = ['central.drug_amount', 'central.size', 'global.elimination_rate',
                 'Sigma']
        data = {}
        for k, n in enumerate(names):
            arr = 0.4 + shift + 0.03 * np.arange(2 * n_draws * 2).reshape(
                2, n_draws, 2) + 0.25 * k
            data[n] = (('chain', 'draw', 'individual'), arr)
        return xr.Dataset(data, coords={
            'chain': [0, 1], 'draw': list(range(n_draws)),
            'individual': ['a', 'b']})
    if kind == 'pop':
        w = chi.PopulationPredictiveModel(pred(), popbuild.build(
            rp.Comp([rp.P(1), rp.LN(1), rp.P(1), rp.P(1)]), None))
        args = {'parameters': [0.6, 0.1, 0.3, 0.7, 0.2]}
    elif kind == 'popcov':
        # (a covariate population model: the sample table carries covariate rows)
        w = chi.PopulationPredictiveModel(pred(), popbuild.build(
            rp.Comp([rp.P(1), rp.Cov(rp.LN(1), 1), rp.P(1), rp.P(1)]), None))
        args = {'parameters': [0.6, 0.1, 0.3, 0.2, 0.15, 0.7, 0.2][
                    :w.n_parameters()], 'covariates': [1.3]}
    elif kind == 'prior':
        w = chi.PriorPredictiveModel(pred(), pints.ComposedLogPrior(*[
            pints.UniformLogPrior(0.3 + 0.1 * i, 0.9 + 0.1 * i)
            for i in range(4)]))
        args = {}
    elif kind == 'post':
        w = chi.PosteriorPredictiveModel(pred(), dataset(0.0, 3))
        args = {'individual': 'b'}
    else:
        w = chi.PAMPredictiveModel(
            [chi.PosteriorPredictiveModel(pred(), dataset(0.0, 3)),
             chi.PosteriorPredictiveModel(pred(), dataset(0.5, 2))], [0.45, 0.55])
        args = {'individual': 'a'}
    if not reg_first:
        w.set_dosing_regimen(**kw)
    return w, args


def w_wrapped_table(case):
    """Regimen tables and applied doses of the predictive-model wrappers."""
    viol = []
    reg = case['reg']
    kw = {'dose': reg['dose'], 'start': reg['start'], 'duration': reg['duration']}
    if reg['period'] is not None:
        kw['period'] = reg['period']
    if reg['num'] is not None:
        kw['num'] = reg['num']
    w, args = _wrapped_predictive(case['kind'], False, kw)
    ref, _ = _wrapped_predictive(case['kind'], True, kw)
    ntr = 4
    outcome = []
    for ft in case['final_times']:
        df = w.get_dosing_regimen(final_time=ft)
        ntr += 1
        exp = rd.table(reg['dose'], reg['start'], reg['duration'], reg['period'],
                       reg['num'], ft)
        got = [] if df is None else sorted(
            (float(r['Time']), float(r['Duration']), float(r['Dose']))
            for _, r in df.iterrows())
        outcome.append(got)
        if not (len(got) == len(exp) and all(
                tol.allclose(np.array(g), np.array(e)) for g, e in zip(got, exp))):
            viol.append({
                'sub': 'wrapped_table', 'message': '%s.get_dosing_regimen('
                'final_time=%s) does not list exactly the dose events applied up to '
                'then (%s)' % (type(w).__name__, ft, reg), 'expected': exp,
                'observed': got, 'behaviour': 'wrapped_table'})
    # the samples are simulated with exactly these doses: identical to the wrapper
    # whose underlying model was given the regimen before it was wrapped
    times = case['times']
    for seed in (1, 2):
        a = w.sample(times=times, n_samples=4, seed=seed, include_regimen=True,
                     **args)
        b = ref.sample(times=times, n_samples=4, seed=seed, include_regimen=True,
                       **args)
        ntr += 2
        va = a['Value'].to_numpy(dtype=float)
        vb = b['Value'].to_numpy(dtype=float)
        if va.shape != vb.shape or not tol.allclose(va, vb, 1e-7, 1e-9):
            viol.append({
                'sub': 'wrapped_applied', 'message': 'samples of %s do not apply the '
                'regimen set on it (differs from the same wrapper around a model '
                'dosed before wrapping; %s)' % (type(w).__name__, reg),
                'expected': vb, 'observed': va, 'behaviour': 'wrapped_applied'})
            break
        exp_rows = rd.table(reg['dose'], reg['start'], reg['duration'],
                            reg['period'], reg['num'], max(times))
        # (wrappers that simulate several individuals repeat the rows per ID)
        da = []
        bad = False
        if 'Dose' in a:
            rows = a[a['Dose'].notna()]
            groups = [g for _, g in rows.groupby('ID', dropna=False)] \
                if len(rows) else []
            for g in groups:
                got_rows = sorted((float(r['Time']), float(r['Duration']),
                                   float(r['Dose'])) for _, r in g.iterrows())
                da.append(got_rows)
                if len(got_rows) != len(exp_rows) or (exp_rows and not tol.allclose(
                        np.array(got_rows), np.array(exp_rows))):
                    bad = True
        if bad or (exp_rows and not da):
            viol.append({
                'sub': 'wrapped_rows', 'message': 'regimen rows included in the '
                'samples of %s are not the doses up to the last sampled time (%s)'
                % (type(w).__name__, reg), 'expected': exp_rows,
                'observed': da, 'behaviour': 'wrapped_rows'})
            break
        outcome.append(tol.rnd(va, 8))
    return {'transitions': ntr, 'outcome': tol.rnd(outcome), 'violations': viol}


def w_dataset(case):
    """Regimens derived from a dataset reproduce each individual's dose rows."""
    viol = []
    m = chi.library.ModelLibrary().one_compartment_pk_model()
    m.set_administration('central', direct=True)
    # (the user's model carries a regimen of its own, which stays the user's)
    # (not where the final dataset has no dose information: which regimen applies
    # then is not documented)
    user_has_regimen = case.get('earlier') != 'nodose'
    if user_has_regimen:
        m.set_dosing_regimen(4.0, start=0.3, duration=0.2)
    ctrl = chi.ProblemModellingController(m, [chi.GaussianErrorModel()])
    if case.get('fix_first'):
        # a parameter fixed before the data are given (the controller then holds
        # the parameter-fixing wrapper around the model)
        ctrl.fix_parameters({'Sigma': 0.5})
        ctrl.fix_parameters({'central.size': 1.4})
    rows = []
    for ind in case['inds']:
        for t, v in ind['obs']:
            rows.append({'ID': ind['id'], 'Time': t, 'Observable': 'conc',
                         'Value': v, 'Dose': np.nan, 'Duration': np.nan})
        if case.get('same_row') and ind['doses']:
            # the first dose is recorded in the row of a measurement taken at the
            # time of administration (a pre-dose sample)
            t, dose, dur = ind['doses'][0]
            rows.append({'ID': ind['id'], 'Time': t, 'Observable': 'conc',
                         'Value': 0.05, 'Dose': dose,
                         'Duration': np.nan if dur is None else dur})
        for t, dose, dur in (ind['doses'][1:] if case.get('same_row')
                             else ind['doses']):
            rows.append({'ID': ind['id'], 'Time': np.nan if t is None else t,
                         'Observable': np.nan,
                         'Value': np.nan, 'Dose': dose,
                         'Duration': np.nan if dur is None else dur})
    df = pd.DataFrame(rows)
    kw = {}
    if not case['duration_column']:
        df = df.drop(columns=['Duration'])
        kw['dose_duration_key'] = None
    if case.get('earlier'):
        # the controller held another dataset before (the same individuals, all of
        # them dosed): nothing of it is left
        erows = []
        for ind in case['inds']:
            erows.append({'ID': ind['id'], 'Time': 0.7, 'Observable': 'conc',
                          'Value': 2.2, 'Dose': np.nan, 'Duration': np.nan})
            erows.append({'ID': ind['id'], 'Time': 0.2, 'Observable': np.nan,
                          'Value': np.nan, 'Dose': 5.0, 'Duration': 0.3})
        ctrl.set_data(pd.DataFrame(erows), output_observable_dict={
            'central.drug_concentration': 'conc'})
    # (dose rows without a time are not administrations)
    case = dict(case)
    case['inds'] = [dict(i_, doses=[d_ for d_ in i_['doses'] if d_[0] is not None])
                    for i_ in case['inds']]
    if case.get('earlier') == 'nodose':
        # ... and the final dataset carries no dose information at all
        df = df[df['Dose'].isna()].drop(columns=[
            c_ for c_ in ('Dose', 'Duration') if c_ in df.columns])
        kw = {'dose_key': None, 'dose_duration_key': None}
        case = dict(case)
        case['inds'] = [dict(i_, doses=[]) for i_ in case['inds']]
    ctrl.set_data(df, output_observable_dict={
        'central.drug_concentration': 'conc'}, **kw)
    regs = ctrl.get_dosing_regimens()
    if case.get('earlier') == 'nodose':
        if regs is not None and any(len(r_.events()) for r_ in regs.values()):
            viol.append({'sub': 'stale', 'message': 'regimens of an earlier dataset '
                         'are reported for a dataset without dose information',
                         'expected': 'none', 'observed': {
                             k_: len(r_.events()) for k_, r_ in regs.items()},
                         'behaviour': 'dataset_stale'})
        regs = {str(i_['id']): myokit.Protocol() for i_ in case['inds']}
    for ind in case['inds']:
        key = str(ind['id'])
        if key not in regs:
            viol.append({'sub': 'ids', 'message': 'no regimen for individual %s'
                         % key, 'expected': key, 'observed': list(regs)})
            continue
        got = sorted((e.start(), e.duration(), e.level() * e.duration(),
                      e.period(), e.multiplier()) for e in regs[key].events())
        exp = sorted((t, 0.01 if (dur is None or not case['duration_column'])
                      else dur, dose, 0, 0) for t, dose, dur in ind['doses'])
        if len(got) != len(exp) or (exp and not tol.allclose(
                np.array(got, dtype=float), np.array(exp, dtype=float))):
            viol.append({'sub': 'rows', 'message': 'regimen derived from the '
                         'dataset does not reproduce the dose rows of individual '
                         '%s' % key, 'expected': exp, 'observed': got,
                         'behaviour': 'dataset_rows'})
    # the likelihood built for each individual applies that individual's dose rows
    # (individuals are visited in data order and in reverse: the controller re-uses
    # one mechanistic model for all of them)
    import pints
    ctrl.set_log_prior(pints.ComposedLogPrior(*[
        pints.UniformLogPrior(0, 10) for _ in range(ctrl.get_n_parameters())]))
    x = [0.3, 1.4, 0.8, 0.5]
    x_ctrl = [0.3, 0.8] if case.get('fix_first') else x
    order = [str(i['id']) for i in case['inds']]
    vals_seen = {}
    for key in order + order[::-1]:
        ind = [i for i in case['inds'] if str(i['id']) == key][0]
        post = ctrl.get_log_posterior(key)
        ll = post.get_log_likelihood()
        got = ll(x_ctrl)
        f = chi.library.ModelLibrary().one_compartment_pk_model()
        f.set_administration('central', direct=True)
        p = myokit.Protocol()
        for t, dose, dur in ind['doses']:
            d = 0.01 if (dur is None or not case['duration_column']) else dur
            p.add(myokit.ProtocolEvent(dose / d, t, d))
        f.set_dosing_regimen(p)
        meas = list(ind['obs'])
        if case.get('same_row') and ind['doses']:
            meas = sorted(meas + [(ind['doses'][0][0], 0.05)])
        ref_ll = chi.LogLikelihood(
            f, chi.GaussianErrorModel(), [v for _, v in meas],
            [t for t, _ in meas])
        exp = ref_ll(x)
        if not tol.close(got, exp, 1e-6, 1e-8):
            viol.append({'sub': 'applied', 'message': 'the likelihood of an '
                         'individual does not apply that individual\'s own dose '
                         'rows (visited %s)' % (order + order[::-1]),
                         'individual': key, 'expected': exp, 'observed': got,
                         'behaviour': 'dataset_applied'})
        vals_seen[key] = got
    user_reg = sorted((e.start(), e.duration(), e.level())
                      for e in m.dosing_regimen().events()) \
        if m.dosing_regimen() is not None else []
    if user_has_regimen and (len(user_reg) != 1 or not tol.allclose(
            np.array(user_reg, dtype=float), np.array([(0.3, 0.2, 20.0)]))):
        viol.append({'sub': 'user_model', 'message': 'the regimen of the model the '
                     'user handed to the controller was replaced',
                     'expected': [(0.3, 0.2, 20.0)], 'observed': user_reg,
                     'behaviour': 'user_model'})
    return {'transitions': 2 + 4 * len(order), 'outcome': tol.rnd(
        [[(e.start(), e.level()) for e in regs[k].events()] for k in sorted(regs)]
        + [vals_seen[k] for k in sorted(vals_seen)]),
        'violations': viol}


PARMET_XML = '''<?xml version="1.0" encoding="UTF-8"?>
<sbml xmlns="http://www.sbml.org/sbml/level3/version2/core" level="3" version="2">
  <model id="parmet" timeUnits="day">
    <listOfUnitDefinitions>
      <unitDefinition id="day"><listOfUnits><unit kind="second" exponent="1" scale="0" multiplier="86400"/></listOfUnits></unitDefinition>
    </listOfUnitDefinitions>
    <listOfCompartments>
      <compartment id="mid" name="mid" size="1" constant="true"/>
    </listOfCompartments>
    <listOfSpecies>
      <species id="drug_par" name="par" compartment="mid" initialAmount="0" hasSubstanceUnits="false" boundaryCondition="false" constant="false"/>
      <species id="drug_met" name="met" compartment="mid" initialAmount="0" hasSubstanceUnits="false" boundaryCondition="false" constant="false"/>
    </listOfSpecies>
    <listOfParameters>
      <parameter id="k_pm" value="1" constant="true"/>
      <parameter id="k_e" value="1" constant="true"/>
    </listOfParameters>
    <listOfReactions>
      <reaction id="r0" reversible="false">
        <listOfReactants><speciesReference species="drug_par" constant="true"/></listOfReactants>
        <listOfProducts><speciesReference species="drug_met" constant="true"/></listOfProducts>
        <kineticLaw><math xmlns="http://www.w3.org/1998/Math/MathML"><apply><times/><ci>mid</ci><ci>k_pm</ci><ci>drug_par</ci></apply></math></kineticLaw>
      </reaction>
      <reaction id="r1" reversible="false">
        <listOfReactants><speciesReference species="drug_met" constant="true"/></listOfReactants>
        <kineticLaw><math xmlns="http://www.w3.org/1998/Math/MathML"><apply><times/><ci>mid</ci><ci>k_e</ci><ci>drug_met</ci></apply></math></kineticLaw>
      </reaction>
    </listOfReactions>
  </model>
</sbml>
'''
PARMET_DESC = {'comps': [{'id': 'par'}, {'id': 'met'}], 'derived': {}, 'inter': {},
               'reactions': [{'from': 'par', 'to': 'met', 'k': 'k_pm'},
                             {'from': 'met', 'to': None, 'k': 'k_e'}]}


def w_amount_var(case):
    """Two species (parent drug, metabolite) in ONE compartment: the dose enters the
    state variable named by the LAST set_administration call, directly or through a
    depot, whatever calls came before."""
    viol = []
    tmp = tempfile.mkdtemp(prefix='vc10_')
    try:
        path = os.path.join(tmp, 'parmet.xml')
        with open(path, 'w') as f:
            f.write(PARMET_XML)
        m = chi.PKPDModel(path)
    finally:
        shutil.rmtree(tmp, ignore_errors=True)
    last = None
    for sp, direct in case['calls']:
        m.set_administration('mid', amount_var='drug_%s_amount' % sp, direct=direct)
        last = (sp, direct)
    if case.get('via') == 'reduced':
        m = chi.ReducedMechanisticModel(m)
    apply_regimen(m, case['reg'])
    sp, direct = last
    outs = ['mid.drug_par_amount', 'mid.drug_met_amount']
    if not direct:
        outs = outs + ['dose.drug_amount']
    m.set_outputs(outs)
    names = list(m.parameters())
    want = ['mid.drug_par_amount', 'mid.drug_met_amount', 'mid.size',
            'global.k_pm', 'global.k_e'] + (
                [] if direct else ['dose.drug_amount', 'dose.absorption_rate'])
    if sorted(names) != sorted(want):
        return {'transitions': 3, 'outcome': 'names', 'violations': [{
            'sub': 'amount_var_names', 'message': 'parameters of the two-species '
            'model after %s are not its own (+ depot)' % case['calls'],
            'expected': sorted(want), 'observed': sorted(names),
            'behaviour': 'amount_var_names'}]}
    val = {'mid.drug_par_amount': 0.3, 'mid.drug_met_amount': 0.1, 'mid.size': 1.7,
           'global.k_pm': 0.8, 'global.k_e': 0.45, 'dose.drug_amount': 0.2,
           'dose.absorption_rate': 1.3}
    t_end = 3.0
    events = reg_events(case['reg'], t_end + 1.0)
    times = lattice(events, t_end)
    y = m.simulate([val[n_] for n_ in names], times)
    y = np.asarray(y[0] if isinstance(y, tuple) else y, dtype=float)
    v = {'par.drug_par_amount': val['mid.drug_par_amount'],
         'met.drug_met_amount': val['mid.drug_met_amount'],
         'par.size': val['mid.size'], 'met.size': val['mid.size'],
         'global.k_pm': val['global.k_pm'], 'global.k_e': val['global.k_e'],
         'dose.drug_amount': val['dose.drug_amount'],
         'dose.absorption_rate': val['dose.absorption_rate']}
    r = rc.solve(PARMET_DESC, v, times, dosed=sp, events=events, depot=not direct)
    exp = [r['par.drug_par_amount'], r['met.drug_met_amount']]
    if not direct:
        exp.append(r['dose.drug_amount'])
    exp = np.real(np.array(exp))
    if y.shape != exp.shape or not tol.allclose(y, exp, 2e-6, 1e-8):
        viol.append({'sub': 'amount_var', 'message': 'the dose does not enter the '
                     'state variable named last (%s, calls %s)'
                     % (sp, case['calls']), 'expected': exp, 'observed': y,
                     'behaviour': 'amount_var'})
    return {'transitions': len(case['calls']) + 3, 'outcome': tol.rnd(y, 7),
            'violations': viol}


WORKERS = {'schedule': w_schedule, 'table': w_table, 'dataset': w_dataset,
           'amount_var': w_amount_var,
           'wrapped_table': w_wrapped_table}


def regimens(tier):
    doses = [1.0, 2.5]
    starts = [0.0, 0.5, 2.0]
    durations = [0.01, 0.5, 1.0]
    periods = [None, 1.0, 2.5]
    nums = [None, 1, 3] if tier == 'thorough' else [None, 2]
    out = []
    for dose, start, dur, per, num in itertools.product(
            doses, starts, durations, periods, nums):
        if per is None and num is not None:
            continue
        if per is not None and dur > per:
            continue
        out.append({'kind': 'regimen', 'dose': dose, 'start': start,
                    'duration': dur, 'period': per, 'num': num})
    return out


def build(tier, seed):
    regs = regimens(tier)
    protos = [
        {'kind': 'protocol', 'events': [[4.0, 0.3, 0.25], [2.0, 1.1, 0.5]]},
        {'kind': 'protocol', 'events': [[10.0, 0.0, 0.1], [1.0, 0.1, 0.9],
                                        [3.0, 2.0, 0.2]]}]
    sched = []
    targets = [('lib1', 'central', {})]
    targets += [('chain2', 'zeta', {'cp': [1, 0], 'sp': [0, 1]}),
                ('chain2', 'alpha', {'cp': [0, 1], 'sp': [1, 0]})]
    targets += [('chain2dose', 'dose', {'cp': [1, 0], 'sp': [0, 1]}),
                ('chain2dose', 'alpha', {})]
    if tier == 'thorough':
        targets += [('mam3', c, {'cp': [2, 0, 1], 'sp': [1, 2, 0]})
                    for c in ('mid', 'zeta', 'alpha')]
    t_ends = [2.5, 5.0] if tier == 'thorough' else [3.0]
    i = 0
    for model, dosed, perms in targets:
        for route in ('direct', 'indirect'):
            rr = regs + protos
            if model != 'lib1' and tier == 'quick':
                rr = regs[i % 4::4] + protos[:1]
            for reg in rr:
                for t_end in t_ends:
                    c = {'model': model, 'dosed': dosed, 'route': route,
                         'reg': reg, 't_end': t_end, 'seed': seed,
                         'k_e': vals.real('c10.ke', 0.3, 1.2, seed),
                         'k_a': vals.real('c10.ka', 0.8, 2.5, seed),
                         'size': vals.real('c10.size', 0.7, 2.0, seed)}
                    c.update(perms)
                    c['sens_seq'] = ['none', 'on_on', 'on_subset', 'on_off',
                                     'off_on', 'on_outputs'][i % 6]
                    c['flag'] = ['bool', 'np', 'int'][(i // 6) % 3]
                    sched.append(c)
                    if reg.get('kind') == 'regimen' and (
                            tier == 'thorough' or i % 2 == 0):
                        c2 = dict(c)
                        c2['via'] = 'reduced'
                        c2['sens_seq'] = 'none'
                        sched.append(c2)
                    if tier == 'thorough' or i % 3 == 0:
                        c3 = dict(c)
                        c3['route_after'] = True
                        sched.append(c3)
                i += 1
    finals = [None, 0.3, 1.0, 2.0, 2.5, 5.0]
    table = []
    for reg in regimens('thorough'):
        ft = finals + [reg['start'], reg['start'] + reg['duration']]
        if reg['period']:
            ft += [reg['start'] + reg['period'], reg['start'] + 2 * reg['period']]
        table.append({'reg': reg, 'route': 'direct', 'final_times': ft})
        table.append({'reg': reg, 'route': 'direct', 'final_times': ft,
                      'fixed_first': True})
    # periods / starts that are not exactly representable: the number of listed
    # doses is the number asked for
    for start in (1.0, 0.7):
        for per in (0.1, 0.3, 0.7, 1.1):
            for num in (3, 4, 7):
                reg = {'kind': 'regimen', 'dose': 1.0, 'start': start,
                       'duration': 0.05, 'period': per, 'num': num}
                table.append({'reg': reg, 'route': 'direct', 'sample_rows': False,
                              'final_times': [None, start + (num - 1) * per,
                                              start + num * per,
                                              start + (num + 2) * per]})
    # explicit protocols of several events: every ordered pair / triple out of a
    # menu of one-off, finite periodic and indefinite periodic events
    ev_menu = [
        {'dose': 2.0, 'start': 1.0, 'duration': 0.5, 'period': None, 'num': None},
        {'dose': 3.0, 'start': 4.0, 'duration': 1.0, 'period': None, 'num': None},
        {'dose': 5.0, 'start': 0.25, 'duration': 0.25, 'period': None,
         'num': None},
        {'dose': 1.5, 'start': 0.5, 'duration': 0.1, 'period': 1.5, 'num': 3},
        {'dose': 0.5, 'start': 2.0, 'duration': 0.2, 'period': 2.5, 'num': None}]
    for n_ in (2, 3):
        for evs in itertools.permutations(ev_menu, n_):
            if sum(1 for e in evs if e['period'] and e['num'] is None) and \
                    any(e['period'] is None and e['start'] > 3 for e in evs) and \
                    n_ == 3 and tier == 'quick':
                continue
            table.append({'reg': {'kind': 'events', 'events': list(evs)},
                          'route': ['direct', 'indirect'][len(table) % 2],
                          'final_times': [None, 0.3, 1.0, 2.0, 4.0, 5.0, 8.0]})
    wrapped = []
    wregs = regimens('thorough')
    if tier == 'quick':
        wregs = wregs[::5]
    for kind in ('pop', 'popcov', 'prior', 'post', 'pam'):
        for reg in wregs:
            ft = [None, 1.0, 2.5, reg['start'], reg['start'] + reg['duration']]
            wrapped.append({'kind': kind, 'reg': reg, 'final_times': ft,
                            'times': [[0.4, 1.3, 2.2, 3.1], [2.2, 0.4, 3.1, 1.3],
                                      [3.1, 2.2, 1.3, 0.4]][len(wrapped) % 3]})
    # dose tables: 0-2 dose rows per individual, with / without duration column
    data = []
    row_opts = [[], [(0.0, 2.0, 0.5)], [(1.0, 3.0, None)],
                [(0.0, 1.0, 0.25), (2.0, 4.0, None)],
                [(3.0, 2.5, 1.0), (0.5, 1.5, 0.1)],
                # a dose row without a time (skipped) in front of / between others
                [(None, 9.0, 0.2), (1.0, 3.0, 0.4), (2.0, 1.5, 0.5)],
                [(0.5, 2.0, 0.3), (None, 7.0, None), (1.5, 1.0, 0.1)]]
    for a, b in itertools.product(range(len(row_opts)), repeat=2):
        for dcol in (True, False):
            for ids in ([1, 2], ['a', 'b']):
                inds = [{'id': ids[0], 'obs': [(0.5, 1.2), (1.5, 0.8)],
                         'doses': row_opts[a]},
                        {'id': ids[1], 'obs': [(1.0, 0.9)], 'doses': row_opts[b]}]
                data.append({'inds': inds, 'duration_column': dcol})
                if ids == [1, 2]:
                    if all(d_[0] is not None for i_ in inds for d_ in i_['doses']):
                        data.append({'inds': inds, 'duration_column': dcol,
                                     'same_row': True})
                    data.append({'inds': inds, 'duration_column': dcol,
                                 'fix_first': True})
                    if dcol:
                        data.append({'inds': inds, 'duration_column': dcol,
                                     'earlier': 'with'})
                        data.append({'inds': inds, 'duration_column': dcol,
                                     'earlier': 'nodose'})
    av = []
    av_calls = [(sp_, d_) for sp_ in ('par', 'met') for d_ in (True, False)]
    av_regs = [regs[0], regs[len(regs) // 2], protos[0]]
    for n_ in (1, 2, 3):
        for calls in itertools.product(av_calls, repeat=n_):
            if n_ == 3 and tier == 'quick' and calls[0] != calls[2]:
                continue
            for ri, reg in enumerate(av_regs):
                if n_ > 1 and ri != (len(av) % 3):
                    continue
                av.append({'calls': [list(c_) for c_ in calls], 'reg': reg})
                if n_ == 2:
                    av.append({'calls': [list(c_) for c_ in calls], 'reg': reg,
                               'via': 'reduced'})
    return {
        'parts': [
            Part('amount_var', av, w_amount_var,
                 'two species in one compartment: every sequence of <= 3 '
                 'set_administration calls over (amount variable x route)'),
            Part('schedule', sched, w_schedule,
                 'regimen product x route x dosed compartment x model'),
            Part('table', table, w_table,
                 'PredictiveModel.get_dosing_regimen over a menu of final times'),
            Part('wrapped_table', wrapped, w_wrapped_table,
                 'population / prior / posterior / averaged predictive models: '
                 'regimen table and applied doses (against the same wrapper around '
                 'a model dosed before wrapping)'),
            Part('dataset', data, w_dataset,
                 'controller regimens from small dose tables'),
        ],
        'bounds': {'doses': [1.0, 2.5], 'starts': [0, 0.5, 2], 'durations':
                   [0.01, 0.5, 1], 'periods': [None, 1, 2.5], 't_end': t_ends},
        'rule': 'complete product of the regimen alphabets (invalid combinations '
                'duration > period removed); observation lattice = all event '
                'boundaries and mid-points; distinct = distinct trajectories',
        'min_outcomes': {'schedule': 20, 'table': 10},
        'assumptions': ['RefSimulation stands in for myokit/CVODES (DESIGN §2.1)',
                        'linear compartment models'],
    }


META = {
    'technique': 'bounded exhaustive enumeration of dosing regimens x routes x dosed '
                 'compartments on the real PKPDModel / PredictiveModel / controller '
                 'over a reference ODE solver, against schedule semantics and '
                 'closed-form input-driven solutions',
    'level_text': 'The full product dose x start x duration x period x count '
                  '(single, finite, indefinite) and explicit protocols, direct and '
                  'indirect routes, every dosed compartment of the generated models: '
                  'simulated amounts on the lattice of event boundaries/mid-points '
                  'equal the closed form, cumulative input equals the sum of '
                  'scheduled doses; reported regimen = configured regimen; regimen '
                  'tables for a menu of final times; dataset-derived regimens.',
    'level_note': 'RefSimulation interprets the protocol (level during [start, '
                  'start+duration), periodic with multiplier) as myokit documents; '
                  'CVODES event handling itself is outside this check.',
}
META['level_text'] += (
    ' Also: two species in one compartment (every sequence of <= 3 set_administrati'
    "on calls over amount variable x route), a model with its own 'dose' compartmen"
    't, datasets given after an earlier dataset (with / without dose information), '
    'dose rows without a time, outputs re-selected while sensitivities are on.')
META['level_text'] += (' Wave 9: explicit protocols of two and three events (one-off, finite, indefinite) in the regimen table, covariate population predictive models.')
