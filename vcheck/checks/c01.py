"""C01 — the individual log-likelihood sums each observation's density exactly once.

Shape (A): number of outputs x assignment of the four error models to outputs x every
sorted multiset of times (over a 3-point lattice, sizes 1..s) per output x output
selection/permutation, on a closed-form toy mechanistic model; oracle = sum over the
measurements of the documented error density at the toy prediction for the same output
and time (ref.errors, ref.toy)."""
import itertools

import numpy as np
import pints

import chi

from ..core import tol, vals
from ..core.engine import Part, key_of
from ..gen.toymodel import ToyModel
from ..ref import errors as rerr, toy

PROPERTY = 'C01'

# call, pointwise, S1: the sequence contains every ordered pair of entry points
SEQUENCE = list('cpscspccppss')


def chi_error_model(code):
    return getattr(chi, rerr.CHI_CLASS[code])()


def reference(case, params=None):
    """(total, pointwise list in published order, n_obs per output)."""
    params = np.asarray(case['params'] if params is None else params)
    n_mech = case['n_mech']
    sel = case['sel']           # indices of the toy outputs selected, in order
    psi = params[:n_mech]
    pw = []
    start = n_mech
    for j, code in enumerate(case['ems']):
        t = np.asarray(case['times'][j], dtype=float)
        y = np.asarray(case['obs'][j], dtype=float)
        order = np.argsort(t, kind='stable')
        t, y = t[order], y[order]
        ybar = toy.evaluate(psi, t, case['n_toy_outputs'])[sel[j]]
        npar = rerr.N_PARAMS[code]
        sig = params[start:start + npar]
        start += npar
        pw.append(rerr.pointwise(code, sig, ybar, y))
    total = sum(np.sum(p) for p in pw)
    return total, pw


def build_likelihood(case):
    ll = _build_likelihood(case)
    return ll


def _overwrite(arrs):
    for a in arrs:
        if isinstance(a, np.ndarray) and a.size:
            a[...] = a[::-1] * 3 + 1


def _build_likelihood(case):
    model = ToyModel(case['n_mech'], case['n_toy_outputs'])
    ems = [chi_error_model(c) for c in case['ems']]
    outputs = None
    if case['sel'] != list(range(case['n_toy_outputs'])) or case.get('explicit'):
        outputs = ['o%d' % j for j in case['sel']]
    obs, times = case['obs'], case['times']
    if case.get('int_data') and case['int_data'][1] == 'array':
        which = case['int_data'][0]
        if which in ('obs', 'both'):
            obs = [np.array(o, dtype=int) for o in obs]
        if which in ('times', 'both'):
            times = [np.array(t, dtype=int) for t in times]
    if case.get('flat'):
        obs, times = obs[0], times[0]
        ems = ems[0]
    if case.get('arrays_overwritten'):
        # the data are handed over as float arrays that the caller re-uses for
        # something else afterwards: the likelihood holds the data it was given
        if case.get('flat'):
            obs, times = np.array(obs, dtype=float), np.array(times, dtype=float)
            ll = chi.LogLikelihood(model, ems, obs, times, outputs=outputs)
            _overwrite([obs, times])
        else:
            obs = [np.array(o, dtype=float) for o in obs]
            times = [np.array(t, dtype=float) for t in times]
            ll = chi.LogLikelihood(model, ems, obs, times, outputs=outputs)
            _overwrite(obs + times)
        return ll
    return chi.LogLikelihood(model, ems, obs, times, outputs=outputs)


def w_grid(case):
    viol = []
    params = np.array(case['params'], dtype=float)
    try:
        ll = build_likelihood(case)
    except Exception as e:  # constructor refuses: nothing to evaluate
        if case.get('perm') and isinstance(e, ValueError) and \
                'increasing' in str(e):
            # documented: times must be given in increasing order; only an object
            # that WAS constructed has to be evaluable (and then correctly)
            return {'transitions': 1, 'outcome': 'rejected:order', 'violations': []}
        return {'transitions': 1, 'outcome': 'rejected:' + type(e).__name__,
                'violations': [{
                    'sub': 'construct', 'message': 'constructor rejected a valid '
                    'measurement set: %s' % e, 'expected': 'accepted',
                    'observed': repr(e), 'behaviour': 'ctor_reject'}]}
    ntr = 1
    exp_tot, exp_pw = reference(case)
    exp_tot = float(np.real(exp_tot))
    tied = any(len(set(t)) != len(t) for t in case['times'])
    try:
        got = ll(params.copy())
        ntr += 1
    except ValueError as e:
        beh = 'tied_times_raise' if tied and 'number of model outputs must match' \
            in str(e) else 'call_raise'
        return {'transitions': ntr, 'outcome': 'raise', 'violations': [{
            'sub': 'call', 'message': 'constructed log-likelihood cannot be '
            'evaluated: %s' % e, 'expected': exp_tot, 'observed': repr(e),
            'behaviour': beh}]}
    if not tol.close(got, exp_tot):
        viol.append({'sub': 'total', 'message': 'log-likelihood is not the sum over '
                     'all measurements of the error density at the prediction for '
                     'the same output and time', 'expected': exp_tot,
                     'observed': got, 'behaviour': 'total'})
    pw = np.asarray(ll.compute_pointwise_ll(params.copy()), dtype=float)
    ntr += 1
    exp_flat = np.real(np.concatenate(exp_pw))
    if case.get('perm') and tied and pw.shape == exp_flat.shape:
        # measurements given in non-ascending order with tied times: the order
        # among the tied ones is not defined -- compare per output as multisets
        a, b, k0 = [], [], 0
        for blk in exp_pw:
            a.append(np.sort(pw[k0:k0 + len(blk)]))
            b.append(np.sort(np.real(blk)))
            k0 += len(blk)
        pw_cmp, exp_cmp = np.concatenate(a), np.concatenate(b)
    else:
        pw_cmp, exp_cmp = pw, exp_flat
    if pw.shape != exp_flat.shape or not tol.allclose(pw_cmp, exp_cmp):
        viol.append({'sub': 'pointwise', 'message': 'pointwise log-likelihoods are '
                     'not the per-measurement densities listed output by output '
                     'in time order', 'expected': exp_flat, 'observed': pw,
                     'behaviour': 'pointwise'})
    elif not tol.close(pw.sum(), got):
        viol.append({'sub': 'sum', 'message': 'pointwise values do not add up to '
                     'the total', 'expected': got, 'observed': float(pw.sum())})
    n_obs = [int(n) for n in ll.n_observations()]
    if n_obs != [len(t) for t in case['times']]:
        viol.append({'sub': 'n_obs', 'message': 'n_observations wrong',
                     'expected': [len(t) for t in case['times']],
                     'observed': n_obs})
    if ll.n_parameters() != len(params) or \
            len(ll.get_parameter_names()) != len(params):
        viol.append({'sub': 'n_par', 'message': 'n_parameters / names disagree '
                     'with mechanistic + error parameters',
                     'expected': len(params),
                     'observed': [ll.n_parameters(), ll.get_parameter_names()]})
    # score of evaluateS1 (gradient itself is C03's subject)
    s1 = ll.evaluateS1(params.copy())
    ntr += 1
    if not tol.close(s1[0], exp_tot):
        viol.append({'sub': 's1', 'message': 'evaluateS1 score differs',
                     'expected': exp_tot, 'observed': s1[0], 'behaviour': 's1'})
    # and evaluating again after the sensitivity switch gives the same
    got2 = ll(params.copy())
    ntr += 1
    if not tol.close(got2, got):
        viol.append({'sub': 'repeat', 'message': 'second evaluation differs',
                     'expected': got, 'observed': got2})
    # the caller moves entries of ONE array object in place between evaluations
    x_obj = params.copy()
    ll(x_obj)
    for k_ in sorted(set([0, len(params) - 1, case['n_mech']])):
        if k_ >= len(params):
            continue
        x_obj[k_] *= 1.01
        e_m = float(np.real(reference(case, x_obj.copy())[0]))
        g_m = [ll(x_obj), float(np.sum(ll.compute_pointwise_ll(x_obj))),
               ll.evaluateS1(x_obj)[0]]
        ntr += 3
        if not all(tol.close(g, e_m) for g in g_m):
            viol.append({'sub': 'inplace', 'message': 'after entry %d of the SAME '
                         'parameter array was changed in place the evaluations are '
                         'not the reference sum at the new vector' % k_,
                         'expected': e_m, 'observed': g_m, 'behaviour': 'inplace'})
            break
    # every ordered pair of the three evaluation entry points on the same object
    for k, ep in enumerate(SEQUENCE):
        if ep == 'c':
            v = ll(params.copy())
        elif ep == 'p':
            v = float(np.sum(ll.compute_pointwise_ll(params.copy())))
        else:
            v = ll.evaluateS1(params.copy())[0]
        ntr += 1
        if not tol.close(v, exp_tot):
            viol.append({'sub': 'sequence', 'message': 'evaluation %d (%s) of the '
                         'entry-point sequence %s on one object differs from the '
                         'reference sum' % (k, ep, ''.join(SEQUENCE)),
                         'expected': exp_tot, 'observed': v,
                         'behaviour': 'sequence'})
            break
    # fixing parameters: the reduced likelihood is the reference at the substituted
    # vector, for every subset of (mechanistic + error) parameters, in one or two calls
    extra = []
    if case.get('fix'):
        names = ll.get_parameter_names()
        fix = case['fix']
        theta = params.copy()
        for i, v in fix:
            theta[i] = v
        free = [i for i in range(len(params)) if i not in [f[0] for f in fix]]
        half = case.get('split', len(fix))
        step = -1 if case.get('fix_desc') else 1
        ll.fix_parameters({names[i]: v for i, v in fix[:half][::step]})
        if fix[half:]:
            ll.fix_parameters({names[i]: v for i, v in fix[half:][::step]})
        ntr += 1
        e_tot, e_pw = reference(case, theta)
        e_tot = float(np.real(e_tot))
        if ll.get_parameter_names() != [names[i] for i in free]:
            viol.append({'sub': 'fix_names', 'message': 'names after fix_parameters '
                         'are not the unfixed ones in order',
                         'expected': [names[i] for i in free],
                         'observed': ll.get_parameter_names()})
        else:
            g1 = ll(params[free].copy())
            g2 = float(np.sum(ll.compute_pointwise_ll(params[free].copy())))
            g3 = ll.evaluateS1(params[free].copy())[0]
            g4 = ll(params[free].copy())
            ntr += 4
            extra = [g1, g3]
            if not all(tol.close(g, e_tot) for g in (g1, g2, g3, g4)):
                viol.append({'sub': 'fixed', 'message': 'log-likelihood with fixed '
                             'parameters is not the reference sum at the '
                             'substituted parameter vector', 'expected': e_tot,
                             'observed': [g1, g2, g3, g4], 'behaviour': 'fixed'})
            # the free vector as a Python list whose last entry (a free error
            # parameter worth a whole number) is an int
            if free and free[-1] >= case['n_mech']:
                theta_i = theta.copy()
                theta_i[free[-1]] = 1.0
                e_i = float(np.real(reference(case, theta_i)[0]))
                arg = [float(v_) for v_ in params[free][:-1]] + [1]
                g_i = [ll(list(arg)),
                       float(np.sum(ll.compute_pointwise_ll(list(arg)))),
                       ll.evaluateS1(list(arg))[0]]
                ntr += 3
                if not all(tol.close(g, e_i) for g in g_i):
                    viol.append({'sub': 'fixed_int', 'message': 'log-likelihood '
                                 'with fixed parameters evaluated at a list ending '
                                 'in an int is not the reference sum', 'expected':
                                 e_i, 'observed': g_i, 'behaviour': 'fixed'})
            # the same parameters re-fixed to other values, evaluated at the SAME
            # free vector (every entry point first once)
            theta2 = theta.copy()
            for i, v in fix:
                theta2[i] = v * 1.3
            e2 = float(np.real(reference(case, theta2)[0]))
            for first in ('c', 'p', 's'):
                ll.fix_parameters({names[i]: float(theta2[i]) for i, v in fix})
                seq = {'c': 'cps', 'p': 'pcs', 's': 'scp'}[first]
                got2 = []
                for ep in seq:
                    if ep == 'c':
                        got2.append(ll(params[free].copy()))
                    elif ep == 'p':
                        got2.append(float(np.sum(
                            ll.compute_pointwise_ll(params[free].copy()))))
                    else:
                        got2.append(ll.evaluateS1(params[free].copy())[0])
                ntr += 4
                if not all(tol.close(g, e2) for g in got2):
                    viol.append({'sub': 'refixed', 'message': 'after re-fixing the '
                                 'same parameters to other values the evaluations '
                                 '(order %s) at the same free vector are not the '
                                 'reference sum at the new values' % seq,
                                 'expected': e2, 'observed': got2,
                                 'behaviour': 'refixed'})
                    break
                # and back, so that the next round starts from the first values
                ll.fix_parameters({names[i]: float(v) for i, v in fix})
                if not tol.close(ll(params[free].copy()), e_tot):
                    viol.append({'sub': 'refixed_back', 'message': 'fixing back to '
                                 'the first values does not restore the first score',
                                 'expected': e_tot, 'observed': 'differs',
                                 'behaviour': 'refixed'})
                    break
    # posterior = prior + likelihood
    if case.get('posterior'):
        pri = pints.ComposedLogPrior(*[
            pints.GaussianLogPrior(1.0 + 0.1 * i, 2.0 + 0.3 * i)
            for i in range(len(params))])
        post = chi.LogPosterior(ll, pri)
        gp = post(params.copy())
        ntr += 1
        ep = exp_tot + sum(
            -0.5 * np.log(2 * np.pi) - np.log(2.0 + 0.3 * i)
            - (p - 1.0 - 0.1 * i) ** 2 / (2 * (2.0 + 0.3 * i) ** 2)
            for i, p in enumerate(params))
        if not tol.close(gp, ep):
            viol.append({'sub': 'posterior', 'message': 'log-posterior is not '
                         'log-prior + log-likelihood', 'expected': ep,
                         'observed': gp})
    return {'transitions': ntr, 'outcome': tol.rnd([got, pw, extra]),
            'violations': viol}


def w_sbml(case):
    """SBML driver (library models on the solver stand-in): the reference prediction
    for a measurement is the model's own simulation at that single time (the
    simulation API is decided by C09), so what is checked is the routing of
    measurements to outputs / times / error models."""
    import chi.library
    viol = []
    lib = chi.library.ModelLibrary()
    if case['model'] == 'erlotinib':
        m = lib.erlotinib_tumour_growth_inhibition_model()
        m.set_administration('central', direct=case['direct'])
        m.set_dosing_regimen(2.0, start=0.3, duration=0.4, period=1.0, num=2)
        m.set_outputs(case['outputs'])
    else:
        m = lib.one_compartment_pk_model()
        m.set_administration('central', direct=case['direct'])
        m.set_dosing_regimen(1.5, start=0.2, duration=0.3)
        m.set_outputs(case['outputs'])
    ems = [chi_error_model(c) for c in case['ems']]
    if case.get('pre_sens'):
        # the user had sensitivities switched on when handing the model over
        m.enable_sensitivities(True)
    ll = chi.LogLikelihood(m, ems, case['obs'], case['times'])
    if case.get('pre_sens'):
        m.enable_sensitivities(False)
    n_mech = m.n_parameters()
    params = np.array(case['params'], dtype=float)
    exp = 0.0
    pw = []
    start = n_mech
    fresh = m.copy()
    for j, code in enumerate(case['ems']):
        npar = rerr.N_PARAMS[code]
        sig = params[start:start + npar]
        start += npar
        order = np.argsort(case['times'][j], kind='stable')
        for k in order:
            t, y = case['times'][j][k], case['obs'][j][k]
            ybar = fresh.simulate(params[:n_mech], [t])[j, 0]
            v = rerr.pointwise(code, sig, np.array([ybar]), np.array([y]))[0]
            pw.append(v)
            exp += v
    first = case.get('first', 'c')
    if first == 's':
        # the very first evaluation of the object is evaluateS1
        s0 = ll.evaluateS1(params.copy())[0]
        if not tol.close(s0, exp, tol.ODE_REL, tol.ODE_ABS):
            viol.append({'sub': 'sbml_first_s1', 'message': 'evaluateS1 as the '
                         'first evaluation of an SBML-driven log-likelihood differs '
                         'from the reference sum', 'expected': exp, 'observed': s0,
                         'behaviour': 'sbml_s1'})
    elif first == 'p':
        ll.compute_pointwise_ll(params.copy())
    got = ll(params.copy())
    if not tol.close(got, exp, 1e-7, 1e-9):
        viol.append({'sub': 'sbml_total', 'message': 'SBML-driven log-likelihood is '
                     'not the sum over measurements of the error density at the '
                     'prediction for the same output and time', 'expected': exp,
                     'observed': got, 'behaviour': 'sbml_total'})
    gp = np.asarray(ll.compute_pointwise_ll(params.copy()), dtype=float)
    if gp.shape != (len(pw),) or not tol.allclose(gp, np.array(pw), 1e-7, 1e-9):
        viol.append({'sub': 'sbml_pointwise', 'message': 'SBML-driven pointwise '
                     'log-likelihoods wrong', 'expected': pw, 'observed': gp,
                     'behaviour': 'sbml_pointwise'})
    s1 = ll.evaluateS1(params.copy())
    # (the sensitivity-augmented system is integrated separately: ODE tolerance)
    if not tol.close(s1[0], exp, tol.ODE_REL, tol.ODE_ABS):
        viol.append({'sub': 'sbml_s1', 'message': 'SBML-driven evaluateS1 score '
                     'differs', 'expected': exp, 'observed': s1[0],
                     'behaviour': 'sbml_s1'})
    for k, ep in enumerate(SEQUENCE):
        if ep == 'c':
            v = ll(params.copy())
        elif ep == 'p':
            v = float(np.sum(ll.compute_pointwise_ll(params.copy())))
        else:
            v = ll.evaluateS1(params.copy())[0]
        if not tol.close(v, exp, *((tol.ODE_REL, tol.ODE_ABS) if ep == 's'
                                   else (1e-7, 1e-9))):
            viol.append({'sub': 'sbml_sequence', 'message': 'evaluation %d (%s) of '
                         'the entry-point sequence %s on one SBML-driven object '
                         'differs from the reference sum' % (k, ep,
                                                             ''.join(SEQUENCE)),
                         'expected': exp, 'observed': v,
                         'behaviour': 'sbml_sequence'})
            break
    return {'transitions': 4 + len(pw) + len(SEQUENCE),
            'outcome': tol.rnd([got, gp], 8), 'violations': viol}


def w_siblings(case):
    """Several log-likelihoods built from one user model that already has fixed
    parameters: each is the reference sum at its own fixed values, whatever is done to
    the siblings or to the user's object afterwards."""
    viol = []
    n_mech = case['n_mech']
    user = chi.ReducedMechanisticModel(ToyModel(n_mech, 1))
    names = ['p%d' % i for i in range(n_mech)]
    full = np.array(case['params'], dtype=float)       # mechanistic + error params
    pre = dict(case['pre_fixed'])                       # index -> value
    user.fix_parameters({names[i]: v for i, v in pre.items()})
    em = chi_error_model(case['ems'][0])
    # (ONE list object holding the user's error model is handed to every likelihood)
    user_ems = [em]
    lls = [chi.LogLikelihood(user, user_ems, case['obs'][0], case['times'][0])
           for _ in range(2)]
    state = [dict(pre), dict(pre)]
    user_state = dict(pre)
    all_names = names + lls[0].get_parameter_names()[-(len(full) - n_mech):]

    def expect(k):
        theta = full.copy()
        for i, v in state[k].items():
            theta[i] = v
        free = [i for i in range(len(full)) if i not in state[k]]
        return float(np.real(reference(case, theta)[0])), free
    ntr = 3
    for op in case['ops']:
        if op[0] == 'fix':            # on sibling op[1]: {index: value}
            k = op[1]
            lls[k].fix_parameters({all_names[i]: v for i, v in op[2]})
            for i, v in op[2]:
                if v is None:
                    state[k].pop(i, None)
                else:
                    state[k][i] = v
        elif op[0] == 'user_fix':     # on the user's own object
            user.fix_parameters({names[i]: v for i, v in op[1]})
            for i, v in op[1]:
                if v is None:
                    user_state.pop(i, None)
                else:
                    user_state[i] = v
        ntr += 1
        for k in (0, 1):
            e, free = expect(k)
            x = full[free]
            g = [lls[k](x.copy()), lls[k].evaluateS1(x.copy())[0],
                 float(np.sum(lls[k].compute_pointwise_ll(x.copy())))]
            ntr += 3
            if not all(tol.close(v, e) for v in g):
                viol.append({'sub': 'siblings', 'message': 'log-likelihood %d built '
                             'from a user model with fixed parameters is not the '
                             'reference sum at its own fixed values after %s'
                             % (k, case['ops']), 'expected': e, 'observed': g,
                             'behaviour': 'siblings'})
                return {'transitions': ntr, 'outcome': 'viol', 'violations': viol}
    # a likelihood built NOW from the user's objects knows nothing of what was done
    # to the earlier ones
    if len(user_ems) != 1 or user_ems[0] is not em:
        viol.append({'sub': 'user_list', 'message': 'the list of error models handed '
                     'to the likelihoods was modified (after %s)' % case['ops'],
                     'expected': 'the user\'s list', 'observed': repr(user_ems),
                     'behaviour': 'siblings'})
    else:
        state.append(dict(user_state))
        late = chi.LogLikelihood(user, user_ems, case['obs'][0], case['times'][0])
        e, free = expect(2)
        x = full[free]
        if late.n_parameters() != len(x):
            viol.append({'sub': 'late', 'message': 'a likelihood built from the '
                         'user\'s objects after %s has %d parameters'
                         % (case['ops'], late.n_parameters()), 'expected': len(x),
                         'observed': late.n_parameters(), 'behaviour': 'siblings'})
        else:
            g = [late(x.copy()), late.evaluateS1(x.copy())[0]]
            if not all(tol.close(v, e) for v in g):
                viol.append({'sub': 'late', 'message': 'a likelihood built from the '
                             'user\'s objects after %s is not the reference sum at '
                             'the user model\'s fixed values' % case['ops'],
                             'expected': e, 'observed': g, 'behaviour': 'siblings'})
        ntr += 3
    return {'transitions': ntr, 'outcome': key_of([case['ops'], expect(0)[0],
                                                   expect(1)[0]]),
            'violations': viol}


WORKERS = {'siblings': w_siblings, 'grids': w_grid, 'selection': w_grid, 'sbml': w_sbml,
           'fixing': w_grid}


def multisets(lattice, max_size):
    out = []
    for n in range(1, max_size + 1):
        out += [list(c) for c in
                itertools.combinations_with_replacement(lattice, n)]
    return out


def make_case(ems, times, n_toy, sel, seed, n_mech=2, flat=False, posterior=False,
              tag=''):
    obs = []
    for j, t in enumerate(times):
        obs.append(vals.reals('c01.obs.%d.%d%s' % (j, len(t), tag), len(t),
                              0.5, 8.0, seed))
    params = vals.reals('c01.psi', n_mech, 0.4, 2.5, seed)
    for j, code in enumerate(ems):
        if code == 'CM':
            params += [vals.real('c01.sb%d' % j, 0.2, 1.2, seed),
                       vals.real('c01.sr%d' % j, 0.05, 0.4, seed)]
        elif code == 'G':
            params += [vals.real('c01.sg%d' % j, 0.3, 1.8, seed)]
        elif code == 'M':
            params += [vals.real('c01.sm%d' % j, 0.05, 0.5, seed)]
        else:
            params += [vals.real('c01.sl%d' % j, 0.1, 0.9, seed)]
    return {'ems': list(ems), 'times': [list(t) for t in times], 'obs': obs,
            'params': params, 'n_mech': n_mech, 'n_toy_outputs': n_toy,
            'sel': list(sel), 'flat': flat, 'posterior': posterior}


def build(tier, seed):
    lattice = [0.0, vals.real('c01.t1', 0.3, 1.2, seed),
               vals.real('c01.t2', 1.5, 3.0, seed)]
    codes = list(rerr.MODELS)
    grids = []
    # k = 1: all multisets, both calling conventions
    s1 = 3 if tier == 'quick' else 4
    for code in codes:
        for t in multisets(lattice, s1):
            for flat in (False, True):
                grids.append(make_case([code], [t], 1, [0], seed, flat=flat,
                                       posterior=not flat))
    # measurements handed over in non-ascending time order (reversed / rotated),
    # one and two outputs
    ms_p = multisets(lattice, 3)
    for code in codes:
        for t in ms_p:
            if len(t) < 2:
                continue
            for perm in ('rev', 'rot'):
                c = make_case([code], [t], 1, [0], seed)
                c['perm'] = perm
                for key in ('times', 'obs'):
                    v = c[key][0]
                    c[key] = [v[::-1] if perm == 'rev' else v[1:] + v[:1]]
                grids.append(c)
    for ems in (('G', 'CM'), ('LN', 'M')):
        for t0 in ms_p[3::4]:
            for t1 in ms_p[5::4]:
                c = make_case(ems, [t0, t1], 2, [0, 1], seed)
                c['perm'] = 'rev'
                c['times'] = [t0[::-1], t1[1:] + t1[:1]]
                c['obs'] = [c['obs'][0][::-1], c['obs'][1][1:] + c['obs'][1][:1]]
                grids.append(c)
    # k = 2
    s2 = 2 if tier == 'quick' else 3
    ms = multisets(lattice, s2)
    for ems in itertools.product(codes, repeat=2):
        for t0 in ms:
            for t1 in ms:
                grids.append(make_case(ems, [t0, t1], 2, [0, 1], seed,
                                       posterior=(len(t0) + len(t1) == 3)))
    # measurement times that differ in the last digits only (0.1 + 0.2 and 0.3;
    # neighbouring floats), within and across outputs
    tn = 0.1 + 0.2
    near = [[0.3, tn], [tn, 0.3 + 1e-13, 0.9], [0.3, 0.9, float(np.nextafter(0.9, 2))]]
    for code in codes:
        for t in near:
            grids.append(make_case([code], [sorted(t)], 1, [0], seed, tag='n'))
    for ems in itertools.product(codes[:2] + codes[3:], repeat=2):
        for t0, t1 in (([0.3, 0.9], [tn]), ([tn, 0.9], [0.3, 0.9 + 1e-13]),
                       ([0.3], [tn, float(np.nextafter(tn, 2))])):
            grids.append(make_case(ems, [sorted(t0), sorted(t1)], 2, [0, 1], seed,
                                   tag='n'))
    # mechanistic parameters that are zero or negative (only the noise parameters
    # have a sign constraint; the model output stays positive)
    for code in codes:
        for psi in ([0.0, 1.3], [2.5, -0.2], [2.5, 0.0]):
            for ems, ts, n_toy, sel in (([code], [ms[5]], 1, [0]),
                                        ([code, 'G'], [ms[5], ms[3]], 2, [0, 1])):
                c = make_case(ems, ts, n_toy, sel, seed, tag='z')
                c['params'][:2] = psi
                grids.append(c)
    # data arrays overwritten by the caller after the likelihood was built
    for code in codes:
        for ems, ts, n_toy, sel in (([code], [ms[5]], 1, [0]),
                                    ([code, 'G'], [ms[5], ms[3]], 2, [0, 1]),
                                    (['G', code], [ms[8], ms[5]], 2, [0, 1])):
            c = make_case(ems, ts, n_toy, sel, seed, tag='w')
            c['arrays_overwritten'] = True
            grids.append(c)
        c = make_case([code], [ms[6]], 1, [0], seed, flat=True, tag='w')
        c['arrays_overwritten'] = True
        grids.append(c)
    # negative model outputs (change-from-baseline quantities): fine for the additive
    # model, and for the combined model while its total scale stays positive
    for code in ('G', 'CM'):
        for psi in ([-0.4, 0.3], [-1.1, 0.2]):
            for ems, ts, n_toy, sel in (([code], [ms[5]], 1, [0]),
                                        (['G', code], [ms[3], ms[5]], 2, [0, 1])):
                c = make_case(ems, ts, n_toy, sel, seed, tag='m')
                c['params'][:2] = psi
                if code == 'CM':
                    # sigma_base 1.5, sigma_rel 0.1: positive total scale
                    k_ = 2 + (1 if ems[0] == 'G' and len(ems) == 2 else 0)
                    c['params'][k_:k_ + 2] = [1.5, 0.1]
                grids.append(c)
    # large readings with small noise (cell counts of 1e5 measured to 0.1): the
    # residuals are tiny against the values
    for code, sig in (('G', [0.1]), ('CM', [0.1, 1e-7]), ('M', [5e-7])):
        for big in (2.0e5, 3.0e7):
            c = make_case([code], [ms[5]], 1, [0], seed, tag='L')
            c['params'][:2] = [big, 0.3]
            c['params'][2:] = sig
            t_ = np.sort(np.asarray(c['times'][0], dtype=float))
            yb_ = np.real(toy.evaluate(np.array(c['params'][:2]), t_, 1)[0])
            order_ = np.argsort(np.asarray(c['times'][0], dtype=float), kind='stable')
            ob_ = np.empty(len(t_))
            ob_[order_] = yb_ + 0.07 * (-1.0) ** np.arange(len(t_)) * (
                1 + 0.3 * np.arange(len(t_)))
            c['obs'] = [ob_.tolist()]
            grids.append(c)
    # measurements and / or times that are whole numbers, handed over as Python ints
    # and as integer arrays (cf. `int_data` in build_likelihood)
    for code in codes:
        for ems, n_toy, sel in (([code], 1, [0]), ([code, 'G'], 2, [0, 1])):
            for which in ('obs', 'times', 'both'):
                for form in ('list', 'array'):
                    ts = [[1, 2, 4], [2, 3]][:n_toy]
                    c = make_case(ems, [[float(t_) for t_ in t] for t in ts],
                                  n_toy, sel, seed, tag='i')
                    if which in ('obs', 'both'):
                        c['obs'] = [[int(max(1, round(v))) for v in o]
                                    for o in c['obs']]
                    if which in ('times', 'both'):
                        c['times'] = [[int(t_) for t_ in t] for t in ts]
                    else:
                        c['times'] = [[t_ + 0.25 for t_ in t] for t in ts]
                    c['int_data'] = [which, form]
                    grids.append(c)
    # long series with large / small predictions (the sum of per-measurement terms
    # stays finite where a product of scales does not)
    for code in codes:
        for n_t, amp in ((200, 1e3), (500, 1e3), (500, 1e-3), (120, 1.0)):
            c = make_case([code], [[0.01 * (k_ + 1) for k_ in range(n_t)]], 1, [0],
                          seed, tag='L')
            c['params'] = [amp, 0.05] + c['params'][2:]
            c['obs'] = [[amp * (0.6 + 0.001 * (k_ % 37)) for k_ in range(n_t)]]
            grids.append(c)
    # outputs without any measurement (not all of them), first / middle / last
    for ems in itertools.product(codes, repeat=2):
        for t in ms[::2]:
            grids.append(make_case(ems, [[], t], 2, [0, 1], seed, tag='e'))
            grids.append(make_case(ems, [t, []], 2, [0, 1], seed, tag='e'))
    for ems in itertools.product(codes[:2] + codes[3:], repeat=3):
        for empties in ([0], [1], [2], [0, 1], [1, 2], [0, 2]):
            ts = [[] if j in empties else ms[(3 + 2 * j) % len(ms)]
                  for j in range(3)]
            grids.append(make_case(ems, ts, 3, [0, 1, 2], seed, tag='e'))
    if tier == 'quick':
        # k = 3: every error-model assignment on three collision-forcing grid
        # triples (more than two outputs exercise the accumulated offsets)
        triples = [[ms[4], ms[1], ms[6]], [ms[0], ms[8], ms[3]],
                   [ms[7], ms[7], ms[2]]]
        for ems in itertools.product(codes, repeat=3):
            for ts in triples:
                grids.append(make_case(ems, ts, 3, [0, 1, 2], seed))
    if tier == 'thorough':
        ms3 = multisets(lattice, 2)
        for ems in itertools.product(codes, repeat=3):
            for ts in itertools.product(ms3, repeat=3):
                # symmetry: permuting outputs together with their grids and error
                # models leaves the reference sum unchanged -> canonical order
                key = [(e, t) for e, t in zip(ems, ts)]
                if key != sorted(key):
                    continue
                grids.append(make_case(ems, list(ts), 3, [0, 1, 2], seed))
    # output selection / permutation out of a 3-output toy model
    selection = []
    ms_s = multisets(lattice, 2)
    sels = [[2, 0], [1, 2], [2, 1], [1], [2]]
    for sel in sels:
        for ems in itertools.product(codes[:2] + codes[3:], repeat=len(sel)):
            for ts in itertools.product(ms_s[::2] if tier == 'quick' else ms_s,
                                        repeat=len(sel)):
                selection.append(make_case(ems, list(ts), 3, sel, seed, tag='s'))
    # all of the model's outputs, named explicitly, in every order
    for n_toy in (2, 3):
        for sel in itertools.permutations(range(n_toy)):
            for ems in itertools.product(['G', 'CM'], repeat=n_toy):
                for gi in range(3):
                    ts = [ms_s[(gi + 2 * j) % len(ms_s)] for j in range(n_toy)]
                    c = make_case(ems, ts, n_toy, list(sel), seed, tag='p')
                    c['explicit'] = True
                    selection.append(c)
    # every proper non-empty subset of (3 mechanistic + error) parameters fixed, in
    # one call and split over two calls
    fixing = []
    for ems in (['CM'], ['G', 'LN']):
        ts = [ms_s[4], ms_s[7]][:len(ems)]
        base = make_case(ems, ts, len(ems), list(range(len(ems))), seed, n_mech=3,
                         tag='f')
        n_par = len(base['params'])
        fv = vals.reals('c01.fixv', n_par, 0.3, 1.4, seed)
        for r in range(1, n_par):
            for sub in itertools.combinations(range(n_par), r):
                for split in sorted({r, r // 2} - {0}):
                    c = dict(base)
                    c['fix'] = [[i, fv[i]] for i in sub]
                    c['split'] = split
                    fixing.append(c)
                    if r >= 2:
                        # the same dictionary written down from its last entry
                        c = dict(c)
                        c['fix_desc'] = True
                        fixing.append(c)
    # siblings built from one pre-reduced user model: all sequences of <= 2 | 3
    # operations over {fix / re-fix / release on either sibling, user re-fixes}
    sib = []
    base = make_case(['G'], [ms_s[5]], 1, [0], seed, n_mech=3, tag='sib')
    sops = [['fix', 0, [[2, 0.9]]], ['fix', 1, [[2, 1.2]]], ['fix', 0, [[0, 0.7]]],
            ['fix', 1, [[0, None]]], ['fix', 0, [[3, 0.6]]], ['fix', 1, [[2, None]]],
            ['user_fix', [[0, 1.6]]], ['user_fix', [[1, 0.5]]],
            ['user_fix', [[0, None]]]]
    for d in (1, 2) if tier == 'quick' else (1, 2, 3):
        for seq in itertools.product(sops, repeat=d):
            c = dict(base)
            c['pre_fixed'] = [[0, 1.1]]
            c['ops'] = [list(o) for o in seq]
            sib.append(c)
    sbml = []
    ms_s2 = multisets(lattice, 2)
    outs2 = [['global.tumour_volume', 'central.drug_concentration'],
             ['central.drug_concentration', 'global.tumour_volume'],
             ['central.drug_amount', 'global.tumour_volume']]
    for oi, outs in enumerate(outs2):
        for direct in (True, False):
            for ei, ems in enumerate(itertools.product(['G', 'CM', 'LN'], repeat=2)):
                grids_s = ms_s2 if tier == 'thorough' else ms_s2[(oi + ei) % 3::3]
                for gi, t0 in enumerate(grids_s):
                    t1 = ms_s2[(gi * 2 + ei + 1) % len(ms_s2)]
                    n = 7 if direct else 9
                    prm = vals.reals('c01.sb', n, 0.4, 1.6, seed)
                    for code in ems:
                        prm += [0.5, 0.15][:rerr.N_PARAMS[code]]
                    sbml.append({
                        'first': 'cps'[len(sbml) % 3],
                        'pre_sens': (len(sbml) // 3) % 2 == 1,
                        'model': 'erlotinib', 'direct': direct, 'outputs': outs,
                        'ems': list(ems), 'times': [list(t0), list(t1)],
                        'obs': [vals.reals('c01.so0%d' % len(t0), len(t0), 0.5, 4,
                                           seed),
                                vals.reals('c01.so1%d' % len(t1), len(t1), 0.5, 4,
                                           seed)],
                        'params': prm})
    return {
        'parts': [
            Part('siblings', sib, w_siblings,
                 'two log-likelihoods built from one user model with a fixed '
                 'parameter: operation sequences on the siblings and the user object'),
            Part('sbml', sbml, w_sbml,
                 '2-output library model with dosing on the solver stand-in: '
                 'output orders x routes x error models x grid pairs'),
            Part('grids', grids, w_grid,
                 'outputs x error-model assignment x all time multisets per output'),
            Part('selection', selection, w_grid,
                 'permuted / partial output selections of a 3-output model; all '
                 'outputs named explicitly in every order'),
            Part('fixing', fixing, w_grid,
                 'every proper subset of mechanistic + error parameters fixed (one '
                 'or two fix_parameters calls), all entry points'),
        ],
        'bounds': {'lattice': lattice, 'max_multiset_size_k1': s1,
                   'max_multiset_size_k2': s2,
                   'k_max': 2 if tier == 'quick' else 3},
        'rule': 'complete product (k=3 reduced by the output-permutation symmetry '
                'of the reference sum); distinct = distinct (total, pointwise) '
                'observations',
        'min_outcomes': {'grids': 100},
        'assumptions': ['toy closed-form mechanistic model stands for "any '
                        'mechanistic model"; SBML models are driven in C09/C14',
                        'one generic parameter point per seed'],
    }


META = {
    'technique': 'bounded exhaustive enumeration of outputs x error-model '
                 'assignments x time-grid multisets on the real LogLikelihood '
                 'against a per-measurement reference sum',
    'level_text': 'Every assignment of the four error models to 1-3 outputs and every '
                  'sorted multiset of measurement times over a 3-point lattice per '
                  'output (identical, disjoint, nested, overlapping, tied, length 1) '
                  'is built and evaluated; total, pointwise order, counts, the S1 '
                  'score, repeat evaluation and prior+likelihood are compared with '
                  'the reference sum.',
    'level_note': 'Toy closed-form mechanistic model (exact); values from finite '
                  'alphabets; exhaustive over grid structure within the bounds.',
}
META['level_text'] += (
    ' Also: siblings built from one list of user error models and a likelihood buil'
    't afterwards, dictionaries written from the last entry, zero / negative mechan'
    'istic parameters, negative model outputs, integer-typed data, near-equal times'
    '.')
META['level_text'] += (' Wave 9: readings of 1e5 and 1e7 with noise 0.1.')
