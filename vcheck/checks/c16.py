"""C16 — seeds fully determine random results; random streams are independent.

Shape (B + C): for every sampling entry point e and seed s: (a) the result of
call(e, s) after EVERY history of length <= d over {np.random.seed(7),
np.random.random(), call(e', s')} equals the result in a fresh interpreter state,
bit for bit; (b) two seeds give different draws wherever the routine is random;
(c) a Generator passed as seed is advanced, not restarted; (d) under the RngSeam each
base variate of each stream consumed by one call is moved in turn (deviation 1) and
must reach at most one (output, time, individual, sample) cell -- equal integer seeds
denote equal streams, so one seed handed to several error models shows up as one
variate feeding two outputs."""
import itertools

import numpy as np
import pints
import xarray as xr

import chi

from ..core import tol
from ..core.engine import Part, key_of
from ..env.rngseam import Seam, Script
from ..gen import hier, popbuild, popvals
from ..gen.toymodel import ToyModel
from ..ref import populations as rp
from . import c12

PROPERTY = 'C16'
TIMES = [0.4, 1.1, 2.0]


def _posterior_dataset(names, n_ind=2, n_chains=2, n_draws=3, pop_names=()):
    data = {}
    k = 0
    for n in names:
        k += 1
        arr = 0.5 + 0.01 * np.arange(n_chains * n_draws * n_ind).reshape(
            n_chains, n_draws, n_ind) + 0.3 * k
        data[n] = (('chain', 'draw', 'individual'), arr)
    for n in pop_names:
        k += 1
        arr = 0.4 + 0.02 * np.arange(n_chains * n_draws).reshape(
            n_chains, n_draws) + 0.2 * k
        data[n] = (('chain', 'draw'), arr)
    return xr.Dataset(data, coords={
        'chain': list(range(n_chains)), 'draw': list(range(n_draws)),
        'individual': ['a', 'b'][:n_ind]})


def _pred(n_out=1):
    ems = [chi.GaussianErrorModel(), chi.LogNormalErrorModel()][:n_out]
    return chi.PredictiveModel(ToyModel(2, n_out), ems)


def _red_tg():
    m = chi.ReducedPopulationModel(chi.ComposedPopulationModel([
        chi.TruncatedGaussianModel(n_dim=2)]))
    m.fix_parameters({m.get_parameter_names()[3]: 0.5})
    return m


def _filter_posterior():
    y = np.array([[[1.0, 2.0]], [[1.5, 2.5]]])
    f = chi.GaussianFilter(y)
    pop = popbuild.build(rp.Comp([rp.G(1), rp.P(1)]), None)
    prior = pints.ComposedLogPrior(*[
        pints.UniformLogPrior(0.3, 2) for _ in range(3)])
    return chi.PopulationFilterLogPosterior(
        f, [0.5, 1.5], ToyModel(2, 1), pop, prior, sigma=[0.2], n_samples=3)


def entry_points():
    """name -> callable(seed) returning a numeric array (or DataFrame values)."""
    eps = {}
    for code, cls, par in (('G', 'GaussianErrorModel', [0.5]),
                           ('M', 'MultiplicativeGaussianErrorModel', [0.2]),
                           ('CM', 'ConstantAndMultiplicativeGaussianErrorModel',
                            [0.5, 0.2]), ('LN', 'LogNormalErrorModel', [0.3])):
        eps['err:' + code] = (lambda seed, cls=cls, par=par: getattr(chi, cls)()
                              .sample(par, [1.0, 2.0], n_samples=2, seed=seed))
    pops = {'G': rp.G(2), 'LNnc': rp.LN(1, False), 'TG': rp.TG(1), 'H': rp.H(1),
            'comp': rp.Comp([rp.G(1), rp.TG(1), rp.LN(1)]),
            'cov': rp.Cov(rp.G(1), 1),
            'compcov': rp.Comp([rp.G(1), rp.Cov(rp.G(1), 1), rp.Cov(rp.LN(1), 1)])}
    # a heterogeneous sub-model holding several individuals inside a composition
    pops['compH'] = rp.Comp([rp.G(1), rp.H(1)])
    pops['compH2'] = rp.Comp([rp.H(1), rp.LN(1), rp.H(1)])
    for k, spec in pops.items():
        n_ids = 3 if 'H' in k else 2
        top = popvals.top_values(spec, n_ids, 0)
        cov = popvals.covariates(spec, 2, 0)

        def f(seed, spec=spec, n_ids=n_ids, top=top, cov=cov):
            m = popbuild.build(spec, n_ids)
            kw = {'covariates': cov} if cov is not None else {}
            return m.sample(top, n_samples=2, seed=seed, **kw)
        eps['pop:' + k] = f
    eps['pred1'] = lambda seed: _pred(1).sample(
        [1.0, 0.5, 0.3], TIMES, n_samples=2, seed=seed, return_df=False)
    eps['pred2'] = lambda seed: _pred(2).sample(
        [1.0, 0.5, 0.3, 0.2], TIMES, n_samples=2, seed=seed, return_df=False)

    # an error-model parameter fixed beforehand
    def pred_fixed(seed):
        pm = _pred(2)
        pm.fix_parameters({pm.get_parameter_names()[2]: 0.3})
        return pm.sample([1.0, 0.5, 0.2], TIMES, n_samples=3, seed=seed,
                         return_df=False)
    eps['pred_fixed'] = pred_fixed
    # replicate measurements: requested times with repeated values
    rep = [1.1, 0.4, 1.1, 2.0, 0.4]
    eps['pred1rep'] = lambda seed: _pred(1).sample(
        [1.0, 0.5, 0.3], rep, n_samples=2, seed=seed, return_df=False)
    eps['pred2rep'] = lambda seed: _pred(2).sample(
        [1.0, 0.5, 0.3, 0.2], rep, n_samples=2, seed=seed, return_df=False)

    def poppred_rep(seed):
        spec = rp.Comp([rp.LN(1), rp.P(1), rp.G(1, False)])
        pm = chi.PopulationPredictiveModel(_pred(1), popbuild.build(spec, None))
        return pm.sample(popvals.top_values(spec, 1, 0, positive=True), rep,
                         n_samples=2, seed=seed, return_df=False)
    eps['poppred_rep'] = poppred_rep
    # several dimensions with identical parameters: the dimensions are separate
    # draws all the same
    for k, cls in (('G', 'GaussianModel'), ('LN', 'LogNormalModel'),
                   ('TG', 'TruncatedGaussianModel')):
        eps['pop:%s3same' % k] = (
            lambda seed, cls=cls: getattr(chi, cls)(n_dim=3).sample(
                [0.8, 0.8, 0.8, 0.5, 0.5, 0.5], n_samples=3, seed=seed))
    eps['pop:redTG2'] = lambda seed: _red_tg().sample(
        [0.8, 0.8, 0.5], n_samples=3, seed=seed)

    def poppred(seed):
        spec = rp.Comp([rp.LN(1), rp.P(1), rp.G(1, False)])
        pm = chi.PopulationPredictiveModel(_pred(1), popbuild.build(spec, None))
        return pm.sample(popvals.top_values(spec, 1, 0, positive=True), TIMES,
                         n_samples=2, seed=seed, return_df=False)
    eps['poppred'] = poppred

    # a population without any random effect: the virtual patients are equal, their
    # measurement noise is not
    def poppred_pooled(seed):
        pm = chi.PopulationPredictiveModel(_pred(1), chi.PooledModel(n_dim=3))
        return pm.sample([1.0, 0.5, 0.3], TIMES, n_samples=3, seed=seed,
                         return_df=False)
    eps['poppred_pooled'] = poppred_pooled

    def priorpred(seed):
        pri = pints.ComposedLogPrior(
            pints.UniformLogPrior(0.5, 1.5), pints.UniformLogPrior(0.2, 0.8),
            pints.HalfCauchyLogPrior(0, 0.3))
        return chi.PriorPredictiveModel(_pred(1), pri).sample(
            TIMES, n_samples=2, seed=seed)['Value'].to_numpy(dtype=float)
    eps['priorpred'] = priorpred

    def by_sample(df):
        # cells x samples (last axis = sample ID)
        ids = sorted(set(df['ID']))
        return np.stack([df[df['ID'] == k]['Value'].to_numpy(dtype=float)
                         for k in ids], axis=-1)

    # averaged predictive models around a two-output model, three samples
    def priorpred2(seed):
        pri = pints.ComposedLogPrior(
            pints.UniformLogPrior(0.5, 1.5), pints.UniformLogPrior(0.2, 0.8),
            pints.UniformLogPrior(0.1, 0.3), pints.UniformLogPrior(0.1, 0.2))
        return by_sample(chi.PriorPredictiveModel(_pred(2), pri).sample(
            TIMES, n_samples=3, seed=seed))
    eps['priorpred2'] = priorpred2

    def postpred2(seed):
        ds = _posterior_dataset(['p0', 'p1', 'o0 Sigma', 'o1 Sigma log'],
                                n_chains=3)
        return by_sample(chi.PosteriorPredictiveModel(_pred(2), ds).sample(
            TIMES, n_samples=3, individual='a', seed=seed))
    eps['postpred2'] = postpred2

    def pam2(seed):
        names = ['p0', 'p1', 'o0 Sigma', 'o1 Sigma log']
        models = [chi.PosteriorPredictiveModel(_pred(2), _posterior_dataset(
            names, n_chains=3)), chi.PosteriorPredictiveModel(
                _pred(2), _posterior_dataset(names, n_draws=2))]
        return by_sample(chi.PAMPredictiveModel(models, [0.5, 0.5]).sample(
            TIMES, n_samples=4, individual='b', seed=seed))
    eps['pam2'] = pam2

    # prior predictive models around population predictive models of every kind
    for k, spec in (('G', rp.Comp([rp.G(1), rp.P(2)])),
                    ('LNnc', rp.Comp([rp.LN(1, False), rp.P(2)])),
                    ('TG', rp.Comp([rp.TG(1), rp.LN(1), rp.P(1)])),
                    ('TG2', rp.Comp([rp.P(1), rp.TG(2)]))):
        def priorpop(seed, spec=spec):
            nt = rp.n_top(spec, 1)
            pri = pints.ComposedLogPrior(*[
                pints.UniformLogPrior(0.3 + 0.05 * i, 0.9 + 0.05 * i)
                for i in range(nt)])
            pm = chi.PopulationPredictiveModel(_pred(1), popbuild.build(spec, None))
            return by_sample(chi.PriorPredictiveModel(pm, pri).sample(
                TIMES, n_samples=3, seed=seed))
        eps['priorpop:' + k] = priorpop

    def postpred(seed):
        ds = _posterior_dataset(['p0', 'p1', 'Sigma'])
        return chi.PosteriorPredictiveModel(_pred(1), ds).sample(
            TIMES, n_samples=2, individual='b', seed=seed)['Value'].to_numpy(
                dtype=float)
    eps['postpred'] = postpred

    # one posterior predictive object shared by two entry points (individuals a / b)
    shared = {}

    def shared_ppm():
        if 'ppm' not in shared:
            ds = _posterior_dataset(['p0', 'p1', 'Sigma'])
            shared['ppm'] = chi.PosteriorPredictiveModel(_pred(1), ds)
        return shared['ppm']
    eps['postpred_shared_a'] = lambda seed: shared_ppm().sample(
        TIMES, n_samples=2, individual='a', seed=seed)['Value'].to_numpy(dtype=float)
    eps['postpred_shared_b'] = lambda seed: shared_ppm().sample(
        TIMES, n_samples=2, individual='b', seed=seed)['Value'].to_numpy(dtype=float)

    def pam(seed):
        ds1 = _posterior_dataset(['p0', 'p1', 'Sigma'])
        ds2 = _posterior_dataset(['p0', 'p1', 'Sigma'], n_draws=2)
        models = [chi.PosteriorPredictiveModel(_pred(1), ds1),
                  chi.PosteriorPredictiveModel(_pred(1), ds2)]
        return chi.PAMPredictiveModel(models, [0.4, 0.6]).sample(
            TIMES, n_samples=3, individual='a', seed=seed)['Value'].to_numpy(
                dtype=float)
    eps['pam'] = pam

    def init_lp(seed):
        ll = chi.LogLikelihood(ToyModel(2, 1), chi.GaussianErrorModel(),
                               [1.0, 2.0], [0.5, 1.0])
        post = chi.LogPosterior(ll, pints.ComposedLogPrior(*[
            pints.UniformLogPrior(0, 2) for _ in range(3)]))
        return post.sample_initial_parameters(n_samples=2, seed=seed)
    eps['init:posterior'] = init_lp

    def init_hier(seed):
        spec = rp.Comp([rp.G(1), rp.LN(1, False), rp.P(1)])
        case = hier.make_case(spec, 2, 0)
        hl = hier.build(case)
        post = chi.HierarchicalLogPosterior(hl, pints.ComposedLogPrior(*[
            pints.UniformLogPrior(0.2, 2) for _ in range(5)]))
        return post.sample_initial_parameters(n_samples=2, seed=seed)
    eps['init:hierarchical'] = init_hier
    eps['init:filter'] = lambda seed: _filter_posterior() \
        .sample_initial_parameters(n_samples=2, seed=seed)
    eps['init:filter3'] = lambda seed: _filter_posterior() \
        .sample_initial_parameters(n_samples=3, seed=seed)

    def init_hier_special(seed):
        # no individual-level entries at all: pooled and heterogeneous dimensions
        spec = rp.Comp([rp.P(1), rp.H(1), rp.P(1)])
        hl = hier.build(hier.make_case(spec, 2, 0))
        post = chi.HierarchicalLogPosterior(hl, pints.ComposedLogPrior(*[
            pints.UniformLogPrior(0.2, 2) for _ in range(4)]))
        return post.sample_initial_parameters(n_samples=2, seed=seed)
    eps['init:hier_special'] = init_hier_special
    return eps


DETERMINISTIC = {'pop:P'}
# entry points all of whose output cells are separate continuous draws
DISTINCT_CELLS = {'init:posterior', 'init:hierarchical', 'init:filter',
                  'init:filter3', 'init:hier_special', 'err:G', 'err:M', 'err:CM', 'err:LN', 'pop:G', 'pop:LNnc',
                  'pop:TG', 'pop:G3same', 'pop:LN3same', 'pop:TG3same',
                  'pop:redTG2', 'pred1', 'pred2', 'pred1rep', 'pred2rep',
                  'poppred', 'poppred_rep', 'poppred_pooled', 'pred_fixed'}
GENERATOR_OK = {'postpred_shared_a', 'postpred_shared_b', 'pop:G3same', 'pop:LN3same', 'pop:TG3same', 'pop:redTG2',
                'pred1rep', 'pred2rep', 'poppred_rep', 'poppred_pooled', 'pred_fixed', 'err:G', 'err:M', 'err:CM', 'err:LN', 'pop:G', 'pop:LNnc', 'pop:TG',
                'pop:H', 'pop:comp', 'pop:compH', 'pop:compH2', 'pop:cov', 'pop:compcov', 'pred1', 'pred2', 'poppred',
                'postpred', 'pam', 'priorpred', 'postpred2', 'pam2'}


# entry points that draw a parameter set per sample first: any base variate stays
# within ONE sample (last axis), noise variates within one cell
SAMPLE_CONFINED = {'priorpred2', 'postpred2', 'pam2'}


def _arr(x):
    return np.asarray(x, dtype=float)


def _apply_prefix(eps, prefix):
    for op in prefix:
        if op == 'gseed7':
            np.random.seed(7)
        elif op == 'grand':
            np.random.random()
        else:
            name, s = op.split('@')
            eps[name](int(s))


def w_history(case):
    """(a): call(e, s) after a history equals the call in the initial state."""
    e, s, prefix = case['entry'], case['seed'], case['prefix']
    np.random.seed(12345)          # the 'fresh' global state of this worker
    ref = _arr(entry_points()[e](s))     # on freshly built objects
    eps = entry_points()
    np.random.seed(12345)
    _apply_prefix(eps, prefix)
    got = _arr(eps[e](s))
    viol = []
    if got.shape != ref.shape or not np.array_equal(got, ref):
        viol.append({'sub': 'determinism', 'message': 'same integer seed gives a '
                     'different result after a history of other random calls (%s)'
                     % e, 'prefix': prefix, 'expected': ref, 'observed': got,
                     'behaviour': 'nondeterministic:' + e})
    return {'transitions': len(prefix) + 2, 'outcome': key_of([e, s, tol.rnd(ref)]),
            'violations': viol}


def w_seeds(case):
    """(b) different seeds differ; (c) generators are advanced."""
    eps = entry_points()
    e = case['entry']
    viol = []
    r0, r1, r2 = _arr(eps[e](0)), _arr(eps[e](1)), _arr(eps[e](2))
    if np.array_equal(r0, r1) or np.array_equal(r0, r2):
        viol.append({'sub': 'seeds0', 'message': 'seed 0 gives the same draws as '
                     'another seed (%s)' % e, 'expected': 'different',
                     'observed': r0, 'behaviour': 'seed_ignored:' + e})
    if np.array_equal(r1, r2):
        viol.append({'sub': 'seeds', 'message': 'seeds 1 and 2 give identical '
                     'draws (%s)' % e, 'expected': 'different', 'observed': r1,
                     'behaviour': 'seed_ignored:' + e})
    if e in DISTINCT_CELLS:
        for sd_, r in ((0, r0), (1, r1), (2, r2)):
            flat = np.sort(r.flatten())
            if len(flat) > 1 and np.any(np.diff(flat) == 0):
                viol.append({'sub': 'copied_cells', 'message': 'two output cells of '
                             'one call hold the identical draw: noise of different '
                             'outputs / times / dimensions / samples is not '
                             'independent (%s, seed %d)' % (e, sd_),
                             'expected': 'pairwise different draws', 'observed': r,
                             'behaviour': 'copied_cells:' + e})
                break
    if case.get('generator'):
        try:
            g = np.random.default_rng(5)
            a1, a2 = _arr(eps[e](g)), _arr(eps[e](g))
            g2 = np.random.default_rng(5)
            b1, b2 = _arr(eps[e](g2)), _arr(eps[e](g2))
        except Exception as ex:
            viol.append({'sub': 'generator', 'message': 'a Generator passed as seed '
                         'is not accepted (%s): %s: %s' % (
                             e, type(ex).__name__, str(ex)[:120]),
                         'expected': 'accepted and advanced', 'observed': repr(ex),
                         'behaviour': 'generator_rejected:' + e})
            return {'transitions': 4, 'outcome': key_of([e, tol.rnd(r1)]),
                    'violations': viol}
        if np.array_equal(a1, a2):
            viol.append({'sub': 'generator_restart', 'message': 'a Generator passed '
                         'twice gives the same draws: it is restarted, not '
                         'advanced (%s)' % e, 'expected': 'different',
                         'observed': a1, 'behaviour': 'generator_restart:' + e})
        if not (np.array_equal(a1, b1) and np.array_equal(a2, b2)):
            viol.append({'sub': 'generator_det', 'message': 'results with a '
                         'Generator depend on something else than the generator '
                         'state (%s)' % e, 'expected': [b1, b2],
                         'observed': [a1, a2],
                         'behaviour': 'generator_nondet:' + e})
    return {'transitions': 6, 'outcome': key_of([e, tol.rnd(r1)]),
            'violations': viol}


def w_streams(case):
    """(d) dependency relation variate -> output cell is a partition."""
    eps = entry_points()
    e = case['entry']
    viol = []
    sd = case.get('seed', 7)
    with Seam(Script()) as seam:
        S0 = _arr(eps[e](sd))
    variates = []
    for s_, i_, k_, c_ in seam.log:
        if (s_, i_, k_) not in variates:
            variates.append((s_, i_, k_))
    shared = {}
    ntr = 1
    pop_draws = e.startswith('poppred')
    confined = e in SAMPLE_CONFINED
    n_of = dict(seam.n_of)
    for (st, ix, kind) in variates:
        if e.startswith('init:') and st.startswith('global'):
            # (a population-level prior draw legitimately reaches the individuals
            # drawn at it)
            continue
        if kind == 'i' and (not confined or e == 'pam2'):
            # (for the averaged model another member choice re-distributes the
            # samples over the members and shifts every later draw of the stream)
            continue
        if kind == 'i':
            # another answer of a categorical draw (a posterior row, a member model)
            n_alt = n_of.get((st, ix)) or 1
            if n_alt < 2:
                continue
            dev = (seam.script(st, ix, kind, n_alt) + 1) % n_alt
        else:
            base = seam.script(st, ix, kind)
            dev = base + (0.37 if kind == 'z' else 0.041)
        with Seam(Script({(st, ix): dev})):
            S1 = _arr(eps[e](sd))
        ntr += 1
        if S1.shape != S0.shape:
            continue
        changed = [tuple(int(a) for a in c) for c in np.argwhere(
            ~np.isclose(S1, S0, rtol=0, atol=1e-12))]
        if pop_draws or e.startswith('priorpop:') or (
                confined and (kind == 'i' or st.startswith('global'))):
            # an individual's parameter draw legitimately reaches all times of that
            # individual -- but never two individuals (last axis = sample)
            if len(set(c[-1] for c in changed)) > 1:
                shared['%s[%d]' % (st, ix)] = changed
        elif len(changed) > 1:
            shared['%s[%d]' % (st, ix)] = changed
    if shared:
        viol.append({'sub': 'streams', 'message': 'one base variate reaches several '
                     'output cells: noise of different outputs / times / '
                     'individuals / samples is not independent (%s)' % e,
                     'expected': 'at most one cell per variate', 'observed': shared,
                     'behaviour': 'shared_variate:' + e})
    return {'transitions': ntr, 'outcome': key_of([e, tol.rnd(S0)]),
            'violations': viol}


class _X0Seam(object):
    """Records the starting points chi hands to pints and replaces the pints run
    methods by stubs (the optimisation / sampling itself is not C16's subject)."""
    def __enter__(self):
        seam = self
        self.x0 = []
        self._mi, self._oi = pints.MCMCController.__init__, \
            pints.OptimisationController.__init__
        self._mr, self._or = pints.MCMCController.run, \
            pints.OptimisationController.run

        def mi(ctrl, log_pdf, chains, x0, *a, **k):
            seam.x0.append(np.array(x0, dtype=float))
            seam._n = (chains, len(x0[0]))
            return seam._mi(ctrl, log_pdf, chains, x0, *a, **k)

        def oi(ctrl, function, x0, *a, **k):
            seam.x0.append(np.array(x0, dtype=float))
            return seam._oi(ctrl, function, x0, *a, **k)
        pints.MCMCController.__init__ = mi
        pints.OptimisationController.__init__ = oi
        pints.MCMCController.run = lambda ctrl: np.zeros(
            (seam._n[0], 1, seam._n[1]))
        pints.OptimisationController.run = lambda ctrl: (
            np.array(seam.x0[-1], dtype=float), 0.0)
        return self

    def __exit__(self, *exc):
        pints.MCMCController.__init__ = self._mi
        pints.OptimisationController.__init__ = self._oi
        pints.MCMCController.run = self._mr
        pints.OptimisationController.run = self._or
        return False


def w_n_runs(case):
    """Seeded inference controllers: the starting points depend on the seed and the
    final number of runs only, whatever set_n_runs calls came before."""
    if case['post'] == 'individual':
        ll = chi.LogLikelihood(ToyModel(2, 1), chi.GaussianErrorModel(),
                               [1.0, 2.0], [0.5, 1.0])
        post = chi.LogPosterior(ll, pints.ComposedLogPrior(*[
            pints.UniformLogPrior(0.1, 2) for _ in range(3)]))
    elif case['post'] == 'individual_wide':
        # a prior with mass where the likelihood has none (negative noise scale):
        # the starting points still are the seeded draws
        ll = chi.LogLikelihood(ToyModel(2, 1), chi.GaussianErrorModel(),
                               [1.0, 2.0], [0.5, 1.0])
        post = chi.LogPosterior(ll, pints.ComposedLogPrior(*[
            pints.GaussianLogPrior(0.1, 1.0) for _ in range(3)]))
    else:
        spec = rp.Comp([rp.G(1), rp.LN(1, False), rp.P(1)])
        post = chi.HierarchicalLogPosterior(
            hier.build(hier.make_case(spec, 2, 0)), pints.ComposedLogPrior(*[
                pints.UniformLogPrior(0.2, 2) for _ in range(5)]))
    cls = chi.SamplingController if case['ctrl'] == 'sampling' else \
        chi.OptimisationController
    np.random.seed(4321)
    c = cls(post, seed=case['seed'])
    c.set_parallel_evaluation(False)
    for n in case['history']:
        c.set_n_runs(n)
        if case.get('draw_between'):
            np.random.random()
    n = case['history'][-1]
    with _X0Seam() as seam:
        if case['ctrl'] == 'sampling':
            c.run(n_iterations=1)
        else:
            c.run(n_max_iterations=1)
    got = np.vstack([np.atleast_2d(x) for x in seam.x0])
    exp = np.asarray(post.sample_initial_parameters(
        n_samples=n, seed=case['seed']), dtype=float)
    viol = []
    if got.shape != exp.shape or not np.array_equal(got, exp):
        viol.append({'sub': 'n_runs', 'message': 'starting points of a seeded %s '
                     'controller after set_n_runs history %s are not the %d initial '
                     'points the seed determines' % (case['ctrl'], case['history'],
                                                     n),
                     'expected': exp, 'observed': got,
                     'behaviour': 'n_runs_history'})
    return {'transitions': len(case['history']) + 2,
            'outcome': key_of([case['ctrl'], case['post'], n, tol.rnd(got)]),
            'violations': viol}


WORKERS = {'histories': w_history, 'seeds': w_seeds, 'streams': w_streams,
           'n_runs': w_n_runs}


def build(tier, seed):
    names = list(entry_points())
    depth = 1 if tier == 'quick' else 2
    ops = ['gseed7', 'grand'] + ['%s@%d' % (n, s) for n in names for s in (1, 2)]
    hist = []
    for e in names:
        for s in (0, 1, 2):
            for d in range(1, depth + 1):
                if d == 1:
                    prefixes = [[o] for o in ops]
                else:
                    # depth 2: global-state ops combined with every call
                    prefixes = [[a, b] for a in ops[:2] for b in ops] + \
                        [[a, b] for a in ops[2:] for b in ops[:2]]
                for p in prefixes:
                    hist.append({'entry': e, 'seed': s, 'prefix': p})
    seeds = [{'entry': e, 'generator': e in GENERATOR_OK} for e in names]
    seed_alphabet = (0, 1, 2)
    # streams: entry points whose result cells are noise cells; for routines that
    # draw parameter sets first (prior/posterior/population) a parameter draw
    # legitimately reaches a whole sample, so only the noise partition of the plain
    # predictive model and the model samplers is required here (C15 decides the rest)
    # (seed 0 is in the alphabet: a falsy seed must behave like any other seed)
    streams = [{'entry': e, 'seed': sd} for e in names
               if e.startswith(('err:', 'pop:', 'pred', 'poppred', 'init:'))
               or e in SAMPLE_CONFINED or e.startswith('priorpop:')
               for sd in (7, 0)]
    runs = []
    alphabet = (1, 2, 3, 5)
    for ctrl in ('sampling', 'optimisation'):
        for post in ('individual', 'hierarchical', 'individual_wide'):
            for d in (1, 2, 3):
                for h in itertools.product(alphabet, repeat=d):
                    if tier == 'quick' and d == 3 and h[-1] != 3:
                        continue
                    runs.append({'ctrl': ctrl, 'post': post, 'history': list(h),
                                 'seed': 1 + (len(runs) % 2),
                                 'draw_between': len(runs) % 3 == 0})
    return {
        'parts': [
            Part('n_runs', runs, w_n_runs,
                 'seeded inference controllers: every set_n_runs history of length '
                 '<= 3 over {1, 2, 3, 5}, starting points handed to pints'),
            Part('histories', hist, w_history,
                 'call(e, seed) after every history of length <= %d over global '
                 'seeding, global draws and calls of all entry points' % depth),
            Part('seeds', seeds, w_seeds, 'seed pairs and generator objects'),
            Part('streams', streams, w_streams,
                 'deviation-1 exploration of base variates under the RngSeam'),
        ],
        'bounds': {'history_depth': depth, 'entry_points': names,
                   'seeds': [1, 2]},
        'rule': 'all histories up to the depth bound over the operation alphabet '
                '(depth 2: every pair involving a global-state operation); distinct '
                '= distinct (entry, seed, result)',
        'min_outcomes': {'histories': 20},
        'assumptions': ['toy mechanistic model', 'numpy Generators / RandomState '
                        'behave as documented'],
    }


META = {
    'technique': 'explicit enumeration of call histories over all sampling entry '
                 'points (bit-for-bit replay against the fresh state) and deviation-1 '
                 'exploration of base variates behind the random-source seam',
    'level_text': 'For each of ~20 sampling entry points (error, population, '
                  'predictive, prior/posterior/averaged predictive models, initial-'
                  'parameter sampling) and seeds 1, 2: the result after every '
                  'history of length <= d (d = 1 quick, 2 thorough) over global '
                  'seeding, global draws and calls to every entry point is compared '
                  'bit for bit with the result in the fresh state; seed pairs differ; '
                  'generator objects are advanced; every base variate reaches at '
                  'most one output cell.',
    'level_note': 'Exhaustive over the history alphabet up to the depth bound; two '
                  'seeds; the partition property (d) is checked for routines whose '
                  'cells are pure noise cells.',
}
META['level_text'] += (
    ' Also: averaged predictive models with two outputs and >= 3 samples under the '
    'sample-confined stream oracle (categorical answers included), prior predictive'
    ' models around population predictive models of every kind, heterogeneous sub-m'
    'odels of several individuals inside compositions, initial-point entry points i'
    'n the stream part, controllers on posteriors whose prior has mass where the li'
    'kelihood has none.')
META['level_text'] += (' Wave 9: stream-partition oracle for prior predictive models around population predictive models (a variate reaches one sample only).')
