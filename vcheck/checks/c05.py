"""C05 — population models: documented densities, additive, layout-invariant, exact
sensitivities in the separate / unflattened / hierarchical (reduce) return forms.

Shape (A): all elementary classes x n_dim x n_ids x layouts x upstream-sensitivity
presence x boundary variants, and all compositions of <= 2 (quick) / <= 3 (thorough)
parts incl. covariate and reduced wrappers, executed on the real models and compared
with ref.populations + complex-step gradients."""
import itertools

import numpy as np

import chi  # noqa

from ..core import tol, vals
from ..core.engine import Part
from ..gen import popbuild, popvals
from ..ref import cstep, populations as rp

PROPERTY = 'C05'


# ------------------------------------------------------------------ helpers

def _ll(m, spec, top, obs, cov):
    if rp.n_cov(spec) > 0:
        return m.compute_log_likelihood(top, obs, covariates=cov)
    return m.compute_log_likelihood(top, obs)


def _sens(m, spec, top, obs, c, cov, **kw):
    if rp.n_cov(spec) > 0:
        kw['covariates'] = cov
    return m.compute_sensitivities(top, obs, dlogp_dpsi=c, **kw)


def expected_separate(spec, top, obs, c, cov):
    """(score, dobs, dtop) of the separate return form: derivatives of the population
    log-density plus the upstream sensitivities c = dl/dpsi propagated by the chain
    rule (identity for centred / pooled / heterogeneous dims, psi(eta, theta) for
    non-centred dims)."""
    sp = rp.special(spec)
    hier = np.array([x is None for x in sp])
    cc = np.zeros(obs.shape) if c is None else np.asarray(c, dtype=float)

    def F(o, t):
        val = rp.logpop(spec, t, o, cov)
        psi = rp.psi_of(spec, t, o, cov)
        return val + np.sum(cc[:, hier] * psi[:, hier])
    score = float(np.real(rp.logpop(spec, top, obs, cov)))
    dobs = cstep.grad(lambda o: F(o, top), obs)
    dobs[:, ~hier] += cc[:, ~hier]
    dtop = cstep.grad(lambda t: F(obs, t), top)
    return score, dobs, dtop


def expected_reduced(spec, top, obs, c, cov):
    """Gradient w.r.t. the hierarchical vector (bottom entries individual-major over
    the non-special dims, then the population parameters); pooled and heterogeneous
    individuals take their value from the population parameters."""
    n_ids = obs.shape[0]
    sp = rp.special(spec)
    hier = np.array([x is None for x in sp])
    cc = np.zeros(obs.shape) if c is None else np.asarray(c, dtype=float)
    nb = int(hier.sum()) * n_ids

    def Hf(vec):
        o = np.array(obs, dtype=complex)
        o[:, hier] = vec[:nb].reshape(n_ids, int(hier.sum()))
        t = vec[nb:]
        val = rp.logpop(spec, t, o, cov)
        psi = rp.psi_of(spec, t, o, cov)
        return val + np.sum(cc * psi)
    vec = np.concatenate((obs[:, hier].flatten(), top))
    return cstep.grad(Hf, vec)


def _cmp(viol, sub, msg, exp, got, rel=1e-8, abs_=1e-9):
    got = np.asarray(got, dtype=float)
    exp = np.asarray(exp, dtype=float)
    if got.shape != exp.shape or not tol.allclose(got, exp, rel, abs_):
        viol.append({'sub': sub, 'message': msg, 'expected': exp, 'observed': got})
        return False
    return True


def _misread_tag(spec, exc, d, ppd):
    """Known finding F-C05-matrix-layout: three methods read a (n_param_per_dim,
    n_dim) matrix column-wise (parameters[:, 0], parameters[:, 1]). Returns the tag if
    the observed exception is exactly what that misreading produces."""
    if d == 1 and isinstance(exc, IndexError) and \
            'index 1 is out of bounds for axis 1 with size 1' in str(exc):
        return 'matrix_layout_misread'
    if d > 2 and isinstance(exc, ValueError) and 'broadcast' in str(exc):
        return 'matrix_layout_misread'
    return None


# ------------------------------------------------------------------ worker

def w_model(case):
    spec = case['spec']
    n_ids = case['n_ids']
    top = np.array(case['top'], dtype=float)
    obs = np.array(case['obs'], dtype=float).reshape(n_ids, rp.n_dim(spec))
    if case.get('variant') == 'int':
        # whole-number parameters and observations handed over as integer arrays
        # (the reference functions convert to complex / float themselves)
        top = top.astype(int)
        obs = obs.astype(int)
    elif case.get('variant') == 'int_top':
        top = top.astype(int)
    elif case.get('variant') == 'int_obs':
        obs = obs.astype(int)
    cov = None if case.get('cov') is None else np.array(case['cov'], dtype=float)
    c = None if case.get('dlogp') is None else \
        np.array(case['dlogp'], dtype=float).reshape(obs.shape)
    if case.get('early'):
        # the wrapper was created, and its parameters fixed, for one individual; the
        # number of individuals is set afterwards
        m = popbuild.build_early(spec, n_ids)
        m.set_n_ids(n_ids)
    elif case.get('resize_from'):
        # the model was used for another number of individuals before
        m = popbuild.build(spec, case['resize_from'])
        m.set_n_ids(n_ids)
    elif case.get('stale_from'):
        # the model was told another number of individuals (models without a
        # heterogeneous part document that they ignore the number)
        m = popbuild.build(spec, case['stale_from'])
    else:
        m = popbuild.build(spec, n_ids)
    viol = []
    ntr = 0
    lab = popbuild.label(spec)

    # --- counts
    nb, nt = rp.n_bottom(spec, n_ids), rp.n_top(spec, n_ids)
    got_h = tuple(int(x) for x in m.n_hierarchical_parameters(n_ids))
    if got_h != (nb, nt):
        viol.append({'sub': 'n_hier', 'message': 'n_hierarchical_parameters differs '
                     'from the documented (bottom, top) counts',
                     'expected': [nb, nt], 'observed': list(got_h)})
    if m.n_parameters() != nt:
        viol.append({'sub': 'n_par', 'message': 'n_parameters wrong',
                     'expected': nt, 'observed': m.n_parameters()})
    if len(m.get_parameter_names()) != nt:
        viol.append({'sub': 'n_names', 'message': 'number of names != n_parameters',
                     'expected': nt, 'observed': len(m.get_parameter_names())})

    # --- log-likelihood, flat layout
    exp = rp.logpop(spec, top, obs, cov)
    exp = float(np.real(exp))
    got = _ll(m, spec, top.copy(), obs.copy(), cov)
    ntr += 1
    if not tol.close(got, exp):
        viol.append({'sub': 'll', 'message': 'compute_log_likelihood (%s) differs '
                     'from the documented density' % lab, 'expected': exp,
                     'observed': got, 'behaviour': 'll_value'})
    outcome = [got]
    # the caller changes its parameter / observation arrays in place and evaluates
    # again with the same array objects
    if case.get('variant') not in ('int', 'int_top', 'int_obs') and len(top) > 0:
        t_obj, o_obj = top.copy(), obs.copy()
        c_obj = None if cov is None else cov.copy()
        _ll(m, spec, t_obj, o_obj, c_obj)
        t_obj[-1] *= 1.02
        k_free = [k_ for k_, kind in enumerate(rp.special(spec)) if kind is None]
        if k_free:
            o_obj[0, k_free[0]] *= 1.01
        if c_obj is not None:
            c_obj[0, 0] *= 0.9
        e_m = float(np.real(rp.logpop(spec, t_obj.copy(), o_obj.copy(),
                                      None if c_obj is None else c_obj.copy())))
        g_m = _ll(m, spec, t_obj, o_obj, c_obj)
        ntr += 2
        if not tol.close(g_m, e_m):
            viol.append({'sub': 'inplace', 'message': 'after the parameter / '
                         'observation / covariate arrays were changed in place the '
                         'log-likelihood evaluated with the same array objects is '
                         'not the documented density at the new values (%s)' % lab,
                         'expected': e_m, 'observed': g_m, 'behaviour': 'inplace'})

    elementary = spec['kind'] in ('G', 'LN', 'TG', 'P', 'H')
    d = rp.n_dim(spec)
    if elementary:
        ppd = len(top) // d
        mat = top.reshape(ppd, d)
        ten = np.broadcast_to(mat[np.newaxis], (n_ids, ppd, d)).copy()
        for name, layout in (('matrix', mat), ('tensor', ten)):
            g = m.compute_log_likelihood(layout.copy(), obs.copy())
            ntr += 1
            if not tol.close(g, exp):
                viol.append({
                    'sub': 'll_' + name, 'message': 'log-likelihood in the %s '
                    'layout differs from the flat layout (%s)' % (name, lab),
                    'expected': exp, 'observed': g, 'behaviour': 'layout_' + name})
        # tensor varying over individuals (what a covariate model feeds in)
        if spec['kind'] != 'H' and np.isfinite(exp):
            delta = np.array(vals.reals('c05.delta', n_ids * ppd * d, -0.05, 0.05, 1)
                             ).reshape(n_ids, ppd, d)
            if spec['kind'] == 'P':
                delta[:] = 0
            tv = ten + delta
            e2 = sum(float(np.real(rp.logpop(spec, tv[i].flatten(), obs[i:i + 1])))
                     for i in range(n_ids))
            g = m.compute_log_likelihood(tv.copy(), obs.copy())
            ntr += 1
            if d == 1 and tol.close(g, e2):
                # one-dimensional models: the individuals' values as a plain vector
                # / list (where the class accepts that form)
                for form, o1 in (('vector', obs[:, 0].copy()),
                                 ('list', obs[:, 0].tolist())):
                    for lname, lay in (('tensor', tv), ('flat', top)):
                        try:
                            g1 = m.compute_log_likelihood(lay.copy(), o1)
                        except Exception:
                            continue
                        ntr += 1
                        e1 = e2 if lname == 'tensor' else exp
                        if not tol.close(g1, e1):
                            viol.append({
                                'sub': 'll_obs_' + form, 'message': 'log-likelihood '
                                'of individuals given as a plain %s (%s layout) '
                                'differs from the (n_ids, 1) form (%s)'
                                % (form, lname, lab), 'expected': e1,
                                'observed': g1, 'behaviour': 'obs_vector'})
            if not tol.close(g, e2):
                viol.append({
                    'sub': 'll_tensor_var', 'message': 'log-likelihood with an '
                    'individual-specific parameter tensor is not the sum of the '
                    'individuals\' densities (%s)' % lab, 'expected': e2,
                    'observed': g, 'behaviour': 'layout_tensor_var'})

    # --- sensitivities, separate form
    if np.isfinite(exp):
        e_score, e_dobs, e_dtop = expected_separate(spec, top, obs, c, cov)
        layouts = [('flat', top)]
        if elementary:
            layouts += [('matrix', mat), ('tensor', ten)]
        for name, layout in layouts:
            misread = None
            try:
                res = _sens(m, spec, layout.copy(), obs.copy(),
                            None if c is None else c.copy(), cov)
            except (IndexError, ValueError) as e:
                if name != 'matrix' or spec['kind'] != 'LN' or \
                        _misread_tag(spec, e, d, ppd) is None:
                    raise
                viol.append({
                    'sub': 'sep_matrix', 'message': 'compute_sensitivities raises '
                    'for the documented matrix layout (%s): %s' % (lab, e),
                    'expected': 'same result as flat layout', 'observed': repr(e),
                    'behaviour': 'matrix_layout_misread'})
                continue
            ntr += 1
            if name == 'matrix' and spec['kind'] == 'LN' and d == 2 and \
                    len(res) == 3 and not (
                        tol.close(res[0], e_score)
                        and tol.allclose(res[1], e_dobs, 1e-8, 1e-9)
                        and tol.allclose(res[2], e_dtop, 1e-8, 1e-9)):
                # does the result equal the flat-layout result at the transposed
                # matrix (the column-wise misreading)?
                w_top = mat.T.flatten()
                if np.any(w_top[d:] < 0):
                    # the column-wise reading sees a negative scale: chi answers
                    # -inf with unspecified sensitivities
                    if res[0] == -np.inf:
                        misread = 'matrix_layout_misread'
                else:
                    w = expected_separate(spec, w_top, obs, c, cov)
                    if tol.close(res[0], w[0]) and \
                            tol.allclose(res[1], w[1], 1e-8, 1e-9) and \
                            tol.allclose(res[2], w[2], 1e-8, 1e-9):
                        misread = 'matrix_layout_misread'
            if len(res) != 3:
                viol.append({'sub': 'sep_form', 'message': 'separate form does not '
                             'return (score, dpsi, dtheta)', 'expected': 3,
                             'observed': len(res)})
                continue
            s, dpsi, dth = res
            tag = 'sep_' + name
            if misread:
                viol.append({'sub': tag, 'message': 'compute_sensitivities reads '
                             'the documented matrix layout column-wise (%s)' % lab,
                             'expected': [e_score, e_dobs, e_dtop],
                             'observed': [s, dpsi, dth], 'behaviour': misread})
                continue
            if not tol.close(s, e_score):
                viol.append({'sub': tag + '_score', 'message': 'score of '
                             'compute_sensitivities differs (%s, %s layout)'
                             % (lab, name), 'expected': e_score, 'observed': s,
                             'behaviour': 'sens_layout_' + name})
            _cmp(viol, tag + '_dpsi', 'sensitivities w.r.t. individual parameters '
                 'wrong (%s, %s layout)' % (lab, name), e_dobs, dpsi)
            if _cmp(viol, tag + '_dtheta', 'sensitivities w.r.t. population '
                    'parameters wrong (%s, %s layout)' % (lab, name), e_dtop, dth) \
                    is False:
                viol[-1]['behaviour'] = 'sens_layout_' + name
            if name == 'flat':
                outcome += [s, dpsi, dth]

        # --- unflattened form (elementary only)
        if elementary:
            res = m.compute_sensitivities(
                top.copy(), obs.copy(), dlogp_dpsi=None if c is None else c.copy(),
                flattened=False)
            ntr += 1
            s, dpsi, dth3 = res
            dth3 = np.asarray(dth3, dtype=float)
            ppd_s = n_ids if spec['kind'] == 'H' else ppd
            if dth3.shape != (n_ids, ppd_s, d):
                viol.append({'sub': 'unflat_shape', 'message': 'unflattened '
                             'sensitivities do not have shape (n_ids, n_param_per_'
                             'dim, n_dim) (%s)' % lab,
                             'expected': [n_ids, ppd_s, d],
                             'observed': list(dth3.shape),
                             'behaviour': 'unflat_shape'})
            else:
                _cmp(viol, 'unflat_sum', 'unflattened sensitivities do not sum to '
                     'the flattened ones (%s)' % lab, e_dtop,
                     dth3.sum(axis=0).flatten())

        # --- hierarchical (reduce) form
        e_red = expected_reduced(spec, top, obs, c, cov)
        res = _sens(m, spec, top.copy(), obs.copy(),
                    None if c is None else c.copy(), cov, reduce=True)
        ntr += 1
        if len(res) != 2:
            viol.append({'sub': 'red_form', 'message': 'reduce form does not return '
                         '(score, sensitivities)', 'expected': 2,
                         'observed': len(res)})
        else:
            s, ds = res
            if not tol.close(s, e_score):
                viol.append({'sub': 'red_score', 'message': 'score differs in '
                             'reduce form (%s)' % lab, 'expected': e_score,
                             'observed': s})
            # (the array handed out is the caller's: another evaluation, at other
            # parameters and without upstream sensitivities, does not change it)
            ds_obj, ds_snap = ds, np.array(ds, dtype=float, copy=True)
            try:
                _sens(m, spec, top * 1.01, obs.copy(), None, cov, reduce=True)
            except Exception:
                pass
            ntr += 1
            if np.shape(ds_obj) != ds_snap.shape or not np.array_equal(
                    np.asarray(ds_obj, dtype=float), ds_snap, equal_nan=True):
                viol.append({'sub': 'red_retained', 'message': 'the reduce-form '
                             'sensitivities handed out earlier changed with the '
                             'next evaluation (%s)' % lab, 'expected': ds_snap,
                             'observed': np.asarray(ds_obj, dtype=float),
                             'behaviour': 'retained'})
            ds = ds_snap
            if ds.shape != (nb + nt,):
                viol.append({'sub': 'red_len', 'message': 'reduce-form length is '
                             'not n_bottom + n_top (%s)' % lab,
                             'expected': nb + nt, 'observed': list(ds.shape),
                             'behaviour': 'red_len'})
            else:
                _cmp(viol, 'red_grad', 'reduce-form sensitivities are not the '
                     'derivatives w.r.t. (individual entries, population '
                     'parameters) (%s)' % lab, e_red, ds)
                # documented: `reduce` is prioritised over `flattened`
                for flag in (False, 0, np.bool_(False), True):
                    try:
                        res_f = _sens(m, spec, top.copy(), obs.copy(),
                                      None if c is None else c.copy(), cov,
                                      reduce=True, flattened=flag)
                    except TypeError:
                        break        # no such argument on this class
                    ntr += 1
                    ok_f = len(res_f) == 2 and np.shape(res_f[1]) == ds.shape and \
                        tol.allclose(np.asarray(res_f[1], dtype=float), ds)
                    if not ok_f:
                        viol.append({'sub': 'red_flat', 'message': 'reduce form '
                                     'depends on the `flattened` flag (%r) although '
                                     'reduce is documented to take priority (%s)'
                                     % (flag, lab), 'expected': ds,
                                     'observed': res_f[1] if len(res_f) > 1 else
                                     len(res_f), 'behaviour': 'red_flat'})
                        break
            outcome += [ds]
    else:
        # score must be -inf in all forms
        res = _sens(m, spec, top.copy(), obs.copy(), None, cov)
        ntr += 1
        if not tol.close(res[0], exp):
            viol.append({'sub': 'sens_inf', 'message': 'compute_sensitivities '
                         'score is not -inf where the density is (%s)' % lab,
                         'expected': exp, 'observed': res[0]})
        res = _sens(m, spec, top.copy(), obs.copy(), None, cov, reduce=True)
        ntr += 1
        if not tol.close(res[0], exp):
            viol.append({'sub': 'sens_inf_red', 'message': 'reduce-form score is '
                         'not -inf where the density is (%s)' % lab,
                         'expected': exp, 'observed': res[0]})
        elif np.asarray(res[1]).shape != (nb + nt,):
            viol.append({'sub': 'red_len_inf', 'message': 'reduce-form length is '
                         'not n_bottom + n_top at -inf (%s)' % lab,
                         'expected': nb + nt,
                         'observed': list(np.asarray(res[1]).shape),
                         'behaviour': 'red_len'})

    # --- individual parameters
    if np.isfinite(exp) or True:
        e_psi = np.real(rp.psi_of(spec, top, obs, cov))
        sigma_ok = np.all(np.isfinite(e_psi))
        forms = [('flat', top, obs)]
        if elementary:
            forms += [('matrix', mat, obs), ('tensor', ten, obs),
                      ('flat_eta', top, obs.flatten())]
        elif spec['kind'] in ('Comp', 'Red', 'Cov') and nb == n_ids * d:
            forms += [('flat_eta', top, obs.flatten())]
        for name, t_l, e_l in forms:
            if case.get('variant') == 'neg_sigma':
                continue
            if name == 'flat_eta' and case.get('stale_from'):
                continue      # (a flat vector is shaped by the number told)
            kw = {'covariates': cov} if rp.n_cov(spec) > 0 else {}
            nc_elem = elementary and spec['kind'] in ('G', 'LN') and \
                not spec['centered']
            try:
                got_psi = m.compute_individual_parameters(
                    np.array(t_l, dtype=float), np.array(e_l, dtype=float), **kw)
            except (IndexError, ValueError) as e:
                if name != 'matrix' or not nc_elem or \
                        _misread_tag(spec, e, d, ppd) is None:
                    raise
                viol.append({
                    'sub': 'psi_matrix', 'message': 'compute_individual_parameters '
                    'raises for the documented matrix layout (%s): %s' % (lab, e),
                    'expected': e_psi, 'observed': repr(e),
                    'behaviour': 'matrix_layout_misread'})
                continue
            ntr += 1
            if sigma_ok and _cmp(
                    viol, 'psi_' + name, 'compute_individual_parameters wrong '
                    '(%s, %s)' % (lab, name), e_psi, got_psi) is False:
                viol[-1]['behaviour'] = 'psi_layout_' + name
                if name == 'matrix' and nc_elem and d == 2:
                    w_top = mat.T.flatten()
                    if np.any(w_top[d:] < 0):
                        # negative scale under the column-wise reading: all-NaN
                        if np.all(np.isnan(np.asarray(got_psi, dtype=float))):
                            viol[-1]['behaviour'] = 'matrix_layout_misread'
                    else:
                        w = np.real(rp.psi_of(spec, w_top, obs, cov))
                        if tol.allclose(got_psi, w):
                            viol[-1]['behaviour'] = 'matrix_layout_misread'
            if name == 'flat':
                outcome += [got_psi]
    return {'transitions': ntr, 'outcome': tol.rnd(outcome), 'violations': viol}


WORKERS = {'elementary': w_model, 'covariate': w_model, 'composed': w_model,
           'reduced': w_model}


# ------------------------------------------------------------------ cases

def make_case(spec, n_ids, seed, with_c, variant='support'):
    top = popvals.top_values(spec, n_ids, seed)
    cov = popvals.covariates(spec, n_ids, seed)
    obs = popvals.obs_values(spec, top, n_ids, cov, seed)
    d = rp.n_dim(spec)
    if variant == 'neg_sigma':
        # first scale parameter of the first elementary part negative
        top = list(top)
        top[d] = -0.4
    elif variant == 'bad_obs':
        obs = obs.copy()
        k = spec['kind']
        if k in ('P', 'H'):
            obs[-1, -1] += 0.25
        else:
            obs[0, 0] = -0.3
    elif variant.startswith('tg_tail'):
        # truncated Gaussian whose untruncated mean lies z scales below zero: the
        # individuals sit in the far tail (mass within sigma / z of zero)
        z = float(variant.split(':')[1])
        top = [-z * 0.8] * d + [0.8] * d
        obs = np.array(vals.reals('c05.tail', n_ids * d, 0.01, 0.35, seed)
                       ).reshape(n_ids, d)
    elif variant == 'tiny_sigma':
        # a tiny but valid scale: every scale parameter 1e-7, individuals within a
        # few scales of the location
        top = list(top)
        names_ = popbuild.build(spec, n_ids).get_parameter_names()
        for i_, nm in enumerate(names_):
            if nm.lower().startswith(('std', 'log std', 'sigma')):
                top[i_] = 1e-7
        obs = popvals.obs_values(spec, top, n_ids, cov, seed)
    elif variant in ('near_obs', 'near_obs_ulp'):
        # an individual value next to, but not equal to, the point mass of a pooled
        # / heterogeneous dimension (relative 1e-9, or the neighbouring float)
        obs = obs.copy()
        sp = rp.special(spec)
        k_ = [i for i, kind in enumerate(sp) if kind is not None][-1]
        obs[-1, k_] = obs[-1, k_] * (1 + 1e-9) if variant == 'near_obs' \
            else np.nextafter(obs[-1, k_], 10.0)
    if variant == 'int_top':
        # only the parameters are whole numbers (integer-typed); the individuals'
        # values are generic floats
        top = [float(max(1, round(abs(v))) + 2) for v in top]
        obs = popvals.obs_values(spec, top, n_ids, cov, seed)
    elif variant == 'int_obs':
        # only the individuals' values are whole numbers (integer-typed)
        obs = np.maximum(1, np.round(np.abs(obs)))
    if variant == 'int':
        # whole numbers inside the support; pooled / heterogeneous observations
        # follow the rounded parameters
        top = [float(max(1, round(abs(v))) + (2 if i < 10 ** 9 else 0))
               for i, v in enumerate(top)]
        obs = np.maximum(1, np.round(np.abs(popvals.obs_values(
            spec, top, n_ids, cov, seed))))
        sp = rp.special(spec)
        psi = np.real(rp.psi_of(spec, np.array(top), obs, cov))
        for k_, kind in enumerate(sp):
            if kind is not None:
                obs[:, k_] = psi[:, k_]
    c = vals.reals('c05.c', n_ids * d, -1.5, 1.5, seed) if with_c else None
    return {'spec': spec, 'n_ids': n_ids, 'top': list(top),
            'obs': obs.flatten().tolist(),
            'cov': None if cov is None else cov.tolist(),
            'dlogp': c, 'variant': variant}


def build(tier, seed):
    max_d = 2 if tier == 'quick' else 3
    max_ids = 2 if tier == 'quick' else 3
    elem_cases, cov_cases, comp_cases, red_cases = [], [], [], []
    for spec in popbuild.elementary(max_d):
        for n_ids in range(1, max_ids + 1):
            for with_c in (False, True):
                elem_cases.append(make_case(spec, n_ids, seed, with_c))
            k = spec['kind']
            if k in ('G', 'LN', 'TG') and spec.get('centered', True):
                # (non-centred models score eta as standard normal whatever the
                # population parameters are, so they have no such boundary)
                elem_cases.append(make_case(spec, n_ids, seed, False, 'neg_sigma'))
            if k in ('LN', 'TG', 'P', 'H') and spec.get('centered', True):
                elem_cases.append(make_case(spec, n_ids, seed, False, 'bad_obs'))
            elem_cases.append(make_case(spec, n_ids, seed, True, 'int'))
            elem_cases.append(make_case(spec, n_ids, seed, True, 'int_top'))
            if spec['kind'] == 'TG':
                for z_ in (3, 6, 7.5, 9, 12, 20):
                    elem_cases.append(make_case(spec, n_ids, seed, True,
                                                'tg_tail:%s' % z_))
            if all(k_ is None for k_ in rp.special(spec)):
                elem_cases.append(make_case(spec, n_ids, seed, True, 'int_obs'))
            if k in ('G', 'LN', 'TG'):
                elem_cases.append(make_case(spec, n_ids, seed, True, 'tiny_sigma'))
            if k in ('P', 'H'):
                elem_cases.append(make_case(spec, n_ids, seed, False, 'near_obs'))
                elem_cases.append(make_case(spec, n_ids, seed, False,
                                            'near_obs_ulp'))
    # covariate wrappers (default selection; selections are C07's subject)
    for inner in popbuild.elementary(min(max_d, 2),
                                     ('G', 'Gnc', 'LN', 'LNnc', 'TG', 'P')):
        for n_cov in (1, 2):
            for n_ids in range(1, max_ids + 1):
                for with_c in (False, True):
                    cov_cases.append(make_case(
                        rp.Cov(inner, n_cov), n_ids, seed, with_c))
    # covariates acting on a subset of the population parameters (the others keep
    # their own sensitivities)
    for inner, sels in ((rp.G(2), ([[0, 0]], [[0, 1], [1, 0]], [[1, 1]])),
                        (rp.LN(1), ([[0, 0]], [[1, 0]])),
                        (rp.TG(2), ([[0, 1]], [[0, 0], [0, 1]])),
                        (rp.G(2, False), ([[1, 0]],))):
        for sel in sels:
            for n_cov in (1, 2):
                for n_ids in range(1, max_ids + 1):
                    cov_cases.append(make_case(
                        rp.Cov(inner, n_cov, sel), n_ids, seed, True))
    # composed: all sequences of k parts over the alphabet
    kinds = ['G', 'Gnc', 'LN', 'LNnc', 'TG', 'P', 'H', 'Cov(G)', 'Cov(LNnc)',
             'Cov(P)', 'Cov(TG)']
    n_parts = (2,) if tier == 'quick' else (2, 3)
    for k in n_parts:
        dims_choices = [(1,) * k] if k == 3 else [(1, 1), (2, 1), (1, 2)]
        if k == 2 and tier == 'thorough':
            dims_choices += [(2, 2), (3, 1), (1, 3)]
        for seq in itertools.product(kinds, repeat=k):
            for dims in dims_choices:
                if k == 2 and dims != (1, 1) and tier == 'quick' and \
                        not (set(seq) & {'P', 'H', 'Gnc'}):
                    continue
                parts = [popbuild.elem(kk, dd) for kk, dd in zip(seq, dims)]
                spec = rp.Comp(parts)
                for n_ids in range(1, max_ids + 1):
                    comp_cases.append(make_case(spec, n_ids, seed, True))
    # whole-number parameters / observations as integer arrays on a few compositions
    for spec in (rp.Comp([rp.G(1), rp.P(1), rp.LN(1, False)]),
                 rp.Comp([rp.H(1), rp.TG(1)]),
                 rp.Comp([rp.Cov(rp.G(1), 1), rp.LN(1)])):
        for n_ids in range(1, max_ids + 1):
            comp_cases.append(make_case(spec, n_ids, seed, True, 'int'))
            comp_cases.append(make_case(spec, n_ids, seed, True, 'int_top'))
    for spec in (rp.Comp([rp.G(1), rp.P(1)]), rp.Comp([rp.H(1), rp.LN(1, False)]),
                 rp.Comp([rp.Cov(rp.P(1), 1), rp.G(1)])):
        for n_ids in range(1, max_ids + 1):
            comp_cases.append(make_case(spec, n_ids, seed, False, 'near_obs'))
    # compositions holding a heterogeneous model directly, nested and behind a
    # reduced wrapper, resized from another number of individuals
    for spec in (rp.Comp([rp.G(1), rp.H(1)]),
                 rp.Comp([rp.Comp([rp.H(1), rp.P(1)]), rp.LN(1)]),
                 rp.Comp([rp.G(1), rp.Comp([rp.LN(1, False), rp.H(2)])]),
                 rp.Red(rp.Comp([rp.H(1), rp.G(1)]), {}),
                 rp.Comp([rp.Red(rp.H(1), {}), rp.G(1)])):
        for a_, b_ in ((1, 2), (3, 2), (2, 3), (3, 1)):
            if b_ > max_ids + 1:
                continue
            c_ = make_case(spec, b_, seed, True)
            c_['resize_from'] = a_
            comp_cases.append(c_)
    # one sub-model object listed several times: every occurrence is a dimension of
    # its own
    for parts in ([rp.LN(1), rp.P(1), rp.LN(1)], [rp.G(1), rp.G(1), rp.P(1)],
                  [rp.G(1, False), rp.TG(1), rp.G(1, False)],
                  [rp.P(1), rp.P(1)], [rp.LN(2), rp.LN(2)]):
        spec = rp.Comp(parts)
        spec['shared'] = True
        for n_ids in range(1, max_ids + 1):
            comp_cases.append(make_case(spec, n_ids, seed, True))
    # a sub-model ALL of whose population parameters are fixed (it contributes
    # individual-level entries only), first / middle / last
    def all_fixed(inner):
        fv = popvals.top_values(inner, 1, seed)
        return rp.Red(inner, {i: fv[i] for i in range(len(fv))})
    for parts in ([all_fixed(rp.G(1)), rp.LN(1)], [rp.LN(1), all_fixed(rp.TG(1)),
                                                   rp.P(1)],
                  [rp.G(1), all_fixed(rp.LN(2, False))],
                  [all_fixed(rp.G(1)), all_fixed(rp.LN(1))]):
        for n_ids in range(1, max_ids + 1):
            comp_cases.append(make_case(rp.Comp(parts), n_ids, seed, True))
    # nested composition
    nested = rp.Comp([rp.Comp([rp.G(1), rp.P(1)]), rp.LN(1, False)])
    for n_ids in range(1, max_ids + 1):
        comp_cases.append(make_case(nested, n_ids, seed, True))
    # reduced: every subset of <= 2 fixed parameters of small models
    bases = [rp.G(1), rp.G(2, False), rp.LN(1), rp.LN(2, False), rp.TG(1), rp.P(2),
             rp.H(1), rp.Cov(rp.G(1), 1), rp.Comp([rp.G(1), rp.P(1)]),
             rp.Comp([rp.H(1), rp.LN(1, False)]),
             rp.Comp([rp.P(1), rp.Cov(rp.LN(1), 1), rp.G(1, False)])]
    for base in bases:
        for n_ids in range(1, max_ids + 1):
            n = rp.n_top(base, n_ids)
            full = popvals.top_values(base, n_ids, seed)
            for r in (0, 1, 2):
                for idx in itertools.combinations(range(n), r):
                    spec = rp.Red(base, {i: full[i] for i in idx})
                    red_cases.append(make_case(spec, n_ids, seed, True))
    # reduced models (no heterogeneous part) evaluated for a number of individuals
    # other than the one they were told last
    # (elementary models only: compositions size their hierarchical form from the
    # number they were told)
    for base in (rp.G(1), rp.LN(2), rp.TG(1), rp.G(2, False), rp.LN(1, False)):
        for a_, b_ in ((1, 2), (1, 3), (3, 2), (2, 1), (4, 3)):
            n = rp.n_top(base, b_)
            full = popvals.top_values(base, b_, seed)
            for idx in [()] + [(i,) for i in range(n)] + [(0, n - 1)]:
                if len(set(idx)) != len(idx):
                    continue
                c_ = make_case(rp.Red(base, {i: full[i] for i in idx}), b_, seed,
                               True)
                c_['stale_from'] = a_
                red_cases.append(c_)
    # wrappers fixed for one individual around compositions whose heterogeneous block
    # comes before the fixed parameter, then told the number of individuals
    for base in (rp.Comp([rp.H(1), rp.G(1)]), rp.Comp([rp.H(2), rp.LN(1)]),
                 rp.Comp([rp.P(1), rp.H(1), rp.G(1, False)]),
                 rp.Comp([rp.G(1), rp.H(1)])):
        for n_ids in (2, 3):
            n = rp.n_top(base, n_ids)
            full = popvals.top_values(base, n_ids, seed)
            for i in range(n):
                spec = rp.Red(base, {i: full[i]})
                if popbuild.build_early(spec, n_ids) is not None:
                    c_ = make_case(spec, n_ids, seed, True)
                    c_['early'] = True
                    red_cases.append(c_)
    return {
        'parts': [
            Part('elementary', elem_cases, w_model,
                 'each elementary class x n_dim x n_ids x layouts x return forms'),
            Part('covariate', cov_cases, w_model,
                 'CovariatePopulationModel (default selection) around each class'),
            Part('composed', comp_cases, w_model,
                 'all sequences of sub-models over a 10-kind alphabet'),
            Part('reduced', red_cases, w_model,
                 'ReducedPopulationModel with every subset of <= 2 fixed parameters'),
        ],
        'bounds': {'n_dim_max': max_d, 'n_ids_max': max_ids,
                   'composition_parts': list(n_parts), 'kinds': kinds},
        'rule': 'complete enumeration of structures within the bounds; one generic '
                'in-support value assignment per structure (rotated by seed) plus '
                'boundary variants; distinct = distinct observed result tuples',
        'min_outcomes': {'elementary': 20, 'composed': 50},
        'assumptions': ['values from finite generic alphabets',
                        'scipy.special.erfc for the truncated-Gaussian normaliser'],
    }


META = {
    'technique': 'bounded exhaustive enumeration of population-model structures x '
                 'layouts x return forms on the real classes against a reference '
                 'density with complex-step gradients',
    'level_text': 'All elementary classes (n_dim<=3, n_ids<=3), all three parameter '
                  'layouts, the separate / unflattened / reduce return forms with and '
                  'without upstream sensitivities, all sequences of 2-3 sub-models '
                  'over a 10-kind alphabet, covariate and reduced wrappers with every '
                  'subset of <=2 fixed parameters are executed and compared with the '
                  'documented densities and exact gradients.',
    'level_note': 'Exhaustive over structure within the bounds; one generic value '
                  'assignment per structure and seed. Reference model in '
                  'vcheck/ref/populations.py typed from the documentation.',
}
META['level_text'] += (
    " Also: integer-typed parameters and / or individuals' values, truncated Gaussi"
    'ans in the far tail (mu/sigma down to -20), one sub-model object listed severa'
    'l times, sub-models with all parameters fixed inside compositions, wrappers fi'
    'xed for one individual and resized, reduce vs flattened flags.')
META['level_text'] += (' Wave 9: individuals of one-dimensional models as a plain vector / list, reduced elementary models evaluated for another number of individuals than the one told.')
