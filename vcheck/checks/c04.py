"""C04 — error models are the documented normalised densities with exact sensitivities.

Shape (A): complete enumeration of model x n_obs x output vectors x observation vectors
x scale-parameter alphabet (incl. 0 and negative) x sensitivity width, each executed on
the real chi error model and compared with ref.errors (+ complex-step gradients), and a
normalisation part that integrates exp(chi's pointwise log-likelihood) over the
measurable range by deterministic adaptive quadrature."""
import copy
import itertools

import numpy as np
from scipy import integrate

import chi

from ..core import tol, vals
from ..core.engine import Part
from ..ref import cstep, errors as ref

PROPERTY = 'C04'


def _chi_model(name):
    return getattr(chi, ref.CHI_CLASS[name])()


def w_density(case):
    model = case['model']
    params = np.array(case['params'], dtype=float)
    ybar = np.array(case['ybar'], dtype=float)
    y = np.array(case['y'], dtype=float)
    S = np.array(case['sens'], dtype=float).reshape(len(ybar), case['p'])
    em = _chi_model(model)
    viol = []
    n_tr = 0

    exp_pw = ref.pointwise(model, params, ybar, y)
    exp_tot = float(np.sum(exp_pw))

    # The same float arrays are handed to every call (no copies): evaluations must
    # neither modify them nor depend on what was evaluated before.
    a_par, a_ybar, a_y, a_S = params.copy(), ybar.copy(), y.copy(), S.copy()
    if case.get('ints'):
        # whole-number arguments handed over as integer arrays (all of them, or the
        # ones named in 'int_args' while the others hold generic floats; 'as_list':
        # as plain Python lists)
        which = case.get('int_args') or ['par', 'ybar', 'y', 'S']
        args = {'par': a_par, 'ybar': a_ybar, 'y': a_y, 'S': a_S}
        for k_ in which:
            args[k_] = args[k_].astype(int)
        if case.get('as_list'):
            args = {k_: v_.tolist() for k_, v_ in args.items()}
        a_par, a_ybar, a_y, a_S = [args[k_] for k_ in ('par', 'ybar', 'y', 'S')]
        params, ybar, y, S = [np.asarray(a, dtype=float)
                              for a in (a_par, a_ybar, a_y, a_S)]
    # total
    got_tot = em.compute_log_likelihood(a_par, a_ybar, a_y)
    n_tr += 1
    if not tol.close(got_tot, exp_tot):
        viol.append({
            'sub': 'total', 'message': 'compute_log_likelihood differs from the '
            'documented log-density', 'expected': exp_tot, 'observed': got_tot})
    # pointwise
    got_pw = np.asarray(em.compute_pointwise_ll(a_par, a_ybar, a_y))
    n_tr += 1
    if got_pw.shape != (len(ybar),) or not tol.allclose(got_pw, exp_pw):
        viol.append({
            'sub': 'pointwise', 'message': 'compute_pointwise_ll differs from the '
            'documented pointwise log-density', 'expected': exp_pw,
            'observed': got_pw})
    elif not tol.close(np.sum(got_pw), got_tot):
        viol.append({
            'sub': 'sum', 'message': 'pointwise values do not sum to the total',
            'expected': got_tot, 'observed': float(np.sum(got_pw))})
    # sensitivities
    res = em.compute_sensitivities(a_par, a_ybar, a_S, a_y)
    n_tr += 1
    again = em.compute_log_likelihood(a_par, a_ybar, a_y)
    n_tr += 1
    if not (np.array_equal(a_par, params) and np.array_equal(a_ybar, ybar)
            and np.array_equal(a_y, y) and np.array_equal(a_S, S)):
        viol.append({
            'sub': 'inputs', 'message': 'an evaluation modified the arrays passed '
            'in', 'expected': [params, ybar, y], 'observed': [a_par, a_ybar, a_y],
            'behaviour': 'input_mutation'})
    if not tol.close(again, got_tot):
        viol.append({
            'sub': 'repeat', 'message': 'log-likelihood differs when evaluated '
            'again after compute_sensitivities on the same arrays',
            'expected': got_tot, 'observed': again, 'behaviour': 'repeat'})
    # outputs and observations as column arrays of shape (n, 1) (a data-frame
    # column turned into an array): the same total
    if np.isfinite(exp_tot) and not case.get('ints'):
        col_tot = em.compute_log_likelihood(
            params.copy(), ybar.reshape(-1, 1).copy(), y.reshape(-1, 1).copy())
        n_tr += 1
        if not tol.close(col_tot, exp_tot):
            viol.append({'sub': 'column', 'message': 'compute_log_likelihood with '
                         'outputs and observations of shape (n, 1) differs from the '
                         'documented log-density', 'expected': exp_tot,
                         'observed': col_tot, 'behaviour': 'column'})
    # results handed out earlier stay what they were when the model is evaluated
    # again on arrays of the same shape
    if np.isfinite(exp_tot) and not case.get('ints'):
        kept_pw = em.compute_pointwise_ll(params.copy(), ybar.copy(), y.copy())
        kept_s = em.compute_sensitivities(params.copy(), ybar.copy(), S.copy(),
                                          y.copy())[1]
        snap = [np.array(kept_pw, dtype=float), np.array(kept_s, dtype=float)]
        em.compute_pointwise_ll(params * 1.2, ybar * 0.9, y * 1.1)
        em.compute_sensitivities(params * 1.2, ybar * 0.9, S.copy(), y * 1.1)
        em.compute_log_likelihood(params * 1.2, ybar * 0.9, y * 1.1)
        n_tr += 5
        if not (np.array_equal(np.asarray(kept_pw, dtype=float), snap[0])
                and np.array_equal(np.asarray(kept_s, dtype=float), snap[1])):
            viol.append({'sub': 'retained', 'message': 'pointwise values / '
                         'sensitivities handed out earlier changed when the error '
                         'model was evaluated again', 'expected': snap,
                         'observed': [kept_pw, kept_s], 'behaviour': 'retained'})
    # ... and the caller modifies those arrays in place before evaluating again
    if np.isfinite(exp_tot) and not case.get('ints'):
        b_par, b_ybar, b_y = params.copy(), ybar.copy(), y.copy()
        em.compute_log_likelihood(b_par, b_ybar, b_y)
        b_par[0] *= 1.05
        b_ybar[-1] *= 1.03
        b_y[0] *= 0.97
        e_m = float(np.sum(ref.pointwise(model, b_par, b_ybar, b_y)))
        g_m = [em.compute_log_likelihood(b_par, b_ybar, b_y),
               float(np.sum(em.compute_pointwise_ll(b_par, b_ybar, b_y))),
               em.compute_sensitivities(b_par, b_ybar, S.copy(), b_y)[0]]
        n_tr += 4
        if not all(tol.close(g, e_m) for g in g_m):
            viol.append({'sub': 'inplace', 'message': 'after the parameter / output '
                         '/ observation arrays were changed in place the '
                         'evaluations with the same array objects are not the '
                         'documented density at the new values',
                         'expected': e_m, 'observed': g_m, 'behaviour': 'inplace'})
    score, sens = res
    sens = np.asarray(sens, dtype=float)
    n_expected = case['p'] + ref.N_PARAMS[model]
    if not tol.close(score, exp_tot):
        viol.append({
            'sub': 'S1score', 'message': 'score returned by compute_sensitivities '
            'differs from the documented log-density', 'expected': exp_tot,
            'observed': score})
    if sens.shape != (n_expected,):
        viol.append({
            'sub': 'S1len', 'message': 'sensitivities do not have length '
            'n_mechanistic + n_error_parameters', 'expected': n_expected,
            'observed': list(sens.shape)})
    elif np.isfinite(exp_tot):
        p = case['p']

        def f(theta):
            psi, par = theta[:p], theta[p:]
            yb = ybar + S @ psi  # linear surrogate model around psi = 0
            return np.sum(ref.pointwise(model, par, yb, y))
        theta0 = np.concatenate((np.zeros(p), params))
        exp_sens = cstep.grad(f, theta0)
        if not tol.allclose(sens, exp_sens, rel=1e-8, abs_=1e-9):
            viol.append({
                'sub': 'S1grad', 'message': 'sensitivities are not the derivatives '
                'of the documented log-density (mechanistic first, then error '
                'parameters)', 'expected': exp_sens, 'observed': sens})
    outcome = tol.rnd([got_tot, got_pw, score, sens])
    return {'transitions': n_tr, 'outcome': outcome, 'violations': viol}


def w_norm(case):
    model = case['model']
    params = np.array(case['params'], dtype=float)
    ybar = float(case['ybar'])
    em = _chi_model(model)
    mean, std = ref.mean_std(model, params, [ybar])
    mean, std = float(mean[0]), float(std[0])
    calls = [0]

    def dens(y):
        calls[0] += 1
        return float(np.exp(em.compute_pointwise_ll(
            list(params), np.array([ybar]), np.array([y]))[0]))
    viol = []
    if model == 'LN':
        # integrate over u = log y
        s = params[0]
        mu = np.log(ybar) - s * s / 2
        val, err = integrate.quad(
            lambda u: dens(np.exp(u)) * np.exp(u), mu - 12 * s, mu + 12 * s,
            epsabs=1e-12, epsrel=1e-12, limit=400, points=[mu])
        m1, _ = integrate.quad(
            lambda u: dens(np.exp(u)) * np.exp(2 * u), mu - 12 * s, mu + 14 * s,
            epsabs=1e-12, epsrel=1e-12, limit=400, points=[mu])
    else:
        val, err = integrate.quad(
            dens, mean - 12 * std, mean + 12 * std,
            epsabs=1e-12, epsrel=1e-12, limit=400, points=[mean])
        m1, _ = integrate.quad(
            lambda y: y * dens(y), mean - 12 * std, mean + 12 * std,
            epsabs=1e-12, epsrel=1e-12, limit=400, points=[mean])
    if abs(val - 1) > 1e-8:
        viol.append({
            'sub': 'norm', 'message': 'exp(pointwise log-likelihood) does not '
            'integrate to one over the measurable values', 'expected': 1.0,
            'observed': val})
    if abs(m1 - mean) > 1e-7 * max(1, abs(mean)):
        viol.append({
            'sub': 'mean', 'message': 'mean of the density is not the model output',
            'expected': mean, 'observed': m1})
    return {'transitions': calls[0],
            'outcome': tol.rnd([val, m1], 8), 'violations': viol}


def w_long(case):
    """Long vectors with large / tiny magnitudes: the documented density is a sum of
    per-observation terms, so it stays finite where a product of scales would not."""
    model = case['model']
    params = np.array(case['params'], dtype=float)
    n = case['n']
    base = np.array(case['base'], dtype=float)
    obase = np.array(case['obase'], dtype=float)
    # (offset: outputs and observations far from zero while their difference stays
    # of the order of the noise scale)
    off = case.get('offset', 0.0)
    ybar = off + case['mag'] * base[np.arange(n) % len(base)]
    y = off + case['mag'] * obase[(np.arange(n) * 2 + 1) % len(obase)]
    S = np.array(case['sens'], dtype=float)[
        np.arange(n * case['p']) % len(case['sens'])].reshape(n, case['p']) \
        * case['mag']
    em = _chi_model(model)
    exp_pw = ref.pointwise(model, params, ybar, y)
    exp_tot = float(np.sum(exp_pw))
    viol = []
    got_tot = em.compute_log_likelihood(params, ybar, y)
    got_pw = np.asarray(em.compute_pointwise_ll(params, ybar, y))
    score, sens = em.compute_sensitivities(params, ybar, S, y)
    sens = np.asarray(sens, dtype=float)
    rel = 1e-9
    if not tol.close(got_tot, exp_tot, rel=rel):
        viol.append({'sub': 'total', 'message': 'compute_log_likelihood differs from '
                     'the documented log-density on a long vector',
                     'expected': exp_tot, 'observed': got_tot})
    if got_pw.shape != (n,) or not tol.allclose(got_pw, exp_pw, rel=rel):
        viol.append({'sub': 'pointwise', 'message': 'compute_pointwise_ll differs '
                     'from the documented pointwise log-density on a long vector',
                     'expected': exp_tot, 'observed': float(np.sum(got_pw))})
    if not tol.close(score, exp_tot, rel=rel):
        viol.append({'sub': 'S1score', 'message': 'score returned by '
                     'compute_sensitivities differs from the documented log-density '
                     'on a long vector', 'expected': exp_tot, 'observed': score})
    p = case['p']

    def f(theta):
        yb = ybar + S @ theta[:p]
        return np.sum(ref.pointwise(model, theta[p:], yb, y))
    exp_sens = cstep.grad(f, np.concatenate((np.zeros(p), params)))
    if sens.shape != exp_sens.shape or not tol.allclose(
            sens, exp_sens, rel=1e-7, abs_=1e-7):
        viol.append({'sub': 'S1grad', 'message': 'sensitivities are not the '
                     'derivatives of the documented log-density on a long vector',
                     'expected': exp_sens, 'observed': sens})
    return {'transitions': 3, 'outcome': tol.rnd([got_tot, score, sens], 8),
            'violations': viol}


def w_reduced(case):
    """A history of fix_parameters calls on a ReducedErrorModel, with the
    log-likelihood, pointwise values and sensitivities evaluated after every call and
    compared with the documented density at the substituted parameter vector."""
    model = case['model']
    ybar = np.array(case['ybar'], dtype=float)
    y = np.array(case['y'], dtype=float)
    p = case['p']
    S = np.array(case['sens'], dtype=float).reshape(len(ybar), p)
    full = np.array(case['params'], dtype=float)
    em = chi.ReducedErrorModel(_chi_model(model))
    names = list(em.get_parameter_names())
    n_par = len(names)
    fixed = {}
    viol = []
    n_tr = 0
    obs = []
    copies = []
    for step, op in enumerate(case['ops']):
        d = {names[i]: v for i, v in op}
        em.fix_parameters(d)
        n_tr += 1
        for i, v in op:
            if v is None:
                fixed.pop(i, None)
            else:
                fixed[i] = float(v)
        free = [i for i in range(n_par) if i not in fixed]
        theta_full = full.copy()
        for i, v in fixed.items():
            theta_full[i] = v
        if em.n_parameters() != len(free) or \
                list(em.get_parameter_names()) != [names[i] for i in free]:
            viol.append({'sub': 'names', 'step': step, 'message': 'free parameter '
                         'names/count of the reduced error model are not the '
                         'unfixed ones in order',
                         'expected': [names[i] for i in free],
                         'observed': list(em.get_parameter_names())})
            break
        arg = full[free]
        exp_pw = ref.pointwise(model, theta_full, ybar, y)
        exp_tot = float(np.sum(exp_pw))
        got_tot = em.compute_log_likelihood(arg, ybar, y)
        got_pw = np.asarray(em.compute_pointwise_ll(arg, ybar, y))
        score, sens = em.compute_sensitivities(arg, ybar, S, y)
        sens = np.asarray(sens, dtype=float)
        n_tr += 3
        if not tol.close(got_tot, exp_tot) or not tol.close(score, exp_tot) \
                or not tol.allclose(got_pw, exp_pw):
            viol.append({'sub': 'value', 'step': step, 'message': 'reduced error '
                         'model log-likelihood differs from the documented density '
                         'at the substituted parameters',
                         'expected': exp_tot, 'observed': [got_tot, score]})

        def f(theta):
            par = np.array(theta_full, dtype=complex)
            par[free] = theta[p:]
            return np.sum(ref.pointwise(model, par, ybar + S @ theta[:p], y))
        exp_sens = cstep.grad(f, np.concatenate((np.zeros(p), arg)))
        if sens.shape != exp_sens.shape or not tol.allclose(
                sens, exp_sens, rel=1e-8, abs_=1e-9):
            viol.append({'sub': 'grad', 'step': step, 'message': 'reduced error '
                         'model sensitivities are not the derivatives with respect '
                         'to (mechanistic, free error parameters) at the '
                         'substituted parameters',
                         'expected': exp_sens, 'observed': sens})
        if free:
            # a rejected value for a free parameter: -inf and one entry per
            # mechanistic / free error parameter, as for the unfixed model
            bad = arg.copy()
            bad[0] = -abs(bad[0])
            sb, gb = em.compute_sensitivities(bad, ybar, S, y)
            n_tr += 1
            if sb != -np.inf or np.asarray(gb).shape != (p + len(free),):
                viol.append({'sub': 'rejected', 'step': step, 'message': 'reduced '
                             'error model at a rejected free value does not return '
                             '-inf with one sensitivity per mechanistic and free '
                             'error parameter', 'expected': [-np.inf, p + len(free)],
                             'observed': [sb, list(np.asarray(gb).shape)]})
        # whole-number free parameters handed over as integers (the fixed values
        # are not whole numbers): the same density at the substituted vector
        if free and fixed:
            full_i = theta_full.copy()
            full_i[free] = 1.0
            e_i = float(np.sum(ref.pointwise(model, full_i, ybar, y)))
            for arg_i in ([1] * len(free), np.ones(len(free), dtype=int)):
                g_i = [em.compute_log_likelihood(arg_i, ybar, y),
                       float(np.sum(em.compute_pointwise_ll(arg_i, ybar, y))),
                       em.compute_sensitivities(arg_i, ybar, S, y)[0]]
                n_tr += 3
                if not all(tol.close(g_, e_i) for g_ in g_i):
                    viol.append({'sub': 'int_free', 'step': step, 'message':
                                 'reduced error model evaluated at integer-typed '
                                 'free parameters is not the density at the '
                                 'substituted vector', 'expected': e_i,
                                 'observed': g_i, 'behaviour': 'int_free'})
                    break
        # a deep copy taken now keeps what is fixed now, whatever is fixed later
        copies.append((copy.deepcopy(em), theta_full.copy(), list(free)))
        obs.append([sorted(fixed.items()), got_tot, sens])
        if viol:
            break
    for cp, th_cp, free_cp in copies[:-1]:
        e_cp = float(np.sum(ref.pointwise(model, th_cp, ybar, y)))
        g_cp = [cp.compute_log_likelihood(full[free_cp], ybar, y),
                cp.compute_sensitivities(full[free_cp], ybar, S, y)[0]] \
            if cp.n_parameters() == len(free_cp) else ['count', cp.n_parameters()]
        n_tr += 2
        if not all(isinstance(g_, float) or np.isscalar(g_) for g_ in g_cp) or \
                not all(tol.close(g_, e_cp) for g_ in g_cp):
            viol.append({'sub': 'copy_kept', 'message': 'a deep copy of the reduced '
                         'error model taken earlier changed with later '
                         'fix_parameters calls on the original', 'expected': e_cp,
                         'observed': g_cp, 'behaviour': 'copy_kept'})
            break
    return {'transitions': n_tr, 'outcome': tol.rnd(obs), 'violations': viol}


WORKERS = {'density': w_density, 'normalisation': w_norm, 'long': w_long,
           'reduced': w_reduced}


def _tuples(alphabet, n):
    return [list(t) for t in itertools.permutations(alphabet, n)]


def build(tier, seed):
    max_n = 2 if tier == 'quick' else 3
    max_p = 2 if tier == 'quick' else 3
    pos = vals.reals('c04.ybar.pos', 3, 0.4, 6.0, seed)
    mixed = [vals.real('c04.ybar.neg', -3.0, -0.3, seed), 0.0] + pos[:2]
    obs_pos = vals.reals('c04.obs', 3, 0.2, 7.0, seed)
    obs_mixed = [vals.real('c04.obs.neg', -4.0, -0.2, seed)] + obs_pos[:2]
    scale = {
        'G': [vals.reals('c04.sG', 3, 0.3, 2.0, seed)],
        'M': [vals.reals('c04.sM', 3, 0.05, 0.6, seed)],
        'CM': [vals.reals('c04.sCb', 3, 0.1, 1.5, seed),
               vals.reals('c04.sCr', 3, 0.05, 0.5, seed)],
        'LN': [vals.reals('c04.sL', 3, 0.1, 1.2, seed)]}
    bad = [0.0, -0.5]
    cases = []
    for model in ref.MODELS:
        par_alpha = [a + bad for a in scale[model]]
        for n in range(1, max_n + 1):
            ybars = _tuples(pos, n)
            if model == 'G':
                ybars = _tuples(mixed, n)[: 12] + ybars[:3]
                ys = _tuples(obs_mixed, n)
            else:
                ys = _tuples(obs_pos, n)
            if model == 'LN':
                # one non-positive output at each position
                for k in range(n):
                    for b in (0.0, -0.7):
                        v = list(pos[:n])
                        v[k] = b
                        ybars.append(v)
            for ybar in ybars:
                for y in ys:
                    for params in itertools.product(*par_alpha):
                        for p in range(0, max_p + 1):
                            sens = vals.reals(
                                'c04.S.%d.%d' % (n, p), n * p, -2.0, 2.0, seed) \
                                if p else []
                            cases.append({
                                'model': model, 'ybar': ybar, 'y': y,
                                'params': list(params), 'p': p, 'sens': sens})
    # negative outputs whose documented standard deviation is still positive
    # (constant + relative: sigma_base + sigma_rel * ybar > 0)
    for n in (1, 2):
        for ybar_n in itertools.permutations([-2.0, -0.5, 1.5], n):
            for y_n in _tuples(obs_mixed, n)[:4]:
                for sb, sr in ((1.0, 0.1), (0.8, 0.3), (2.0, 0.5)):
                    if min(sb + sr * v for v in ybar_n) <= 0:
                        continue
                    for p in (0, 2):
                        cases.append({
                            'model': 'CM', 'ybar': list(ybar_n), 'y': list(y_n),
                            'params': [sb, sr], 'p': p,
                            'sens': vals.reals('c04.S.neg', n * p, -2.0, 2.0, seed)
                            if p else []})
    for model in ref.MODELS:
        for n in (1, 2, 3):
            for ybar_i in itertools.permutations([1, 2, 4], n):
                for y_i in itertools.permutations([1, 3, 5], n):
                    for par in itertools.product([1, 2], repeat=ref.N_PARAMS[model]):
                        for p in (0, 2):
                            cases.append({
                                'model': model, 'ybar': list(ybar_i),
                                'y': list(y_i), 'params': list(par), 'p': p,
                                'sens': [1, -2, 3, 1, 2, -1][:n * p], 'ints': True})
    # every proper subset of the arguments integer-typed, the others generic floats
    names_ = ['par', 'ybar', 'y', 'S']
    for model in ref.MODELS:
        for n in (1, 3):
            for r_ in (1, 2, 3):
                for sub in itertools.combinations(names_, r_):
                    for as_list in (False, True):
                        np_ = ref.N_PARAMS[model]
                        cases.append({
                            'model': model, 'p': 2, 'ints': True,
                            'int_args': list(sub), 'as_list': as_list,
                            'params': [1, 2][:np_] if 'par' in sub else
                            [0.7, 0.35][:np_],
                            'ybar': [2, 1, 4][:n] if 'ybar' in sub else
                            [1.7, 0.9, 3.6][:n],
                            'y': [1, 3, 5][:n] if 'y' in sub else
                            [1.45, 2.8, 4.3][:n],
                            'sens': [1, -2, 3, 1, 2, -1][:n * 2] if 'S' in sub else
                            [0.6, -1.3, 2.2, 0.4, 1.7, -0.8][:n * 2]})
    norm_cases = []
    for model in ref.MODELS:
        for params in itertools.product(*scale[model]):
            for ybar in (mixed if model == 'G' else pos):
                norm_cases.append(
                    {'model': model, 'params': list(params), 'ybar': ybar})
    if tier == 'quick':
        norm_cases = norm_cases[::2]
    # long vectors x magnitudes
    long_cases = []
    lens = [40, 200] if tier == 'quick' else [40, 200, 400, 1000]
    sens_alpha = vals.reals('c04.S.long', 7, -1.5, 1.5, seed)
    for model in ref.MODELS:
        for n in lens:
            for mag in (1e-12, 1e-8, 1e-3, 1.0, 40.0, 800.0):
                for params in itertools.product(*[a[:2] for a in scale[model]]):
                    for p in (0, 2):
                        long_cases.append({
                            'model': model, 'n': n, 'mag': mag, 'p': p,
                            'params': list(params), 'base': pos, 'obase': obs_pos,
                            'sens': sens_alpha})
    for model in ref.MODELS:
        for n in (12, 40):
            for off in (1e5, 1e8):
                for params in itertools.product(*[a[:2] for a in scale[model]]):
                    for p in (0, 2):
                        long_cases.append({
                            'model': model, 'n': n, 'mag': 1.0, 'p': p,
                            'offset': off, 'params': list(params), 'base': pos,
                            'obase': obs_pos, 'sens': sens_alpha})
    # ReducedErrorModel fix histories with evaluation after every call
    red_cases = []
    depth = 2 if tier == 'quick' else 3
    for model in ref.MODELS:
        n_par = ref.N_PARAMS[model]
        choices = []
        for i in range(n_par):
            a = scale[model][i]
            choices.append([('absent',), (i, None), (i, a[1]), (i, a[2])])
        ops = []
        for combo in itertools.product(*choices):
            op = [list(c) for c in combo if c != ('absent',)]
            if op:
                ops.append(op)
                if len(op) > 1:
                    # the same dictionary written down in the other key order
                    ops.append(op[::-1])
        n = 2
        for d in range(1, depth + 1):
            for hist in itertools.product(ops, repeat=d):
                for p in (0, 2):
                    red_cases.append({
                        'model': model, 'ybar': pos[:n], 'y': obs_pos[:n],
                        'params': [a[0] for a in scale[model]], 'p': p,
                        'sens': vals.reals('c04.S.red', n * p, -2.0, 2.0, seed)
                        if p else [], 'ops': [list(o) for o in hist]})
    return {
        'parts': [
            Part('density', cases, w_density,
                 'model x n_obs x outputs x observations x scale alphabet '
                 '(incl. 0, negative) x sensitivity width vs documented density'),
            Part('normalisation', norm_cases, w_norm,
                 'adaptive quadrature of exp(pointwise ll) over the measurable range'),
            Part('long', long_cases, w_long,
                 'model x vector length x magnitude (1e-3 .. 800) x scales x '
                 'sensitivity width vs the documented sum of per-observation terms'),
            Part('reduced', red_cases, w_reduced,
                 'every sequence (depth <= %d) of ReducedErrorModel.fix_parameters '
                 'calls over {absent, None, v1, v2}^n_parameters, evaluated after '
                 'every call' % depth),
        ],
        'bounds': {'n_obs_max': max_n, 'sens_width_max': max_p,
                   'long_lengths': lens, 'long_magnitudes': [1e-12, 1e-8, 1e-3, 1.0, 40.0, 800.0],
                   'reduced_history_depth': depth,
                   'scale_alphabet': scale, 'bad_scales': bad,
                   'outputs_pos': pos, 'outputs_mixed': mixed},
        'rule': 'complete product of the declared alphabets; a case is counted as '
                'distinct-nontrivial once per distinct observed (total, pointwise, '
                'score, sensitivities) tuple',
        'min_outcomes': {'density': 200, 'normalisation': 4, 'long': 20,
                         'reduced': 20},
        'assumptions': [
            'outputs for which the documented standard deviation would be '
            'non-positive (M with negative outputs, CM with sigma_base + sigma_rel '
            'ybar <= 0) are outside the documented density and are not enumerated',
            'values: finite alphabets of generic reals rotated by VERIF_SEED'],
        'exhaustive': True,
    }


META = {
    'technique': 'bounded exhaustive enumeration of (error model x shapes x value '
                 'alphabet) on the real code against a reference density with '
                 'complex-step gradients; deterministic quadrature for normalisation',
    'level_text': 'Every combination of error model, number of observations (<=3), '
                  'output/observation vectors from the alphabets, scale parameters '
                  '(3 generic + 0 + negative per parameter) and sensitivity width '
                  '(0..3) is executed on chi and compared with the documented '
                  'log-density, its exact gradient and unit normalisation. '
                  'Exhaustive within the stated alphabets; says nothing about '
                  'reals outside them.',
    'level_note': 'Trusted: numpy/scipy arithmetic and scipy.integrate.quad; the '
                  'reference formulas in vcheck/ref/errors.py are typed from the '
                  'class documentation. Outputs that would make the documented '
                  'standard deviation non-positive are not enumerated.',
}
META['level_text'] += (
    ' Also: every proper subset of the arguments integer-typed (arrays and lists), '
    'results handed out earlier kept and compared, outputs at 1e5 / 1e8 with residu'
    'als of noise size.')
