"""C15 — predictive models sample the stated generative process, correctly labelled.

Shape (C): the random sources are behind the RngSeam and scripted. A *revealing* toy
mechanistic model (output j = parameter j times a known time factor) makes every
returned value disclose which parameter set and which base variate produced it:
 * PredictiveModel: value[o, t, s] = mech(theta)[o, t_sorted] + sigma_o z, each z used
   for exactly one cell; tables are a bijective relabelling of the array (ID, ascending
   Time, Observable); dose rows as scheduled;
 * PopulationPredictiveModel: individuals = population sample transformed to psi for
   the given covariates (chi's own population model under the same script, decided by
   C06), also when n_samples differs from the n_ids the population model was last
   given; covariate rows;
 * Prior / Posterior / PAM predictive models: one COMPLETE parameter set per sample --
   the scripted `choice` answer ranges over EVERY (chain, draw) row of a coded
   posterior (each entry encodes parameter, chain, draw, individual), the prior draw
   is pints' own draw under the same script, model-choice answers range over all
   assignments and the probabilities passed to `choice` are the normalised weights."""
import copy
import itertools

import numpy as np
import pandas as pd
import pints
import xarray as xr

import chi
import chi.library

from ..core import tol
from ..core.engine import Part, key_of
from ..env.rngseam import Seam, Script
from ..gen import popbuild, popvals
from ..ref import dosing as rd, populations as rp

from . import c10 as _c10  # noqa: E402

PROPERTY = 'C15'


def tf(t):
    return 1.0 + 0.5 * np.asarray(t, dtype=float)


class RevealModel(chi.MechanisticModel):
    """output j (t) = parameter j * (1 + t/2)."""
    def __init__(self, k):
        super(RevealModel, self).__init__()
        self._k = k
        self._sens = False

    def copy(self):
        return copy.deepcopy(self)

    def enable_sensitivities(self, enabled, parameter_names=None):
        self._sens = bool(enabled)

    def has_sensitivities(self):
        return self._sens

    def n_outputs(self):
        return self._k

    def n_parameters(self):
        return self._k

    def outputs(self):
        return ['r%d' % j for j in range(self._k)]

    def parameters(self):
        return ['q%d' % j for j in range(self._k)]

    def simulate(self, parameters, times):
        p = np.asarray(parameters, dtype=float)
        return p[:, np.newaxis] * tf(times)[np.newaxis, :]


def pred_model(k):
    return chi.PredictiveModel(RevealModel(k),
                               [chi.GaussianErrorModel() for _ in range(k)])


def zero_z(stream, index, kind, n=None):
    if kind == 'z':
        return 0.0
    if kind == 'u':
        return 0.5
    return 0


def generic(stream, index, kind, n=None):
    return Script()(stream, index, kind, n)


# --------------------------------------------------------------- PredictiveModel

def w_pred(case):
    k, ns = case['k'], case['n_samples']
    times = case['times']
    ts = np.sort(times)
    psi = [1.5 + 0.7 * j for j in range(k)]
    sig = [0.11 + 0.07 * j for j in range(k)]
    theta = psi + sig
    viol = []
    pm = pred_model(k)
    with Seam(Script(base=zero_z)) as seam:
        A0 = np.asarray(pm.sample(theta, list(times), n_samples=ns, seed=3,
                                  return_df=False), dtype=float)
    exp = np.array(psi)[:, None, None] * tf(ts)[None, :, None] * np.ones((1, 1, ns))
    if A0.shape != exp.shape or not tol.allclose(A0, exp):
        viol.append({'sub': 'mean', 'message': 'with zero noise the samples are not '
                     'the mechanistic output at the given parameters for every '
                     'output and (ascending) time', 'expected': exp, 'observed': A0,
                     'behaviour': 'pred_mean'})
        return {'transitions': 1, 'outcome': 'mean', 'violations': viol}
    # each base variate: exactly one cell moves, by the sigma of that cell's output
    variates = []
    for s_, i_, k_, c_ in seam.log:
        if k_ == 'z' and (s_, i_) not in variates:
            variates.append((s_, i_))
    hit = np.zeros(A0.shape, dtype=int)
    for v in variates:
        with Seam(Script({v: 1.0}, base=zero_z)):
            A1 = np.asarray(pm.sample(theta, list(times), n_samples=ns, seed=3,
                                      return_df=False), dtype=float)
        d = A1 - A0
        cells = np.argwhere(np.abs(d) > 1e-12)
        if len(cells) != 1:
            viol.append({'sub': 'one_cell', 'message': 'a noise variate moves %d '
                         'cells instead of one' % len(cells), 'expected': 1,
                         'observed': cells.tolist(), 'behaviour': 'pred_cells'})
            break
        o = cells[0][0]
        hit[tuple(cells[0])] += 1
        if not tol.close(d[tuple(cells[0])], sig[o]):
            viol.append({'sub': 'sigma', 'message': 'the noise of an output is not '
                         'scaled by that output\'s error parameter',
                         'expected': sig[o], 'observed': d[tuple(cells[0])],
                         'behaviour': 'pred_sigma'})
            break
    if not viol and not np.all(hit == 1):
        viol.append({'sub': 'coverage', 'message': 'not every (output, time, '
                     'sample) cell receives exactly one noise variate',
                     'expected': 'all ones', 'observed': hit,
                     'behaviour': 'pred_coverage'})
    # table = bijective relabelling of the array
    with Seam(Script(base=generic)):
        A = np.asarray(pm.sample(theta, list(times), n_samples=ns, seed=3,
                                 return_df=False), dtype=float)
    with Seam(Script(base=generic)):
        df = pm.sample(theta, list(times), n_samples=ns, seed=3, return_df=True)
    _check_table(viol, df, A, ts, ['r%d' % j for j in range(k)], ns, 'pred')
    return {'transitions': 3 + len(variates), 'outcome': tol.rnd(A, 8),
            'violations': viol}


def _check_table(viol, df, A, ts, outputs, ns, tag, extra_rows=0):
    rows = df[df['Observable'].isin(outputs)]
    want = {}
    for o, name in enumerate(outputs):
        for t in range(len(ts)):
            for s in range(ns):
                want.setdefault((s + 1, float(ts[t]), name), []).append(
                    float(A[o, t, s]))
    # (replicate measurements at one time: a label holds as many values as the time
    # was requested)
    got = {}
    for _, r in rows.iterrows():
        key = (int(r['ID']), float(r['Time']), r['Observable'])
        got.setdefault(key, []).append(float(r['Value']))
    ok = set(got) == set(want) and all(
        len(got[k_]) == len(want[k_]) and tol.allclose(
            np.sort(got[k_]), np.sort(want[k_])) for k_ in want)
    if not ok:
        viol.append({'sub': 'table', 'message': 'the returned table does not label '
                     'every value with its sample ID, time and observable (%s)'
                     % tag, 'expected': {str(k_): v for k_, v in want.items()},
                     'observed': {str(k_): v for k_, v in got.items()},
                     'behaviour': tag + '_table'})
    if list(df.columns[:4]) != ['ID', 'Time', 'Observable', 'Value']:
        viol.append({'sub': 'columns', 'message': 'table columns wrong (%s)' % tag,
                     'expected': ['ID', 'Time', 'Observable', 'Value'],
                     'observed': list(df.columns), 'behaviour': tag + '_columns'})


# ------------------------------------------------------ PopulationPredictiveModel

def w_poppred(case):
    spec = case['spec']
    ns = case['n_samples']
    times = case['times']
    ts = np.sort(times)
    viol = []
    pop = popbuild.build(spec, None)
    if case.get('prev_n_ids'):
        # the population model was last used by a likelihood / controller with a
        # different number of individuals
        pop.set_n_ids(case['prev_n_ids'])
    ppm = chi.PopulationPredictiveModel(pred_model(1), pop)
    top = np.array(case['top'], dtype=float)
    cov = None if case.get('cov') is None else np.array(case['cov'], dtype=float)
    kw = {'covariates': cov} if cov is not None else {}
    def the_seed():
        st = case.get('seed_type', 'int')
        if st == 'np.int64':
            return np.int64(7)
        if st == 'generator':
            return np.random.default_rng(7)
        return 7
    try:
        with Seam(Script(base=generic)) as seam:
            A = np.asarray(ppm.sample(top, list(times), n_samples=ns,
                                      seed=the_seed(), return_df=False, **kw),
                           dtype=float)
    except Exception as e:
        beh = 'poppred_raise:' + type(e).__name__
        return {'transitions': 1, 'outcome': 'raise', 'violations': [{
            'sub': 'raise', 'message': 'PopulationPredictiveModel.sample raises '
            '(n_samples=%d, population model previously set to n_ids=%s): %s: %s'
            % (ns, case.get('prev_n_ids'), type(e).__name__, str(e)[:150]),
            'expected': 'samples', 'observed': repr(e)[:300], 'behaviour': beh}]}
    # the individuals chi's own population model yields under the same script
    # (sub-model by sub-model, each with its own slice of the parameters and its
    # own covariate columns, continuing one generator)
    parts = rp.elementary_parts(spec) if spec['kind'] == 'Comp' else [spec]
    c2 = None if cov is None else np.broadcast_to(
        np.atleast_2d(cov), (ns, np.atleast_2d(cov).shape[1]))
    with Seam(Script(base=generic)) as seam2:
        rng = np.random.default_rng(7)
        cols = []
        t0 = c0 = 0
        for part in parts:
            sub = popbuild.build(part, None)
            nt, ncv = rp.n_top(part, 1), rp.n_cov(part)
            kw_p = {'covariates': c2[:, c0:c0 + ncv]} if ncv else {}
            pat = sub.sample(top[t0:t0 + nt], n_samples=ns, seed=rng, **kw_p)
            cols.append(np.asarray(sub.compute_individual_parameters(
                top[t0:t0 + nt], pat, **kw_p), dtype=float).reshape(ns, -1))
            t0 += nt
            c0 += ncv
        psi = np.hstack(cols)
        n_used = len(seam2.log)
        stream = 'seed:7'
        rest = [seam2.script(stream, i, 'z') for i in range(
            sum(1 for l_ in seam2.log if l_[0] == stream),
            sum(1 for l_ in seam2.log if l_[0] == stream) + len(ts) * ns)]
    if A.shape != (1, len(ts), ns):
        viol.append({'sub': 'shape', 'message': 'sample array has the wrong shape',
                     'expected': [1, len(ts), ns], 'observed': list(A.shape)})
        return {'transitions': 2, 'outcome': 'shape', 'violations': viol}
    # residuals must be the remaining variates of the stream, each used once
    z = np.empty((len(ts), ns))
    for s in range(ns):
        z[:, s] = (A[0, :, s] - psi[s, 0] * tf(ts)) / psi[s, 1]
    if not tol.allclose(np.sort(z.flatten()), np.sort(np.array(rest)), 1e-8, 1e-9):
        viol.append({'sub': 'process', 'message': 'population predictive samples '
                     'are not (mechanistic output of an individual drawn from the '
                     'population model and transformed to psi) + that individual\'s '
                     'error scale times an own noise variate (%s, n_samples=%d)'
                     % (popbuild.label(spec), ns),
                     'expected': sorted(rest), 'observed': np.sort(z.flatten()),
                     'behaviour': 'poppred_process'})
    # order-free check of the individuals: under a constant script (all base variates
    # equal) individual s is a deterministic function of ITS covariate row; covariate
    # sub-models are referred to the underlying model at vartheta_s
    def const(stream, index, kind, n=None):
        return 0.45 if kind == 'z' else (0.6 if kind == 'u' else 0)
    with Seam(Script(base=const)):
        Ac = np.asarray(ppm.sample(top, list(times), n_samples=ns, seed=the_seed(),
                                   return_df=False, **kw), dtype=float)
        cols = []
        t0 = c0 = 0
        for part in parts:
            nt, ncv = rp.n_top(part, 1), rp.n_cov(part)
            if part['kind'] == 'Cov':
                under = popbuild.build(part['inner'], None)
                th = np.real(rp.vartheta(part, top[t0:t0 + nt], c2[:, c0:c0 + ncv],
                                         ns))
                rows_ = []
                for s_ in range(ns):
                    eta = under.sample(th[s_].flatten(), n_samples=1, seed=5)
                    rows_.append(np.asarray(under.compute_individual_parameters(
                        th[s_].flatten(), eta), dtype=float)[0])
                cols.append(np.array(rows_).reshape(ns, -1))
            else:
                sub = popbuild.build(part, None)
                eta = sub.sample(top[t0:t0 + nt], n_samples=ns, seed=5)
                cols.append(np.asarray(sub.compute_individual_parameters(
                    top[t0:t0 + nt], eta), dtype=float).reshape(ns, -1))
            t0 += nt
            c0 += ncv
        psi_c = np.hstack(cols)
    exp_c = np.array([[psi_c[s_, 0] * tf(ts) + psi_c[s_, -1] * 0.45
                       for s_ in range(ns)]]).transpose(0, 2, 1)
    if Ac.shape != exp_c.shape or not tol.allclose(Ac, exp_c, 1e-8, 1e-9):
        viol.append({'sub': 'individuals', 'message': 'population predictive '
                     'individuals are not draws of the population model for their '
                     'own covariate rows (constant-variate script; %s, '
                     'n_samples=%d)' % (popbuild.label(spec), ns),
                     'expected': exp_c, 'observed': Ac,
                     'behaviour': 'poppred_individuals'})
    # table
    with Seam(Script(base=generic)):
        df = ppm.sample(top, list(times), n_samples=ns, seed=the_seed(),
                        return_df=True, **kw)
    _check_table(viol, df, A, ts, ['r0'], ns, 'poppred')
    if cov is not None:
        cnames = pop.get_covariate_names()
        c2d = np.broadcast_to(np.atleast_2d(cov), (ns, len(cnames)))
        for cn in sorted(set(cnames)):
            # (sub-models number their covariates independently: a name may label
            # several columns)
            rows = df[df['Observable'] == cn]
            got = sorted((int(r['ID']), float(r['Value']))
                         for _, r in rows.iterrows())
            want = sorted((s + 1, float(c2d[s, ci])) for s in range(ns)
                          for ci, c_ in enumerate(cnames) if c_ == cn)
            if got != want:
                viol.append({'sub': 'cov_rows', 'message': 'covariate rows of the '
                             'table do not list each sample\'s covariates',
                             'expected': want, 'observed': got,
                             'behaviour': 'poppred_cov_rows'})
    return {'transitions': 4, 'outcome': tol.rnd(A, 8), 'violations': viol}


# ---------------------------------------------------------- coded posterior models

def coded_posterior(n_chains, n_draws, inds, pad=False, offset=0,
                    pooled_sigma=False, draw_first=False, longer=None):
    """Every entry encodes (parameter, chain, draw, individual). With
    pooled_sigma the error parameter is a population-level variable (chain, draw),
    as in a hierarchical fit with a pooled dimension."""
    names = ['q0', 'Sigma']
    data = {}
    for p, n in enumerate(names):
        if pooled_sigma and n == 'Sigma':
            arr = np.empty((n_chains, n_draws + (1 if pad else 0)))
            for c in range(n_chains):
                for d in range(n_draws):
                    arr[c, d] = offset + 1000 * (p + 1) + 100 * c + 10 * d + 9
            if pad:
                arr[:, n_draws] = np.nan
            data[n] = (('chain', 'draw'), arr)
            continue
        arr = np.empty((n_chains, n_draws + (1 if pad else 0), len(inds)))
        for c in range(n_chains):
            for d in range(n_draws):
                for i in range(len(inds)):
                    arr[c, d, i] = offset + 1000 * (p + 1) + 100 * c + 10 * d + i
        if pad:
            arr[:, n_draws, :] = np.nan
        if longer is not None:
            # the OTHER individuals have fewer draws (their last draws are missing)
            for i in range(len(inds)):
                if i != longer:
                    arr[:, n_draws - 1 - i % 2:, i] = np.nan
        data[n] = (('chain', 'draw', 'individual'), arr)
    nd = n_draws + (1 if pad else 0)
    ds = xr.Dataset(data, coords={'chain': list(range(n_chains)),
                                  'draw': list(range(nd)),
                                  'individual': list(inds)})
    if draw_first:
        # the same dataset stored with the draw dimension before the chain dimension
        ds = ds.transpose('draw', 'chain', 'individual')
    return ds


def decode(v, offset=0):
    v = int(round(v - offset))
    return {'p': v // 1000 - 1, 'chain': (v % 1000) // 100, 'draw': (v % 100) // 10,
            'ind': v % 10}


def _values(df, ns, ts, obs='r0'):
    out = np.empty((ns, len(ts)))
    for s in range(ns):
        for t in range(len(ts)):
            r = df[(df['ID'] == s + 1) & (df['Time'] == ts[t])
                   & (df['Observable'] == obs)]
            out[s, t] = float(r['Value'].iloc[0]) if len(r) == 1 else np.nan
    return out


def w_posterior(case):
    nc, nd, inds = case['n_chains'], case['n_draws'], case['inds']
    ind = case['individual']
    ns = case['n_samples']
    times = case['times']
    ts = np.sort(times)
    answers = case['answers']         # one row index per sample
    viol = []
    ds = coded_posterior(nc, nd, inds, pad=case['pad'],
                         pooled_sigma=case.get('pooled_sigma', False),
                         draw_first=case.get('draw_first', False),
                         longer=case.get('longer'))
    ppm = chi.PosteriorPredictiveModel(pred_model(1), ds)
    if case.get('prev') is not None:
        # the same object was asked for another individual before
        ppm.sample(list(times), n_samples=2, individual=case['prev'], seed=1)
    res = []
    for zval in (0.0, 1.0):
        def base(stream, index, kind, n=None, zval=zval):
            if kind == 'z':
                return zval
            if kind == 'u':
                return 0.5
            return 0
        with Seam(Script(base=base)) as seam:
            chosen = [l_ for l_ in seam.log]
        # answers for the i-variates in order of consumption
        with Seam(Script(base=base)) as seam:
            df = ppm.sample(list(times), n_samples=ns, individual=ind, seed=5)
            ivars = [(s_, i_) for s_, i_, k_, c_ in seam.log if k_ == 'i']
        over = {v: a for v, a in zip(ivars, answers)}
        with Seam(Script(over, base=base)) as seam:
            df = ppm.sample(list(times), n_samples=ns, individual=ind, seed=5)
            n_choice = [c for c in seam.choice_calls]
        res.append(_values(df, ns, ts))
    if len(ivars) != ns:
        viol.append({'sub': 'n_choice', 'message': 'not exactly one posterior row '
                     'is chosen per sample', 'expected': ns,
                     'observed': len(ivars), 'behaviour': 'post_n_choice'})
        return {'transitions': 4, 'outcome': 'n_choice', 'violations': viol}
    if any(c['n'] != nc * nd for c in n_choice):
        viol.append({'sub': 'n_rows', 'message': 'the choice is not over all '
                     '(chain, draw) rows with non-missing draws',
                     'expected': nc * nd, 'observed': [c['n'] for c in n_choice],
                     'behaviour': 'post_n_rows'})
    y0, y1 = res
    i_ind = inds.index(ind) if ind is not None else 0
    for s in range(ns):
        q = y0[s] / tf(ts)
        sg = y1[s] - y0[s]
        if np.any(np.isnan(q)) or not tol.allclose(q, np.full(len(ts), q[0])) or \
                not tol.allclose(sg, np.full(len(ts), sg[0])):
            viol.append({'sub': 'one_set', 'message': 'a sample does not use one '
                         'parameter set for all times', 'expected': 'constant',
                         'observed': [q, sg], 'behaviour': 'post_one_set'})
            break
        a, b = decode(q[0]), decode(sg[0])
        row = answers[s]
        want = {'chain': row // nd, 'draw': row % nd, 'ind': i_ind}
        if case.get('draw_first'):
            # (rows are enumerated in storage order: draw-major here)
            want = {'chain': row % nc, 'draw': row // nc, 'ind': i_ind}
        want_b = dict(want)
        if case.get('pooled_sigma'):
            want_b['ind'] = 9
        if (a['p'], b['p']) != (0, 1) or any(
                a[k_] != want[k_] or b[k_] != want_b[k_] for k_ in want):
            viol.append({
                'sub': 'joint_row', 'message': 'a posterior predictive sample does '
                'not use one joint posterior draw (same chain and draw for every '
                'parameter) of the selected individual, namely the chosen row',
                'expected': want, 'observed': [a, b],
                'behaviour': 'post_joint_row'})
            break
    ids = sorted(set(int(i) for i in df['ID']))
    if ids != list(range(1, ns + 1)):
        viol.append({'sub': 'ids', 'message': 'sample IDs are not 1..n_samples',
                     'expected': list(range(1, ns + 1)), 'observed': ids})
    return {'transitions': 6, 'outcome': tol.rnd(y0, 8), 'violations': viol}


def w_prior(case):
    ns = case['n_samples']
    times = case['times']
    ts = np.sort(times)
    viol = []
    k = case.get('k', 1)
    pri = pints.ComposedLogPrior(*(
        [pints.UniformLogPrior(1.0 + j, 3.0 + j) for j in range(k)]
        + [pints.UniformLogPrior(0.1, 0.4 + 0.1 * j) for j in range(k)]))
    ppm = chi.PriorPredictiveModel(pred_model(k), pri)
    with Seam(Script(base=generic)) as seam:
        df = ppm.sample(list(times), n_samples=ns, seed=case['seed'])
        log = list(seam.log)
    ys = [_values(df, ns, ts, 'r%d' % j) for j in range(k)]
    y = np.concatenate(ys, axis=1)
    # pints' own draws under the same script, in the same order
    with Seam(Script(base=generic)) as seam2:
        np.random.seed(case['seed'])
        thetas = [pri.sample().flatten() for _ in range(ns)]
    for s in range(ns):
        # (all outputs of one sample stem from ONE prior draw)
        z = np.concatenate([
            (ys[j][s] - thetas[s][j] * tf(ts)) / thetas[s][k + j] for j in range(k)])
        stream = 'seed:%d' % (case['seed'] + s + 1)
        avail = [Script()(stream, i, 'z') for i in range(len(ts) * ns * k)]
        ok = all(any(abs(zz - a) < 1e-8 for a in avail) for zz in z) and \
            len(set(np.round(z, 8))) == len(z)
        if not ok:
            viol.append({'sub': 'prior_set', 'message': 'a prior predictive sample '
                         'is not the error model around the mechanistic output at '
                         'ONE complete parameter set drawn from the prior',
                         'expected': {'theta': thetas[s], 'noise_from': stream},
                         'observed': {'implied_noise': z},
                         'behaviour': 'prior_set'})
            break
    return {'transitions': 3, 'outcome': tol.rnd(y, 8), 'violations': viol}


def w_prior_pop(case):
    """PriorPredictiveModel around a PopulationPredictiveModel: every sample is the
    first individual of a population drawn at ONE prior draw of the population
    parameters, with noise variates of its own (not the ones that made the
    individual)."""
    spec = case['spec']
    ns = case['n_samples']
    times = case['times']
    ts = np.sort(times)
    seed = case['seed']
    viol = []
    nt = rp.n_top(spec, 1)
    pri = pints.ComposedLogPrior(*[
        pints.UniformLogPrior(0.4 + 0.1 * i, 0.9 + 0.1 * i) for i in range(nt)])
    ppm = chi.PriorPredictiveModel(
        chi.PopulationPredictiveModel(pred_model(1), popbuild.build(spec, None)),
        pri)
    with Seam(Script(base=generic)):
        df = ppm.sample(list(times), n_samples=ns, seed=seed)
    y = _values(df, ns, ts)
    with Seam(Script(base=generic)):
        np.random.seed(seed)
        tops = [pri.sample().flatten() for _ in range(ns)]
    parts = rp.elementary_parts(spec) if spec['kind'] == 'Comp' else [spec]
    for s_ in range(ns):
        stream = 'seed:%d' % (seed + s_ + 1)
        with Seam(Script(base=generic)) as seam2:
            rng = np.random.default_rng(seed + s_ + 1)
            cols = []
            t0 = 0
            for part in parts:
                sub = popbuild.build(part, None)
                n_ = rp.n_top(part, 1)
                pat = sub.sample(tops[s_][t0:t0 + n_], n_samples=ns, seed=rng)
                cols.append(np.asarray(sub.compute_individual_parameters(
                    tops[s_][t0:t0 + n_], pat), dtype=float).reshape(ns, -1))
                t0 += n_
            psi = np.hstack(cols)
            used = sum(1 for l_ in seam2.log if l_[0] == stream)
            rest = [seam2.script(stream, i, 'z')
                    for i in range(used, used + len(ts) * ns)]
        z = (y[s_] - psi[0, 0] * tf(ts)) / psi[0, 1]
        ok = all(any(abs(zz - a) < 1e-8 for a in rest) for zz in z) and \
            len(set(np.round(z, 8))) == len(z)
        if not ok:
            viol.append({
                'sub': 'prior_pop', 'message': 'a prior predictive sample of a '
                'population predictive model is not an individual drawn from the '
                'population at one prior draw plus noise variates of its own (%s)'
                % popbuild.label(spec),
                'expected': {'top': tops[s_], 'psi': psi[0],
                             'noise_from': [stream, used]},
                'observed': {'implied_noise': z}, 'behaviour': 'prior_pop'})
            break
    return {'transitions': 3, 'outcome': tol.rnd(y, 8), 'violations': viol}


def w_param_map(case):
    """Posterior predictive model with a parameter map (oracle shared with C18)."""
    from . import c18
    return c18.w_param_map(case)


def w_reduced_source(case):
    """A predictive model built from a mechanistic model that already has fixed
    parameters keeps sampling the process at ITS fixed values, whatever is done to
    the user's object (or to the predictive model) afterwards."""
    viol = []
    user = chi.ReducedMechanisticModel(RevealModel(3))
    user.fix_parameters({'q1': 2.5})
    pm = chi.PredictiveModel(user, [chi.GaussianErrorModel() for _ in range(3)])
    times = [0.5, 1.25]
    fixed = {'q1': 2.5}             # what the predictive model holds fixed

    def expected():
        theta = {'q0': 1.5, 'q1': None, 'q2': 3.5}
        theta.update(fixed)
        q = [theta['q0'], theta['q1'], theta['q2']]
        return np.array([[q[j] * tf(t) for t in times] for j in range(3)])

    def observe():
        free = [n_ for n_ in ('q0', 'q2') if n_ not in fixed]
        x = [{'q0': 1.5, 'q2': 3.5}[n_] for n_ in free] + [0.1, 0.1, 0.1]
        with Seam(Script(base=zero_z)):
            A = np.asarray(pm.sample(x, times, n_samples=1, seed=3,
                                     return_df=False), dtype=float)[:, :, 0]
        return A
    ntr = 1
    for op in [None] + list(case['ops']):
        if op == 'user_refix':
            user.fix_parameters({'q1': 9.0})
        elif op == 'user_release':
            user.fix_parameters({'q1': None})
        elif op == 'user_fix_other':
            user.fix_parameters({'q0': 7.0})
        elif op == 'user_simulate':
            n_free = user.n_parameters()
            user.simulate([4.0 + k_ for k_ in range(n_free)], times)
        elif op == 'pred_fix_other':
            pm.fix_parameters({'q2': 5.5})
            fixed['q2'] = 5.5
        elif op == 'pred_refix':
            pm.fix_parameters({'q1': 0.7})
            fixed['q1'] = 0.7
        ntr += 2
        got, exp = observe(), expected()
        if got.shape != exp.shape or not tol.allclose(got, exp):
            viol.append({'sub': 'reduced_source', 'message': 'predictive model built '
                         'from a mechanistic model with fixed parameters does not '
                         'sample at its own fixed values after %s' % case['ops'],
                         'expected': exp, 'observed': got,
                         'behaviour': 'reduced_source'})
            break
    return {'transitions': ntr, 'outcome': key_of([case['ops'], tol.rnd(got)]),
            'violations': viol}


def w_fixed_error(case):
    """A predictive model with fixed mechanistic / error parameters samples the
    process at the substituted vector: mechanistic output + (sigma_base + sigma_rel
    * output) * noise under a constant-noise script."""
    viol = []
    pm = chi.PredictiveModel(RevealModel(1), [
        chi.ConstantAndMultiplicativeGaussianErrorModel()])
    full = {'q0': 1.7, 'Sigma base': 0.3, 'Sigma rel.': 0.2}
    fixed = {}
    for step in case['steps']:
        pm.fix_parameters(dict(step))
        for k_, v_ in step:
            if v_ is None:
                fixed.pop(k_, None)
            else:
                fixed[k_] = v_
    free = [n_ for n_ in full if n_ not in fixed]
    if list(pm.get_parameter_names()) != free:
        viol.append({'sub': 'fixed_names', 'message': 'predictive model does not '
                     'list the free parameters after %s' % case['steps'],
                     'expected': free, 'observed': list(pm.get_parameter_names()),
                     'behaviour': 'fixed_error'})
        return {'transitions': 2, 'outcome': 'names', 'violations': viol}
    v = dict(full)
    v.update(fixed)
    times = [0.5, 1.25, 2.0]
    x = [full[n_] for n_ in free]
    res = []
    for zval in (0.0, 1.0):
        def base(stream, index, kind, n=None, zval=zval):
            return zval if kind == 'z' else (0.5 if kind == 'u' else 0)
        with Seam(Script(base=base)):
            res.append(np.asarray(pm.sample(x, times, n_samples=2, seed=3,
                                            return_df=False), dtype=float))
    # under the generic script every (time, sample) cell has its own noise variate
    with Seam(Script(base=generic)):
        Ag = np.asarray(pm.sample(x, times, n_samples=3, seed=3, return_df=False),
                        dtype=float)
    if Ag.shape != (1, len(times), 3) or any(
            Ag[0, t_, a_] == Ag[0, t_, b_] for t_ in range(len(times))
            for a_ in range(3) for b_ in range(a_ + 1, 3)):
        viol.append({'sub': 'fixed_noise', 'message': 'samples of a predictive model '
                     'with fixed parameters %s share their noise realisation'
                     % sorted(fixed), 'steps': case['steps'],
                     'expected': 'pairwise different samples', 'observed': Ag,
                     'behaviour': 'fixed_error'})
    ybar = v['q0'] * tf(times)
    e0 = np.repeat(ybar[np.newaxis, :, np.newaxis], 2, axis=2)
    e1 = e0 + (v['Sigma base'] + v['Sigma rel.'] * e0)
    if res[0].shape != e0.shape or not tol.allclose(res[0], e0) or \
            not tol.allclose(res[1], e1):
        viol.append({'sub': 'fixed_error', 'message': 'samples of a predictive model '
                     'with fixed parameters %s are not the process at the '
                     'substituted parameter vector' % sorted(fixed),
                     'steps': case['steps'], 'expected': [e0, e1],
                     'observed': res, 'behaviour': 'fixed_error'})
    return {'transitions': len(case['steps']) + 2,
            'outcome': key_of([case['steps'], tol.rnd(res[1])]), 'violations': viol}


def w_sbml_outputs(case):
    """PredictiveModel around the two-output library model with `outputs=` given in
    either order, the model's own outputs set beforehand or not: row j of a sample
    is output j of the list, with error model j."""
    viol = []
    m = chi.library.ModelLibrary().erlotinib_tumour_growth_inhibition_model()
    both = ['central.drug_concentration', 'global.tumour_volume']
    if case['preset'] is not None:
        m.set_outputs([both[i] for i in case['preset']])
    outs = [both[i] for i in case['order']]
    ems = [[chi.GaussianErrorModel(), chi.LogNormalErrorModel()][i]
           for i in case['order']]
    pm = chi.PredictiveModel(m, ems, outputs=list(outs))
    if list(pm.get_output_names()) != outs:
        viol.append({'sub': 'sbml_output_names', 'message': 'output names of the '
                     'predictive model are not the requested list',
                     'expected': outs, 'observed': list(pm.get_output_names()),
                     'behaviour': 'sbml_outputs'})
    n = pm.n_parameters()
    names = list(pm.get_parameter_names())
    theta = [0.3 + 0.17 * k_ for k_ in range(n)]
    times = [0.5, 1.5, 2.5]
    with Seam(Script(base=zero_z)):
        A = np.asarray(pm.sample(theta, times, n_samples=1, seed=3,
                                 return_df=False), dtype=float)[:, :, 0]
    ref = chi.library.ModelLibrary().erlotinib_tumour_growth_inhibition_model()
    ref.set_outputs(list(outs))
    n_mech = ref.n_parameters()
    y = np.asarray(ref.simulate(theta[:n_mech], times), dtype=float)
    # zero noise: Gaussian rows are the output itself, log-normal rows the output
    # times exp(-sigma^2 / 2) (documented mean-preserving parametrisation)
    exp = y.copy()
    for j, i in enumerate(case['order']):
        if i == 1:
            sig = theta[n_mech + j]
            exp[j] = y[j] * np.exp(-sig ** 2 / 2)
    if A.shape != exp.shape or not tol.allclose(A, exp, tol.ODE_REL, tol.ODE_ABS):
        viol.append({'sub': 'sbml_outputs', 'message': 'rows of the sample are not '
                     'the requested outputs in the requested order with their own '
                     'error models (outputs=%s, model preset %s)'
                     % (case['order'], case['preset']), 'expected': exp,
                     'observed': A, 'names': names, 'behaviour': 'sbml_outputs'})
    return {'transitions': 4, 'outcome': key_of([case, tol.rnd(A, 6)]),
            'violations': viol}


def w_pam(case):
    ns = case['n_samples']
    times = case['times']
    ts = np.sort(times)
    weights = case['weights']
    assign = case['assign']           # scripted model index per sample
    viol = []
    models = [chi.PosteriorPredictiveModel(
        pred_model(1), coded_posterior(2, 2, ['a', 'b'], offset=50000 * m))
        for m in range(len(weights))]
    pam = chi.PAMPredictiveModel(models, weights)

    def base(stream, index, kind, n=None):
        return 0.0 if kind == 'z' else (0.5 if kind == 'u' else 0)
    with Seam(Script(base=base)) as seam:
        pam.sample(list(times), n_samples=ns, individual='b', seed=9)
        first = seam.choice_calls[0] if seam.choice_calls else None
        ivars = [(s_, i_) for s_, i_, k_, c_ in seam.log if k_ == 'i'][:ns]
    over = {v: a for v, a in zip(ivars, assign)}
    with Seam(Script(over, base=base)) as seam:
        df = pam.sample(list(times), n_samples=ns, individual='b', seed=9)
        first = seam.choice_calls[0]
    wn = np.array(weights, dtype=float) / np.sum(weights)
    if first['p'] is None or not tol.allclose(np.array(first['p']), wn) or \
            first['n'] != len(weights) or first['stream'].startswith('global'):
        viol.append({'sub': 'weights', 'message': 'the model is not chosen with the '
                     'stated (normalised) weights from the seeded generator',
                     'expected': {'p': wn, 'stream': 'seeded'}, 'observed': first,
                     'behaviour': 'pam_weights'})
    y = _values(df, ns, ts)
    used = []
    for s in range(ns):
        q = y[s] / tf(ts)
        if np.any(np.isnan(q)) or not tol.allclose(q, np.full(len(ts), q[0])):
            viol.append({'sub': 'pam_set', 'message': 'an averaged predictive '
                         'sample does not use one parameter set',
                         'expected': 'constant', 'observed': q,
                         'behaviour': 'pam_set'})
            return {'transitions': 3, 'outcome': 'x', 'violations': viol}
        used.append(int(round(q[0])) // 50000)
    want = sorted(assign)
    if sorted(used) != want:
        viol.append({'sub': 'pam_counts', 'message': 'the number of samples taken '
                     'from each model is not the number of times it was chosen',
                     'expected': want, 'observed': sorted(used),
                     'behaviour': 'pam_counts'})
    return {'transitions': 3, 'outcome': key_of([assign, tol.rnd(y, 6)]),
            'violations': viol}


def w_regimen(case):
    """Dose rows of the table (SBML model through the solver stand-in)."""
    viol = []
    m = chi.library.ModelLibrary().one_compartment_pk_model()
    m.set_administration('central', direct=case['direct'])
    pm = chi.PredictiveModel(m, [chi.GaussianErrorModel()])
    reg = case['reg']
    if case.get('fix_first'):
        # a mechanistic parameter is fixed before the regimen is given
        pm.fix_parameters({'central.size': 1.2})
    pm.set_dosing_regimen(**{k: v for k, v in reg.items() if v is not None})
    if case.get('fix_first'):
        pm.fix_parameters({'central.size': None})
    times = case['times']
    n = pm.n_parameters()
    theta = [0.1, 0.4][:n - 3] + [1.2, 0.7][:2] + [0.05] if n == 4 else \
        [0.1, 0.2, 1.2, 1.5, 0.7, 0.05]
    theta = theta[:n]
    df = pm.sample(theta, list(times), n_samples=case['n_samples'], seed=1,
                   include_regimen=True)
    dose = df[df['Dose'].notnull()] if 'Dose' in df.columns else df.iloc[0:0]
    exp = rd.table(reg['dose'], reg.get('start', 0), reg.get('duration', 0.01),
                   reg.get('period'), reg.get('num'), max(times))
    for s in range(case['n_samples']):
        rows = sorted((float(r['Time']), float(r['Duration']), float(r['Dose']))
                      for _, r in dose[dose['ID'] == s + 1].iterrows())
        if len(rows) != len(exp) or (exp and not tol.allclose(
                np.array(rows), np.array(exp))):
            viol.append({'sub': 'dose_rows', 'message': 'dose rows of the sample '
                         'table are not the dose events applied up to the last '
                         'time', 'expected': exp, 'observed': rows,
                         'behaviour': 'pred_dose_rows'})
            break
    return {'transitions': 2, 'outcome': key_of([reg, len(dose)]),
            'violations': viol}


WORKERS = {'predictive': w_pred, 'population': w_poppred, 'posterior': w_posterior,
           'prior': w_prior, 'pam': w_pam, 'regimen': w_regimen,
           'wrapped_regimen': _c10.w_wrapped_table, 'fixed_error': w_fixed_error,
           'sbml_outputs': w_sbml_outputs,
           'prior_population': w_prior_pop, 'param_map': w_param_map,
           'reduced_source': w_reduced_source}


def build(tier, seed):
    t3 = [0.5, 1.25, 2.0]
    perms = [list(p) for p in itertools.permutations(t3)]
    pred = []
    for k in (1, 2) if tier == 'quick' else (1, 2, 3):
        for ns in (1, 2) if tier == 'quick' else (1, 2, 3):
            for p in perms + [[1.25, 0.5, 1.25], [2.0, 2.0, 0.5, 2.0]]:
                # (the last two: replicate measurements at one time)
                pred.append({'k': k, 'n_samples': ns, 'times': p})
    pops = [rp.Comp([rp.G(1), rp.LN(1)]), rp.Comp([rp.LN(1, False), rp.P(1)]),
            rp.Comp([rp.G(1, False), rp.LN(1, False)]), rp.LN(2),
            rp.Comp([rp.P(1), rp.LN(1)]), rp.Comp([rp.Cov(rp.LN(1), 1), rp.P(1)]),
            rp.Comp([rp.Cov(rp.LN(1, False), 2), rp.LN(1)]),
            rp.Comp([rp.Cov(rp.P(1), 1), rp.LN(1)]),
            # two covariate sub-models reading different covariate columns
            rp.Comp([rp.Cov(rp.G(1), 1), rp.Cov(rp.LN(1), 2)]),
            rp.Comp([rp.Cov(rp.LN(1, False), 2), rp.Cov(rp.LN(1), 1)]),
            # covariate models around multi-dimensional models
            rp.Cov(rp.LN(2), 1), rp.Cov(rp.LN(2, False), 2), rp.Cov(rp.LN(2), 2),
            # no random effects at all, yet the patients differ by their covariates
            rp.Cov(rp.P(2), 1), rp.Comp([rp.Cov(rp.P(1), 2), rp.P(1)]),
            rp.Comp([rp.Cov(rp.P(1), 1), rp.Cov(rp.P(1), 1)]),
            rp.Comp([rp.P(1), rp.Cov(rp.P(1), 1)])]
    popc = []
    for spec in pops:
        for ns in (1, 2, 3):
            for prev in (None, 3):
                for p in (perms[:2] if tier == 'quick' else perms):
                    top = popvals.top_values(spec, 1, seed, positive=True)
                    ncov = rp.n_cov(spec)
                    covs = [None]
                    if ncov:
                        mat = popvals.covariates(spec, ns, seed)
                        covs = [mat.tolist(), mat[0].tolist()]
                    for cov in covs:
                        for st in ('int', 'np.int64', 'generator'):
                            if st != 'int' and (prev or p != perms[0]):
                                continue
                            popc.append({'spec': spec, 'n_samples': ns, 'times': p,
                                         'top': top, 'cov': cov, 'prev_n_ids': prev,
                                         'seed_type': st})
    post = []
    for nc, nd in ((2, 3), (1, 2)) if tier == 'quick' else ((2, 3), (1, 2), (3, 2)):
        rows = nc * nd
        for pad in (False, True):
            for ind in ('a', 'b'):
                for ns in (1, 2):
                    for ans in itertools.product(range(rows), repeat=ns):
                        for pooled, dfirst in ((False, False), (True, False),
                                               (True, True), (False, True)):
                            if dfirst and (pad or ns == 2 and nd == 3):
                                continue
                            post.append({'draw_first': dfirst,
                                         'n_chains': nc, 'n_draws': nd,
                                         'inds': ['a', 'b'], 'individual': ind,
                                         'n_samples': ns, 'times': perms[3],
                                         'answers': list(ans), 'pad': pad,
                                         'pooled_sigma': pooled})
    # no individual named: the FIRST ID of the dataset (IDs not in sorted order)
    for nc, nd in ((2, 3), (1, 2)):
        for inds_ in (['b', 'a'], ['pat-2', 'pat-10', 'pat-1'], ['a', 'b']):
            for ans in range(nc * nd):
                post.append({'draw_first': False, 'n_chains': nc, 'n_draws': nd,
                             'inds': inds_, 'individual': None, 'n_samples': 1,
                             'times': perms[3], 'answers': [ans], 'pad': False,
                             'pooled_sigma': False})
    # one object asked for one individual after the other
    for nc, nd in ((2, 3), (1, 2)):
        for ind, prev in (('a', 'b'), ('b', 'a'), ('b', 'b')):
            for ans in range(nc * nd):
                for pooled in (False, True):
                    post.append({'draw_first': False, 'n_chains': nc, 'n_draws': nd,
                                 'inds': ['a', 'b'], 'individual': ind,
                                 'n_samples': 1, 'times': perms[3],
                                 'answers': [ans], 'pad': False,
                                 'pooled_sigma': pooled, 'prev': prev})
    # individuals whose chains have different numbers of draws: every row of the
    # selected (longest) individual can be chosen
    for nc, nd in ((2, 3), (1, 3)):
        for li, ind in enumerate(['a', 'b', 'c']):
            for ans in range(nc * nd):
                post.append({'draw_first': False, 'n_chains': nc, 'n_draws': nd,
                             'inds': ['a', 'b', 'c'], 'individual': ind,
                             'n_samples': 1, 'times': perms[3], 'answers': [ans],
                             'pad': False, 'pooled_sigma': False, 'longer': li})
    prior = [{'n_samples': ns, 'times': p, 'seed': sd, 'k': k}
             for k in (1, 2, 3) for ns in (1, 2, 3) for p in perms[:3]
             for sd in (3, 8)]
    fv = {'q0': 2.4, 'Sigma base': 0.55, 'Sigma rel.': 0.35}
    fixed_err = [{'steps': []}]
    for r_ in (1, 2, 3):
        for sub in itertools.combinations(list(fv), r_):
            if r_ == 3:
                continue
            for order in itertools.permutations(sub):
                fixed_err.append({'steps': [[[k_, fv[k_]] for k_ in order]]})
                if r_ == 2:
                    fixed_err.append({'steps': [[[order[0], fv[order[0]]]],
                                                [[order[1], fv[order[1]]]]]})
            # fixed, then re-fixed at another value / released again
            fixed_err.append({'steps': [[[k_, fv[k_]] for k_ in sub],
                                        [[sub[0], fv[sub[0]] * 0.5]]]})
            fixed_err.append({'steps': [[[k_, fv[k_]] for k_ in sub],
                                        [[sub[-1], None]]]})
    from . import c18 as _c18
    wrapped_regs = [c for part in _c10.build('quick', seed)['parts']
                    if part.name == 'wrapped_table' for c in part.cases]
    pmaps = [c for part in _c18.build('quick', seed)['parts']
             if part.name == 'param_map' for c in part.cases]
    rs_ops = ['user_refix', 'user_release', 'user_fix_other', 'user_simulate',
              'pred_fix_other', 'pred_refix']
    red_src = [{'ops': list(seq)} for d in (1, 2, 3)
               for seq in itertools.product(rs_ops, repeat=d)]
    prior_pop = []
    for spec in (rp.Comp([rp.LN(1), rp.LN(1)]), rp.Comp([rp.G(1), rp.P(1)]),
                 rp.Comp([rp.P(1), rp.LN(1, False)])):
        for ns in (1, 2, 3):
            for sd in (3, 8):
                prior_pop.append({'spec': spec, 'n_samples': ns, 'times': perms[1],
                                  'seed': sd})
    pam = []
    for weights in ([1.0, 1.0], [0.2, 0.6], [3.0, 1.0, 1.0]):
        for ns in (1, 2, 3):
            for assign in itertools.product(range(len(weights)), repeat=ns):
                pam.append({'weights': weights, 'n_samples': ns,
                            'assign': list(assign), 'times': perms[4]})
    regs = []
    for reg in ({'dose': 2.0, 'start': 0.5, 'duration': 0.25},
                {'dose': 1.0, 'start': 0.0, 'duration': 0.1, 'period': 1.0},
                {'dose': 1.0, 'start': 0.3, 'duration': 0.1, 'period': 0.5,
                 'num': 3}):
        for direct in (True, False):
            for ns in (1, 2):
                regs.append({'reg': reg, 'direct': direct, 'n_samples': ns,
                             'times': [2.2, 0.4, 1.1]})
                if ns == 2:
                    regs.append({'reg': reg, 'direct': direct, 'n_samples': ns,
                                 'times': [2.2, 0.4, 1.1], 'fix_first': True})
    return {
        'parts': [
            Part('predictive', pred, w_pred, 'PredictiveModel: outputs x samples x '
                 'all permutations of 3 times; every noise variate moved'),
            Part('population', popc, w_poppred, 'PopulationPredictiveModel: '
                 'population structures x n_samples x previous n_ids x covariates'),
            Part('posterior', post, w_posterior, 'PosteriorPredictiveModel: every '
                 'tuple of (chain, draw) answers on a coded posterior'),
            Part('param_map', pmaps, w_param_map,
                 'PosteriorPredictiveModel: every injective parameter map (as C18)'),
            Part('reduced_source', red_src, w_reduced_source,
                 'predictive model built from a reduced mechanistic model: all '
                 'sequences of <= 3 later operations on the user object / the '
                 'predictive model'),
            Part('prior_population', prior_pop, w_prior_pop,
                 'PriorPredictiveModel around a PopulationPredictiveModel'),
            Part('prior', prior, w_prior, 'PriorPredictiveModel vs pints draws '
                 'under the same script'),
            Part('pam', pam, w_pam, 'PAMPredictiveModel: all model assignments, '
                 'probabilities passed to choice'),
            Part('fixed_error', fixed_err, w_fixed_error,
                 'predictive model with every subset of (mechanistic, error) '
                 'parameters fixed in one or two calls, re-fixed, released'),
            Part('sbml_outputs', [{'order': list(o_), 'preset': p_}
                                  for o_ in ((0, 1), (1, 0))
                                  for p_ in (None, [0, 1], [1, 0], [0], [1])],
                 w_sbml_outputs, 'two-output library model: outputs= in either '
                 'order x outputs set on the model beforehand'),
            Part('regimen', regs, w_regimen, 'dose rows of sample tables'),
            Part('wrapped_regimen', wrapped_regs, _c10.w_wrapped_table,
                 'dose rows of the tables of population / prior / posterior / '
                 'averaged predictive models, sorted and unsorted times (cases and '
                 'oracle of C10)'),
        ],
        'bounds': {'times': t3, 'n_samples_max': 3, 'deviation_bound': 1},
        'rule': 'complete enumeration of categorical answers (posterior rows, model '
                'assignments), time permutations and single-variate deviations; '
                'distinct = distinct returned arrays',
        'min_outcomes': {'predictive': 3, 'posterior': 10},
        'assumptions': ['revealing toy mechanistic model; numpy / pints base '
                        'generators behave as documented; population samplers '
                        'decided by C06'],
    }


META = {
    'technique': 'deviation-bounded / exhaustive exploration of scripted random '
                 'sources (every categorical answer, every single-variate deviation) '
                 'with a revealing mechanistic model that discloses the parameter set '
                 'behind each returned value',
    'level_text': 'Every noise variate is moved in turn (one cell, scaled by that '
                  'output\'s error parameter); every (chain, draw) answer tuple of a '
                  'coded posterior, every model assignment of the averaged model, '
                  'every permutation of the time vector and n_samples different from '
                  'the population model\'s previous n_ids are executed; tables are '
                  'checked to be bijective relabellings (ID, ascending time, '
                  'observable, covariates, dose rows).',
    'level_note': 'Distributional statements are reduced to statements about which '
                  'base variate / categorical answer produces which value; the '
                  'distributions of the component samplers are decided in C06.',
}
META['level_text'] += (
    ' Also: predictive models with every subset of (mechanistic, error) parameters '
    'fixed / re-fixed / released; the two-output library model with outputs= in eit'
    'her order; regimen tables of the wrapped predictive models (cases of C10); one'
    ' posterior predictive object asked for several individuals in turn; posterior '
    'datasets with individuals of different chain lengths; prior predictive models '
    'with 1-3 outputs.')
