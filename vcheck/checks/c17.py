"""C17 — parameter counts, names, vector lengths and gradient lengths always agree.

Shape (A + B): (a) every composition of population sub-models (C02 space), in a
hierarchical likelihood / posterior: n_parameters == number of names == number of IDs ==
accepted vector length == gradient length, non-None IDs exactly on the individual-level
entries, ID-prefixed names pairwise distinct, composite name order = concatenation of
the sub-models' orders; (b) BFS over reconfiguration histories on population models
(set_n_ids, set_dim_names, set_parameter_names, wrapping + fix_parameters,
set_population_parameters) with the same invariants after every history; (c) the other
object classes (likelihood, predictive models, controller, mechanistic models) after
their reconfiguration calls."""
import itertools

import numpy as np
import pandas as pd
import pints

import chi
import chi.library

from ..core import tol, vals
from ..core.engine import Part, bfs, key_of
from ..gen import hier, popbuild, popvals
from ..gen.toymodel import ToyModel
from ..ref import populations as rp

PROPERTY = 'C17'


# --------------------------------------------------------------- (a) hierarchical

def w_hier(case):
    viol = []
    lab = popbuild.label(case['spec']) + ' n_ids=%d' % case['n_ids']
    hl = hier.build(case)
    x = np.array(case['vec'], dtype=float)
    objs = [('likelihood', hl)]
    nt = rp.n_top(case['spec'], case['n_ids'])
    nb = rp.n_bottom(case['spec'], case['n_ids'])
    if nt > 0:
        # (no prior exists over zero population-level parameters)
        post = chi.HierarchicalLogPosterior(hl, hier.build_prior(nt))
        objs.append(('posterior', post))
    for name, o in objs:
        lists_are_copies(viol, 'hierarchical ' + name, o.get_parameter_names,
                         o.get_id, lambda: o.get_parameter_names(include_ids=True))
        n = o.n_parameters()
        names = list(o.get_parameter_names())
        named = list(o.get_parameter_names(include_ids=True))
        ids = list(o.get_id())
        facts = {'n_parameters': n, 'n_names': len(names), 'n_ids': len(ids),
                 'n_named': len(named),
                 'n_top': o.n_parameters(exclude_bottom_level=True),
                 'n_top_names': len(o.get_parameter_names(
                     exclude_bottom_level=True))}
        try:
            s, g = o.evaluateS1(x.copy())
            facts['n_grad'] = len(g)
            facts['accepts'] = bool(np.isfinite(o(x.copy())))
        except Exception as e:
            facts['n_grad'] = 'raise:%s' % type(e).__name__
            facts['accepts'] = False
        exp = {'n_parameters': nb + nt, 'n_names': nb + nt, 'n_ids': nb + nt,
               'n_named': nb + nt, 'n_grad': nb + nt, 'accepts': True,
               'n_top': nt, 'n_top_names': nt}
        if facts != exp:
            viol.append({'sub': 'agree', 'message': 'counts / names / IDs / vector / '
                         'gradient lengths disagree on the hierarchical %s (%s)'
                         % (name, lab), 'expected': exp, 'observed': facts,
                         'behaviour': 'agree'})
            continue
        if name == 'posterior':
            # outside the support of the prior (and at a rejected population
            # value): the gradient keeps its length
            up = chi.HierarchicalLogPosterior(hl, pints.ComposedLogPrior(*[
                pints.UniformLogPrior(100, 101) for _ in range(nt)]))
            lens = {}
            for tag, o2, xx in (('outside_prior', up, x),
                                ('negated_top', o, np.concatenate(
                                    (x[:nb], -np.abs(x[nb:]))))):
                try:
                    s2, g2 = o2.evaluateS1(xx.copy())
                    lens[tag] = len(g2)
                except Exception as e:
                    lens[tag] = 'raise:%s' % type(e).__name__
            if any(v != nb + nt for v in lens.values()):
                viol.append({'sub': 'grad_rejected', 'message': 'gradient returned '
                             'at a rejected point does not have length n_parameters '
                             '(%s)' % lab, 'expected': nb + nt, 'observed': lens,
                             'behaviour': 'grad_rejected'})
        marks = [i is not None for i in ids]
        if marks != [True] * nb + [False] * nt:
            viol.append({'sub': 'id_marks', 'message': 'non-None IDs do not mark '
                         'exactly the individual-level entries (%s)' % lab,
                         'expected': [nb, nt], 'observed': marks,
                         'behaviour': 'id_marks'})
        if len(set(named)) != len(named):
            dup = sorted(set(n_ for n_ in named if named.count(n_) > 1))
            viol.append({'sub': 'distinct', 'message': 'ID-prefixed default names '
                         'are not pairwise distinct (%s)' % lab,
                         'expected': 'distinct', 'observed': dup,
                         'behaviour': 'distinct'})
        if o.n_parameters(exclude_bottom_level=True) != nt or len(
                o.get_parameter_names(exclude_bottom_level=True)) != nt:
            viol.append({'sub': 'top', 'message': 'top-level count/names disagree '
                         '(%s)' % lab, 'expected': nt, 'observed': [
                             o.n_parameters(exclude_bottom_level=True),
                             len(o.get_parameter_names(exclude_bottom_level=True))]})
    # composite order = concatenation of the sub-model orders
    pop = hl.get_population_model()
    if case['spec']['kind'] == 'Comp':
        cat = []
        for sub in pop.get_population_models():
            cat += sub.get_parameter_names()
        if cat != pop.get_parameter_names():
            viol.append({'sub': 'order', 'message': 'composite names are not the '
                         'concatenation of the sub-model names (%s)' % lab,
                         'expected': cat, 'observed': pop.get_parameter_names(),
                         'behaviour': 'order'})
    return {'transitions': 8, 'outcome': key_of([lab, hl.n_parameters()]),
            'violations': viol}


# --------------------------------------------------- (b) population model histories

POP_BASES = {
    'G2': rp.G(2), 'LNnc1': rp.LN(1, False), 'TG1': rp.TG(1), 'P2': rp.P(2),
    'H1': rp.H(1), 'H2': rp.H(2),
    'covG2': rp.Cov(rp.G(2), 2), 'covP1': rp.Cov(rp.P(1), 1),
    'comp': rp.Comp([rp.G(1), rp.H(1), rp.P(1)]),
    'comp2': rp.Comp([rp.H(2), rp.Cov(rp.LN(1, False), 1)]),
    'nested': rp.Comp([rp.Comp([rp.G(1), rp.P(1)]), rp.H(1)]),
}
POP_OPS = ['n1', 'n2', 'n3', 'dims', 'dims0', 'pnames', 'pnames0', 'wrap', 'wrapfix',
           'fixlast', 'release', 'sel', 'seldup', 'selx']


def lists_are_copies(viol, label, *getters):
    """Name / ID lists handed out are the caller's: extending one must not show in
    the next one."""
    for g in getters:
        try:
            first = g()
            if not isinstance(first, list):
                continue
            before = list(first)
            first.append('appended by the caller')
            if len(first) > 1:
                first[0] = 'overwritten by the caller'
            if list(g()) != before:
                viol.append({'sub': 'list_alias', 'message': 'a name / ID list '
                             'handed out by %s is the object\'s own list: changes '
                             'made by the caller show up in later answers' % label,
                             'expected': before, 'observed': list(g()),
                             'behaviour': 'list_alias'})
                return
        except TypeError:
            continue


def check_pop(m, viol, lab):
    """Invariants of a population model in its current configuration."""
    n_ids = m.n_ids() if not isinstance(m, chi.ReducedPopulationModel) \
        else m.get_population_model().n_ids()
    lists_are_copies(viol, 'population model ' + lab, m.get_parameter_names,
                     m.get_dim_names, m.get_covariate_names)
    n = m.n_parameters()
    names = m.get_parameter_names()
    facts = {'n_parameters': n, 'n_names': len(names),
             'n_names_nodim': len(m.get_parameter_names(exclude_dim_names=True)),
             'n_dim_names': len(m.get_dim_names()), 'n_dim': m.n_dim(),
             'n_cov_names': len(m.get_covariate_names()), 'n_cov': m.n_covariates()}
    nb, nt = m.n_hierarchical_parameters(n_ids)
    facts['n_top'] = int(nt)
    facts['n_bottom'] = int(nb)
    exp = dict(facts)
    exp.update({'n_names': n, 'n_names_nodim': n, 'n_dim_names': m.n_dim(),
                'n_cov_names': m.n_covariates(), 'n_top': n,
                'n_bottom': n_ids * m.n_hierarchical_dim()})
    if facts != exp:
        viol.append({'sub': 'pop_agree', 'message': 'population model counts / '
                     'names disagree (%s)' % lab, 'expected': exp,
                     'observed': facts, 'behaviour': 'pop_agree'})
        return None
    if len(set(names)) != len(names):
        viol.append({'sub': 'pop_distinct', 'message': 'population model reports the '
                     'same name for several parameters (%s)' % lab,
                     'expected': 'pairwise distinct names',
                     'observed': sorted(n_ for n_ in set(names)
                                        if names.count(n_) > 1),
                     'behaviour': 'pop_distinct'})
        return None
    # the model accepts a vector of that length and returns gradients of that length
    top = np.array(vals.reals('c17.top', n, 0.6, 1.4, 0))
    cov = None
    if m.n_covariates():
        cov = np.array(vals.reals('c17.cov', n_ids * m.n_covariates(), 0.2, 1, 0)
                       ).reshape(n_ids, m.n_covariates())
    eta = np.array(vals.reals('c17.eta', n_ids * m.n_dim(), 0.5, 1.5, 0)
                   ).reshape(n_ids, m.n_dim())
    kw = {'covariates': cov} if cov is not None else {}
    try:
        psi = m.compute_individual_parameters(top, eta, **kw)
        obs = m.compute_individual_parameters(top, eta, return_eta=True, **kw)
        s, ds = m.compute_sensitivities(
            top, obs, dlogp_dpsi=np.ones((n_ids, m.n_dim())), reduce=True, **kw)
        smp = m.sample(top, n_samples=n_ids, seed=1, **kw)
        got = {'psi': list(np.shape(psi)), 'grad': len(ds),
               'sample': list(np.shape(smp))}
    except Exception as e:
        import traceback
        got = {'raise': '%s: %s' % (type(e).__name__, str(e)[:120]),
               'tb': traceback.format_exc()[-500:]}
    want = {'psi': [n_ids, m.n_dim()], 'grad': int(nb + nt),
            'sample': [n_ids, m.n_dim()]}
    if got != want:
        viol.append({'sub': 'pop_accept', 'message': 'population model does not '
                     'accept / return vectors of its reported lengths (%s)' % lab,
                     'expected': want, 'observed': got,
                     'behaviour': 'pop_accept' if 'raise' not in got
                     else 'pop_accept_raise'})
    return facts


def w_pop_history(case):
    base, history = case[0], case[1:]
    spec = POP_BASES[base]
    m = popbuild.build(spec, None)
    viol = []
    fixed_names = set()
    for op in history:
        inner = m.get_population_model() if isinstance(
            m, chi.ReducedPopulationModel) else m
        full_old = inner.get_parameter_names()
        if op in ('n1', 'n2', 'n3'):
            m.set_n_ids(int(op[1]))
        elif op == 'dims':
            m.set_dim_names(['d%d' % i for i in range(m.n_dim())])
        elif op == 'dims0':
            m.set_dim_names(None)
        elif op == 'pnames0':
            m.set_parameter_names(None)
        elif op == 'pnames':
            # exactly one name per (free) parameter
            given = ['q%d' % i for i in range(m.n_parameters())]
            m.set_parameter_names(given)
            kept = list(m.get_parameter_names(exclude_dim_names=True))
            # (a covariate model appends the covariate's name to the given one)
            if len(kept) != len(given) or not all(
                    k_.startswith(g_) for k_, g_ in zip(kept, given)):
                viol.append({'sub': 'pnames_kept', 'message': 'the names given to '
                             'set_parameter_names are not carried by the names '
                             'reported afterwards, position by position (%s)' % base, 'expected': given,
                             'observed': kept, 'behaviour': 'pnames_kept'})
        elif op == 'wrap':
            if not isinstance(m, chi.ReducedPopulationModel):
                m = chi.ReducedPopulationModel(m)
        elif op in ('wrapfix', 'fixlast'):
            if not isinstance(m, chi.ReducedPopulationModel):
                m = chi.ReducedPopulationModel(m)
            if m.n_parameters() > 0:
                which = 0 if op == 'wrapfix' else -1
                fixed_names.add(m.get_parameter_names()[which])
                m.fix_parameters({m.get_parameter_names()[which]: 0.9})
        elif op == 'release':
            if isinstance(m, chi.ReducedPopulationModel):
                full = m.get_population_model().get_parameter_names()
                m.fix_parameters({k: None for k in full})
                fixed_names = set()
        elif op == 'seldup':
            # a pair given twice with another pair of the same dimension in between
            if isinstance(m, chi.CovariatePopulationModel) and \
                    m.n_parameters() - m.n_covariates() >= 2 * m.n_dim():
                m.set_population_parameters([[0, 0], [1, 0], [0, 0]])
        elif op == 'selx':
            # both parameters of the last dimension: the covariate parameters carry
            # the names of exactly the selected parameters
            if isinstance(m, chi.CovariatePopulationModel) and m.n_dim() >= 2 and \
                    m.n_parameters() - m.n_covariates() * 0 >= 2 * m.n_dim():
                d_ = m.n_dim()
                n_c = m.n_covariates()
                pairs = [[0, d_ - 1], [1, d_ - 1]]
                before_names = m.get_parameter_names()
                m.set_population_parameters(pairs)
                names_x = m.get_parameter_names()
                n_pop_x = len(names_x) - len(pairs) * n_c
                pop_x, cov_x = names_x[:n_pop_x], names_x[n_pop_x:]
                if n_pop_x >= 2 * d_ and pop_x == before_names[:n_pop_x]:
                    want = sorted(pop_x[p_ * d_ + k_] for p_, k_ in pairs
                                  for _ in range(n_c))
                    got_pref = sorted(
                        max([q for q in pop_x if c_.startswith(q)] or [''],
                            key=len) for c_ in cov_x)
                    if got_pref != want:
                        viol.append({
                            'sub': 'sel_names', 'message': 'after selecting the '
                            'pairs %s the covariate parameters are not named after '
                            'the selected population parameters' % pairs,
                            'expected': want, 'observed': cov_x,
                            'behaviour': 'sel_names'})
        elif op == 'sel':
            # (a reduced wrapper does not offer this call; reaching through to the
            # wrapped model behind the wrapper's back is not a reconfiguration of
            # the wrapper)
            if isinstance(m, chi.CovariatePopulationModel):
                m.set_population_parameters([[0, 0]])
        # fixed parameters are followed by position through renamings and by name
        # through changes of the parameter set (set_n_ids)
        if op not in ('wrap', 'wrapfix', 'fixlast', 'release'):
            full_new = inner.get_parameter_names()
            if len(full_new) == len(full_old):
                fixed_names = set(full_new[i] for i, n_ in enumerate(full_old)
                                  if n_ in fixed_names)
            else:
                fixed_names = fixed_names & set(full_new)
    lab = '%s after %s' % (base, '>'.join(history) or '-')
    facts = check_pop(m, viol, lab)
    if isinstance(m, chi.ReducedPopulationModel) and not viol:
        # the wrapper exposes exactly the parameters that were not fixed by name
        # (names that disappeared with a change of n_ids are forgotten) and
        # substitutes the fixed value for the others
        inner = m.get_population_model()
        full_names = inner.get_parameter_names()
        e_names = [n_ for n_ in full_names if n_ not in fixed_names]
        if m.get_parameter_names() != e_names:
            viol.append({'sub': 'red_names', 'message': 'reduced population model '
                         'does not list the parameters that were not fixed (%s)'
                         % base, 'expected': e_names,
                         'observed': m.get_parameter_names(),
                         'behaviour': 'red_names'})
        elif e_names:
            n_ids = inner.n_ids()
            x = np.array(vals.reals('c17.red', len(e_names), 0.6, 1.4, 0))
            it = iter(x)
            full = np.array([0.9 if n_ in fixed_names else next(it)
                             for n_ in full_names])
            cov = None
            if m.n_covariates():
                cov = np.array(vals.reals(
                    'c17.cov', n_ids * m.n_covariates(), 0.2, 1, 0)
                ).reshape(n_ids, m.n_covariates())
            kw = {'covariates': cov} if cov is not None else {}
            eta = np.array(vals.reals('c17.eta', n_ids * m.n_dim(), 0.5, 1.5, 0)
                           ).reshape(n_ids, m.n_dim())
            obs = inner.compute_individual_parameters(
                full, eta, return_eta=True, **kw)
            a = m.compute_log_likelihood(x, obs, **kw)
            b = inner.compute_log_likelihood(full, obs, **kw)
            if not tol.close(a, b):
                viol.append({'sub': 'red_subst', 'message': 'reduced population '
                             'model does not substitute the fixed values of the '
                             'parameters fixed by name (%s)' % base, 'expected': b,
                             'observed': a, 'behaviour': 'red_subst'})
    for v in viol:
        v['history'] = history
        v['message'] = v['message'].split(' (')[0] + ' (%s)' % base
    return {'state': key_of([base, facts, isinstance(
        m, chi.ReducedPopulationModel), m.get_parameter_names()]),
        'transitions': len(history) + 6, 'outcome': key_of(facts),
        'violations': viol}


def w_ctor(case):
    """Composed model whose heterogeneous sub-models were constructed for their own
    numbers of individuals (all counts > 1 equal, as the constructor demands), then a
    sequence of set_n_ids calls; counts / names / accepted lengths after every step."""
    subs = []
    for kind, d, n in case['subs']:
        if kind == 'H':
            subs.append(chi.HeterogeneousModel(n_dim=d, n_ids=n))
        elif kind == 'CovH':
            subs.append(chi.CovariatePopulationModel(
                chi.HeterogeneousModel(n_dim=d, n_ids=n),
                chi.LinearCovariateModel(n_cov=1)))
        elif kind == 'CompH':
            subs.append(chi.ComposedPopulationModel(
                [chi.HeterogeneousModel(n_dim=d, n_ids=n)]))
        elif kind == 'RedH':
            subs.append(chi.ReducedPopulationModel(
                chi.HeterogeneousModel(n_dim=d, n_ids=n)))
        elif kind == 'G':
            subs.append(chi.GaussianModel(n_dim=d))
        else:
            subs.append(chi.PooledModel(n_dim=d))
    viol = []
    m = chi.ComposedPopulationModel(subs)
    lab = 'Composed%s' % case['subs']
    facts = [check_pop(m, viol, lab + ' as constructed')]
    n_max = max(n for _, _, n in case['subs'])
    if not viol and m.n_ids() != n_max:
        beh = 'ctor_n_ids'
        others_max = max([n for kd, _, n in case['subs'] if kd != 'RedH'] or [1])
        red = [s_ for s_ in subs if isinstance(s_, chi.ReducedPopulationModel)]
        if red and m.n_ids() == others_max and all(
                s_.n_ids() == 1 and s_.get_population_model().n_ids() >= 1
                for s_ in red):
            # known finding F-C17-reduced-n-ids: the wrapper reports one individual
            # whatever its wrapped model holds, and the composition counts with that
            beh = 'reduced_n_ids'
        viol.append({'sub': 'ctor_n_ids', 'message': 'composed model does not model '
                     'the number of individuals its sub-models were constructed for '
                     '(%s)' % lab, 'expected': n_max, 'observed': m.n_ids(),
                     'behaviour': beh})
    for k, n in enumerate(case['then']):
        if viol:
            break
        m.set_n_ids(n)
        facts.append(check_pop(m, viol, lab + ' then set_n_ids %s'
                               % case['then'][:k + 1]))
        if not viol and m.n_ids() != n:
            viol.append({'sub': 'n_ids', 'message': 'n_ids() after set_n_ids (%s)'
                         % lab, 'expected': n, 'observed': m.n_ids()})
    if not viol:
        # and as the population model of a hierarchical likelihood
        n_ids = m.n_ids()
        lls = [chi.LogLikelihood(ToyModel(m.n_dim() - 1, 1),
                                 chi.GaussianErrorModel(), [1.0, 2.0], [0.5, 1.5])
               for _ in range(n_ids)]
        cov = np.full((n_ids, m.n_covariates()), 0.3) if m.n_covariates() else None
        h = chi.HierarchicalLogLikelihood(lls, m, cov)
        f = {'n': h.n_parameters(), 'names': len(h.get_parameter_names()),
             'ids': len(h.get_id()),
             'grad': len(h.evaluateS1(np.full(h.n_parameters(), 0.9))[1])}
        if len(set(f.values())) != 1:
            viol.append({'sub': 'hier_agree', 'message': 'hierarchical likelihood '
                         'counts / names / ids / gradient lengths disagree (%s)'
                         % lab, 'expected': 'equal', 'observed': f,
                         'behaviour': 'hier_agree'})
        facts.append(f)
    return {'transitions': 2 + len(case['then']), 'outcome': key_of(facts),
            'violations': viol}


# ------------------------------------------------------------- (c) other objects

def w_objects(case):
    kind = case['kind']
    viol = []

    def agree(label, n, names, accepts=None, grad=None):
        facts = {'n': n, 'names': len(names)}
        exp = {'n': n, 'names': n}
        if accepts is not None:
            facts['accepts'] = accepts
            exp['accepts'] = True
        if grad is not None:
            facts['grad'] = grad
            exp['grad'] = n
        if facts != exp:
            viol.append({'sub': 'obj_agree', 'message': 'counts / names / lengths '
                         'disagree on %s' % label, 'expected': exp,
                         'observed': facts, 'behaviour': 'obj_agree',
                         'ops': case.get('ops')})
    if kind == 'll':
        ll = chi.LogLikelihood(
            ToyModel(3, 2), [chi.GaussianErrorModel(),
                             chi.ConstantAndMultiplicativeGaussianErrorModel()],
            [[1.0, 2.0], [1.5]], [[0.1, 0.5], [0.3]], outputs=case.get('outputs'))
        for op in case['ops']:
            ll.fix_parameters(op)
        n = ll.n_parameters()
        x = np.array(vals.reals('c17.ll', n, 0.5, 1.5, 0))
        s, g = ll.evaluateS1(x)
        lists_are_copies(viol, 'LogLikelihood', ll.get_parameter_names)
        agree('LogLikelihood', n, ll.get_parameter_names(),
              bool(np.isfinite(ll(x))), len(g))
        post = chi.LogPosterior(ll, pints.ComposedLogPrior(*[
            pints.UniformLogPrior(0, 10) for _ in range(n)]))
        s, g = post.evaluateS1(x)
        agree('LogPosterior', post.n_parameters(), post.get_parameter_names(),
              bool(np.isfinite(post(x))), len(g))
    elif kind == 'pred':
        pm = chi.PredictiveModel(ToyModel(3, 2), [
            chi.GaussianErrorModel(), chi.LogNormalErrorModel()],
            outputs=case.get('outputs'))
        for op in case['ops']:
            pm.fix_parameters(op)
        n = pm.n_parameters()
        x = vals.reals('c17.pm', n, 0.5, 1.5, 0)
        smp = pm.sample(x, [0.5, 1.0], n_samples=2, seed=1, return_df=False)
        lists_are_copies(viol, 'PredictiveModel', pm.get_parameter_names,
                         pm.get_output_names)
        agree('PredictiveModel', n, pm.get_parameter_names(),
              list(smp.shape) == [pm.get_n_outputs(), 2, 2])
        if len(pm.get_output_names()) != pm.get_n_outputs():
            viol.append({'sub': 'outputs', 'message': 'output names / count '
                         'disagree', 'expected': pm.get_n_outputs(),
                         'observed': pm.get_output_names()})
    elif kind == 'free_reduced':
        # a user-made ReducedMechanisticModel with every parameter free (never
        # fixed, or fixed and released) handed to a likelihood / predictive model /
        # controller; names are asked for repeatedly
        rm = chi.ReducedMechanisticModel(ToyModel(2, 1))
        if case['released']:
            rm.fix_parameters({'p0': 1.0})
            rm.fix_parameters({'p0': None})
        if case['obj'] == 'll':
            o = chi.LogLikelihood(rm, [chi.GaussianErrorModel()], [1.0, 2.0],
                                  [0.2, 0.9])
            names_f, n_f = o.get_parameter_names, o.n_parameters
        elif case['obj'] == 'pred':
            o = chi.PredictiveModel(rm, [chi.GaussianErrorModel()])
            names_f, n_f = o.get_parameter_names, o.n_parameters
        else:
            o = chi.ProblemModellingController(rm, [chi.GaussianErrorModel()])
            o.set_data(pd.DataFrame({'ID': [1, 1], 'Time': [0.3, 1.1],
                                     'Observable': ['o0'] * 2,
                                     'Value': [1.3, 2.1]}))
            names_f, n_f = o.get_parameter_names, o.get_n_parameters
        seen = [list(names_f()) for _ in range(3)]
        if seen[0] != seen[1] or seen[1] != seen[2] or len(seen[2]) != n_f() or \
                list(rm.parameters()) != ['p0', 'p1']:
            viol.append({'sub': 'free_reduced', 'message': 'names reported '
                         'repeatedly by a %s built from a reduced mechanistic model '
                         'with all parameters free change / disagree with the count, '
                         'or the user\'s model was renamed' % case['obj'],
                         'expected': [n_f(), ['p0', 'p1']],
                         'observed': [seen, list(rm.parameters())],
                         'behaviour': 'free_reduced'})
        else:
            o.fix_parameters({'p1': 0.8})
            agree('%s from a free reduced model after fix_parameters' % case['obj'],
                  n_f(), names_f())
    elif kind == 'ctrl_refit':
        # controller with a population model: data, fix a population parameter,
        # then data with another number of individuals
        c = chi.ProblemModellingController(ToyModel(2, 1), chi.GaussianErrorModel())

        def frame(n):
            return pd.DataFrame([{'ID': i + 1, 'Time': t, 'Observable': 'o0',
                                  'Value': 1.0 + 0.3 * i + t}
                                 for i in range(n) for t in (0.3, 1.1)])
        c.set_population_model(popbuild.build(case['pop'], None))
        c.set_data(frame(case['n_first']), output_observable_dict={'o0': 'o0'})
        if case['fix'] is not None:
            nm = c.get_parameter_names()
            c.fix_parameters({nm[case['fix']]: 0.9})
        c.set_data(frame(case['n_second']), output_observable_dict={'o0': 'o0'})
        n = c.get_n_parameters()
        agree('controller after data / fix / data', n, c.get_parameter_names())
        c.set_log_prior(pints.ComposedLogPrior(*[
            pints.GaussianLogPrior(1, 2) for _ in range(n)]))
        post = c.get_log_posterior()
        N = post.n_parameters()
        x = np.array(vals.reals('c17.ctrl', N, 0.6, 1.4, 0))
        s_, g = post.evaluateS1(x)
        agree('controller posterior after data / fix / data', N,
              list(post.get_parameter_names()), True, len(g))
        top = [i for i in post.get_id() if i is None]
        if len(top) != n:
            viol.append({'sub': 'ctrl_refit', 'message': 'top-level entries of the '
                         'posterior do not match the controller\'s parameters '
                         'after data / fix / data', 'expected': n,
                         'observed': len(top), 'behaviour': 'obj_agree'})
    elif kind == 'relabel':
        # log-likelihoods that were labelled by an earlier hierarchical likelihood
        # (at other positions), or carry a user ID equal to a default label: the new
        # hierarchical likelihood either refuses them or publishes distinct IDs
        def mk(_id=None):
            ll = chi.LogLikelihood(ToyModel(2, 1), chi.GaussianErrorModel(),
                                   [1.0, 2.0], [0.2, 0.9])
            if _id is not None:
                ll.set_id(_id)
            return ll
        lls = [mk(i_) for i_ in case['ids']]
        pop = popbuild.build(rp.Comp([rp.G(1), rp.P(1), rp.LN(1)]), None)
        first = [lls[i_] for i_ in case['first']]
        if first:
            try:
                chi.HierarchicalLogLikelihood(first, popbuild.build(
                    rp.Comp([rp.G(1), rp.P(1), rp.LN(1)]), None))
            except ValueError:
                pass          # (refused: nothing was built)
        try:
            hl = chi.HierarchicalLogLikelihood([lls[i_] for i_ in case['second']],
                                               pop)
        except ValueError:
            hl = None
        if hl is not None:
            ids_u = list(hl.get_id(unique=True))
            named = list(hl.get_parameter_names(include_ids=True))
            if len(set(ids_u)) != len(ids_u) or len(set(named)) != len(named):
                viol.append({'sub': 'relabel', 'message': 'hierarchical likelihood '
                             'built from log-likelihoods labelled earlier '
                             'publishes the same ID for several individuals',
                             'expected': 'distinct IDs (or a refusal)',
                             'observed': ids_u, 'behaviour': 'relabel'})
            agree('hierarchical likelihood from relabelled log-likelihoods',
                  hl.n_parameters(), hl.get_parameter_names())
    elif kind == 'user_red_em':
        user = chi.ReducedErrorModel(
            chi.ConstantAndMultiplicativeGaussianErrorModel())
        user.fix_parameters({case['pre']: 0.25})
        if case['obj'] == 'll':
            o = chi.LogLikelihood(ToyModel(2, 1), [user], [1.0, 2.0], [0.2, 0.9])
            names_f, n_f = o.get_parameter_names, o.n_parameters
        elif case['obj'] == 'pred':
            o = chi.PredictiveModel(ToyModel(2, 1), [user])
            names_f, n_f = o.get_parameter_names, o.n_parameters
        else:
            c_ = chi.ProblemModellingController(ToyModel(2, 1), [user])
            c_.set_data(pd.DataFrame({'ID': [1, 1], 'Time': [0.3, 1.1],
                                      'Observable': ['o0'] * 2,
                                      'Value': [1.3, 2.1]}))
            c_.set_log_prior(pints.ComposedLogPrior(*[
                pints.GaussianLogPrior(1, 2) for _ in range(c_.get_n_parameters())]))
            o = c_.get_log_posterior()
            names_f, n_f = o.get_parameter_names, o.n_parameters
        n_before = n_f()
        for op in case['ops']:
            user.fix_parameters(dict([op]))
        n = n_f()
        if n != n_before or n != 3:
            viol.append({'sub': 'user_red_em', 'message': 'the number of parameters '
                         'of a %s built from a reduced user error model changed '
                         'when the user re-configured that model' % case['obj'],
                         'expected': 3, 'observed': [n_before, n],
                         'behaviour': 'obj_agree'})
        x = np.array([0.9, 0.6, 0.4])
        if case['obj'] == 'pred':
            agree('predictive model from a reduced user error model', n, names_f())
            smp = o.sample(x, [0.3, 0.9], n_samples=1, seed=1, return_df=False)
            if np.shape(smp) != (1, 2, 1):
                viol.append({'sub': 'user_red_em', 'message': 'predictive model '
                             'cannot sample a vector of its reported length',
                             'expected': [1, 2, 1], 'observed': list(np.shape(smp)),
                             'behaviour': 'obj_agree'})
        else:
            s_, g_ = o.evaluateS1(x)
            agree('%s from a reduced user error model' % case['obj'], n, names_f(),
                  np.isfinite(o(x)), len(g_))
    elif kind == 'shared_em':
        # one error model instance given for several outputs
        em = chi.GaussianErrorModel() if case['em'] == 'G' else \
            chi.ConstantAndMultiplicativeGaussianErrorModel()
        per = 1 if case['em'] == 'G' else 2
        k = case['n_out']
        exp_names = ['p0', 'p1'] + [
            'o%d %s' % (j, n_) for j in range(k) for n_ in em.get_parameter_names()]
        if case['obj'] == 'll':
            o = chi.LogLikelihood(ToyModel(2, k), [em] * k,
                                  [[1.0, 2.0]] * k, [[0.2, 0.9]] * k)
            got = o.get_parameter_names()
            n = o.n_parameters()
        elif case['obj'] == 'pred':
            o = chi.PredictiveModel(ToyModel(2, k), [em] * k)
            got = o.get_parameter_names()
            n = o.n_parameters()
        else:
            o = chi.ProblemModellingController(ToyModel(2, k), [em] * k)
            rows = [{'ID': 1, 'Time': t, 'Observable': 'o%d' % j, 'Value': 1.0 + t}
                    for j in range(k) for t in (0.3, 1.1)]
            o.set_data(pd.DataFrame(rows), output_observable_dict={
                'o%d' % j: 'o%d' % j for j in range(k)})
            got = o.get_parameter_names()
            n = o.get_n_parameters()
        if list(got) != exp_names or n != 2 + per * k:
            viol.append({'sub': 'shared_em', 'message': 'names with one error model '
                         'instance given for %d outputs (%s) are not the documented '
                         'distinct output-prefixed names' % (k, case['obj']),
                         'expected': exp_names, 'observed': list(got),
                         'behaviour': 'shared_em'})
        if list(em.get_parameter_names()) != list(type(em)().get_parameter_names()):
            viol.append({'sub': 'shared_em_user', 'message': 'the user\'s error '
                         'model was renamed', 'expected': 'unchanged',
                         'observed': em.get_parameter_names(),
                         'behaviour': 'shared_em'})
    elif kind == 'ctrl':
        c = chi.ProblemModellingController(ToyModel(2, 1), chi.GaussianErrorModel())
        rows = []
        for i in range(case['n_ids']):
            for t in (0.3, 1.1):
                rows.append({'ID': i + 1, 'Time': t, 'Observable': 'o0',
                             'Value': 1.0 + 0.3 * i + t})
            rows.append({'ID': i + 1, 'Time': np.nan, 'Observable': 'age',
                         'Value': 0.4 + 0.2 * i})
        df = pd.DataFrame(rows)
        c.set_data(df, output_observable_dict={'o0': 'o0'})
        if case.get('pop') is not None:
            c.set_population_model(popbuild.build(case['pop'], None))
            if rp.n_cov(case['pop']):
                c.set_data(df, output_observable_dict={'o0': 'o0'},
                           covariate_dict={'Cov. 1': 'age'})
        for op in case['ops']:
            names = c.get_parameter_names()
            c.fix_parameters({names[i]: v for i, v in op})
        n = c.get_n_parameters()
        lists_are_copies(viol, 'controller', c.get_parameter_names)
        agree('controller', n, c.get_parameter_names())
        # the individual-level model behind the population model
        lists_are_copies(viol, 'controller (individual-level names)',
                         lambda: c.get_parameter_names(exclude_pop_model=True))
        n_ind = c.get_n_parameters(exclude_pop_model=True)
        agree('controller, population model excluded', n_ind,
              c.get_parameter_names(exclude_pop_model=True))
        if case.get('pop') is not None and n_ind != 3:
            viol.append({'sub': 'ctrl_ind', 'message': 'number of individual-level '
                         'parameters reported by the controller is not the '
                         'dimension of its population model', 'expected': 3,
                         'observed': n_ind, 'behaviour': 'obj_agree'})
        c.set_log_prior(pints.ComposedLogPrior(*[
            pints.GaussianLogPrior(1, 2) for _ in range(n)]))
        post = c.get_log_posterior()
        lists_are_copies(viol, 'controller posterior', post.get_parameter_names)
        N = post.n_parameters()
        names = list(post.get_parameter_names())
        x = np.array(vals.reals('c17.ctrl', N, 0.6, 1.4, 0))
        if case.get('pop') is not None:
            ids = list(post.get_id())
            nbottom = N - n
            if len(ids) != N or [i is not None for i in ids] != \
                    [True] * nbottom + [False] * n:
                viol.append({'sub': 'ctrl_ids', 'message': 'posterior IDs from the '
                             'controller do not match its parameters',
                             'expected': [nbottom, n], 'observed': ids,
                             'behaviour': 'ctrl_ids', 'ops': case.get('ops')})
        s, g = post.evaluateS1(x)
        agree('controller posterior', N, names, True, len(g))
        pm = c.get_predictive_model()
        agree('controller predictive model', pm.n_parameters(),
              pm.get_parameter_names())
    elif kind == 'filter':
        from . import c13
        fc = case['fcase']
        post = c13.build_posterior(fc)
        x = np.array(fc['vec'], dtype=float)
        n = post.n_parameters()
        names = list(post.get_parameter_names())
        ids = list(post.get_id())
        s_, g = post.evaluateS1(x.copy())
        try:
            named = list(post.get_parameter_names(include_ids=True))
        except Exception as e:
            named = 'raise:%s' % type(e).__name__
        facts = {'n': n, 'names': len(names), 'ids': len(ids), 'grad': len(g),
                 'vector': len(x), 'named': len(named) if isinstance(named, list)
                 else named}
        exp = {'n': n, 'names': n, 'ids': n, 'grad': n, 'vector': n, 'named': n}
        n_top = post.n_parameters(exclude_bottom_level=True)
        if facts != exp:
            viol.append({'sub': 'filter_agree', 'message': 'counts / names / IDs / '
                         'gradient lengths disagree on the filter posterior',
                         'expected': exp, 'observed': facts,
                         'behaviour': 'filter_agree'})
        elif [i is not None for i in ids] != [False] * n_top + [True] * (n - n_top):
            viol.append({'sub': 'filter_ids', 'message': 'filter posterior IDs do '
                         'not mark exactly the simulated-individual entries',
                         'expected': [n_top, n - n_top], 'observed': ids,
                         'behaviour': 'filter_ids'})
        elif len(set(named)) != len(named):
            viol.append({'sub': 'filter_distinct', 'message': 'ID-prefixed names of '
                         'the filter posterior are not distinct',
                         'expected': 'distinct', 'observed': named,
                         'behaviour': 'filter_distinct'})
    elif kind == 'mech':
        m = chi.library.ModelLibrary().erlotinib_tumour_growth_inhibition_model()
        n_ren = 0
        for op in case['ops']:
            if op[0] == 'adm':
                m.set_administration('central', direct=op[1])
            elif op[0] == 'out':
                m.set_outputs(op[1])
            elif op[0] == 'sens':
                m.enable_sensitivities(op[1])
            elif op[0] == 'red':
                if not isinstance(m, chi.ReducedMechanisticModel):
                    m = chi.ReducedMechanisticModel(m)
                m.fix_parameters({m.parameters()[op[1]]: 0.7})
            elif op[0] == 'ren':
                # (a parameter that is free at that moment gets another name)
                m.set_parameter_names({m.parameters()[op[1]]: 'renamed %d (%d)' % (
                    op[1], n_ren)})
                n_ren += 1
            elif op[0] == 'rel':
                if isinstance(m, chi.ReducedMechanisticModel):
                    m.fix_parameters({n_: None for n_ in
                                      m.mechanistic_model().parameters()})
        lists_are_copies(viol, 'mechanistic model', m.parameters, m.outputs)
        n = m.n_parameters()
        x = vals.reals('c17.mech', n, 0.4, 1.2, 0)
        res = m.simulate(x, [0.4, 1.3])
        grad = None
        if isinstance(res, tuple):
            y, S = res
            grad = np.shape(S)[2]
            ok = list(np.shape(S)[:2]) == [2, m.n_outputs()]
        else:
            y = res
            ok = True
        ok = ok and list(np.shape(y)) == [m.n_outputs(), 2] and \
            len(m.outputs()) == m.n_outputs()
        agree('mechanistic model', n, m.parameters(), ok, grad)
    return {'transitions': len(case['ops']) + 4, 'outcome': key_of(case),
            'violations': viol}


def w_covmodel(case):
    """A covariate model on its own: after every selection of a history the number of
    parameters, of names and the accepted coefficient vector agree."""
    viol = []
    cm = chi.LinearCovariateModel(n_cov=case['n_cov'])
    done = []
    for sel in case['history']:
        cm.set_population_parameters([list(p_) for p_ in sel])
        done.append(sel)
        n_sel = len(set(tuple(p_) for p_ in sel))
        names = cm.get_parameter_names()
        want = n_sel * case['n_cov']
        ok = cm.n_parameters() == want and len(names) == want and \
            len(set(names)) == len(names)
        if ok:
            try:
                ppd = 1 + max(p_[0] for p_ in sel)
                d_ = 1 + max(p_[1] for p_ in sel)
                v = cm.compute_population_parameters(
                    np.full(want, 0.5), np.ones((ppd, d_)),
                    np.ones((2, case['n_cov'])))
                ok = np.shape(v) == (2, ppd, d_)
            except Exception:
                ok = False
        if not ok:
            viol.append({'sub': 'covmodel', 'message': 'covariate model after the '
                         'selections %s: parameters, names and accepted vector '
                         'disagree' % done, 'expected': want,
                         'observed': [cm.n_parameters(), names],
                         'behaviour': 'covmodel'})
            break
    return {'transitions': len(case['history']), 'outcome': key_of(
        [case, cm.n_parameters()]), 'violations': viol}


WORKERS = {'hierarchical': w_hier, 'objects': w_objects, 'ctor_n_ids': w_ctor,
           'covmodel': w_covmodel}
for _b in POP_BASES:
    WORKERS['pop_' + _b] = w_pop_history


def make_search(base, depth):
    name = 'pop_' + base

    def run(workers):
        return bfs(name, w_pop_history, POP_OPS, depth, seeds=[[base]],
                   workers=workers,
                   descr='BFS over reconfiguration histories on population model %s'
                   % base)
    return run


def build(tier, seed):
    kinds = hier.KINDS10       # every class in both tiers
    max_ids = 2 if tier == 'quick' else 3
    hc = []
    structs = hier.structures(3, kinds)
    if tier == 'thorough':
        # depth-3 nesting
        structs += [rp.Comp([rp.Comp([rp.G(1), rp.P(1)]), rp.H(1)]),
                    rp.Comp([rp.Comp([rp.H(1), rp.Comp([rp.LN(1, False)])]),
                             rp.Cov(rp.P(1))])]
    # nested compositions whose inner pooled / heterogeneous dimension comes first
    structs += [rp.Comp([rp.Comp([rp.P(1), rp.G(1)]), rp.LN(1)]),
                rp.Comp([rp.Comp([rp.H(1), rp.G(1)]), rp.P(1)]),
                rp.Comp([rp.G(1), rp.Comp([rp.P(1), rp.LN(1, False)])]),
                rp.Comp([rp.Comp([rp.P(1), rp.LN(1), rp.H(1)])])]
    for spec in structs:
        for n_ids in range(1, max_ids + 1):
            hc.append(hier.make_case(spec, n_ids, seed))
    # reduced wrappers created and fixed for one individual, around compositions
    # with a heterogeneous dimension; the likelihood sets the number of individuals
    for base in (rp.Comp([rp.H(1), rp.G(2, False)]), rp.Comp([rp.G(1), rp.H(1),
                                                              rp.P(1)]),
                 rp.Comp([rp.LN(1), rp.H(2)])):
        for n_ids in (2, 3):
            full = popvals.top_values(base, n_ids, seed, positive=True)
            for i_ in range(rp.n_top(base, n_ids)):
                spec = rp.Red(base, {i_: full[i_]})
                if popbuild.build_early(spec, n_ids) is not None:
                    c_ = hier.make_case(spec, n_ids, seed)
                    c_['early'] = True
                    hc.append(c_)
    # reduced models ALL of whose population parameters are fixed (no population-
    # level entry is left), and all but one
    for base in (rp.G(3), rp.Comp([rp.LN(1), rp.G(2, False)]),
                 rp.Comp([rp.G(1), rp.LN(1), rp.TG(1)])):
        for n_ids in (1, 2):
            full = popvals.top_values(base, n_ids, seed, positive=True)
            n_t = rp.n_top(base, n_ids)
            hc.append(hier.make_case(rp.Red(base, {i_: full[i_] for i_ in range(n_t)}),
                                     n_ids, seed))
            hc.append(hier.make_case(
                rp.Red(base, {i_: full[i_] for i_ in range(1, n_t)}), n_ids, seed))
    if tier == 'thorough':
        # 4-dimensional bottom level (two-parameter error model)
        for spec in hier.structures(4, hier.KINDS6):
            for n_ids in (1, 3):
                hc.append(hier.make_case(spec, n_ids, seed, err='CM'))
    depth = 2 if tier == 'quick' else 5
    bases = list(POP_BASES) if tier == 'thorough' else [
        'G2', 'H1', 'covG2', 'covP1', 'comp', 'comp2', 'nested']
    objs = []
    fixes = [[], [{'p0': 1.0}], [{'o1 Sigma base': 0.3}], [{'p1': 1.0, 'o0 Sigma':
             0.5}], [{'p0': 1.0}, {'p0': None}], [{'p2': 0.9}, {'p1': 1.1}]]
    for ops in fixes:
        objs.append({'kind': 'll', 'ops': ops})
    objs.append({'kind': 'll', 'ops': [], 'outputs': ['o1', 'o0']})
    for ops in ([], [{'p0': 1.0}], [{'o0 Sigma': 0.4}, {'p2': 1.2}],
                [{'p0': 1.0}, {'p0': None}]):
        objs.append({'kind': 'pred', 'ops': ops})
        objs.append({'kind': 'pred', 'ops': ops, 'outputs': ['o1', 'o0']})
    for obj in ('ll', 'pred', 'ctrl'):
        for released in (False, True):
            objs.append({'kind': 'free_reduced', 'obj': obj, 'released': released,
                         'ops': []})
    for pop in (rp.Comp([rp.H(1), rp.G(1), rp.P(1)]), rp.Comp([rp.G(1), rp.H(2)]),
                rp.H(3), rp.Comp([rp.G(2), rp.P(1)])):
        n_top1 = rp.n_top(pop, 1)
        for n_first, n_second in ((3, 2), (2, 3), (1, 3), (2, 2)):
            for fix in (None, -1, -2):
                objs.append({'kind': 'ctrl_refit', 'pop': pop, 'n_first': n_first,
                             'n_second': n_second, 'fix': fix, 'ops': []})
    for ids_ in ([None, None, None], [None, 'Log-likelihood 2', None],
                 ['Log-likelihood 2', None, None], ['x', None, 'Log-likelihood 1']):
        for first in ([], [0, 1], [1, 0], [2, 1], [0, 1, 2]):
            for second in ([0, 1], [1, 2], [2, 0], [1, 0, 2], [2, 1, 0]):
                objs.append({'kind': 'relabel', 'ids': ids_, 'first': first,
                             'second': second, 'ops': []})
    # (the controller takes plain error models only)
    for obj in ('ll', 'pred'):
        for pre, others in (('Sigma rel.', [('Sigma base', 0.4), ('Sigma rel.', 0.9),
                                            ('Sigma rel.', None)]),
                            ('Sigma base', [('Sigma rel.', 0.3), ('Sigma base', None)])):
            for r_ in (1, 2):
                for ops in itertools.permutations(others, r_):
                    objs.append({'kind': 'user_red_em', 'obj': obj, 'pre': pre,
                                 'ops': [list(o_) for o_ in ops]})
    for obj in ('ll', 'pred', 'ctrl'):
        for em in ('G', 'CM'):
            for k in (2, 3):
                objs.append({'kind': 'shared_em', 'obj': obj, 'em': em, 'n_out': k,
                             'ops': []})
    pops = [None, rp.Comp([rp.G(1), rp.P(1), rp.H(1)]),
            rp.Comp([rp.Cov(rp.LN(1), 1), rp.G(1, False), rp.P(1)]), rp.H(3),
            rp.Comp([rp.H(1), rp.LN(2)])]
    for pop in pops:
        for n_ids in (1, 2, 3):
            for ops in ([], [[(0, 0.8)]], [[(0, 0.8)], [(1, 1.1)]],
                        [[(0, 0.8), (2, 0.5)]]):
                objs.append({'kind': 'ctrl', 'pop': pop, 'n_ids': n_ids,
                             'ops': [[list(p) for p in op] for op in ops]})
    from . import c13
    for spec in [rp.Comp([rp.LN(1), rp.P(1), rp.G(1, False)]), rp.G(3),
                 rp.Comp([rp.H(1), rp.G(2)]), rp.P(3),
                 rp.Comp([rp.Cov(rp.G(1)), rp.LN(2, False)])]:
        for n_obs in (1, 2):
            for sigma_free in (False, True):
                for ns in (2, 3):
                    objs.append({'kind': 'filter', 'ops': [], 'fcase': c13.make_case(
                        spec, ('G', 2), sigma_free, n_obs == 2, ns,
                        [1.3, 0.4, 2.2][:n_obs + 1], n_obs, seed)})
    mops = [['adm', True], ['adm', False], ['out', ['global.tumour_volume']],
            ['out', ['central.drug_concentration', 'global.tumour_volume']],
            ['sens', True], ['sens', False], ['red', 0], ['red', 2], ['rel'],
            ['ren', 1]]
    for r in range(0, 3 if tier == 'quick' else 4):
        for seq in itertools.product(mops, repeat=r):
            # a reduced wrapper only offers a subset of the calls
            idx = [i for i, o in enumerate(seq) if o[0] == 'red']
            if idx and any(o[0] == 'adm' for o in seq[idx[0]:]):
                continue
            objs.append({'kind': 'mech', 'ops': [list(o) for o in seq]})
    # fix / release cycles with sensitivities switched on somewhere on the way
    for seq in itertools.permutations(
            [['sens', True], ['red', 0], ['red', 2], ['rel']], 3):
        if ['rel'] in [list(o) for o in seq]:
            objs.append({'kind': 'mech', 'ops': [list(o) for o in seq]})
            objs.append({'kind': 'mech', 'ops': [list(o) for o in seq]
                         + [['red', 1]]})
    # fixed parameters, sensitivities and a change of outputs in every order
    for i_fix in (0, 2):
        for out_ in (['global.tumour_volume'],
                     ['central.drug_concentration', 'global.tumour_volume']):
            for seq in itertools.permutations(
                    [['red', i_fix], ['sens', True], ['out', out_]]):
                objs.append({'kind': 'mech', 'ops': [list(o) for o in seq]})
                objs.append({'kind': 'mech', 'ops': [list(o) for o in seq]
                             + [['sens', True]]})
    # renamed parameters, fixed parameters and sensitivities in every order
    for i_ren in (0, 1, 3):
        for i_fix in (0, 2):
            for seq in itertools.permutations(
                    [['ren', i_ren], ['red', i_fix], ['sens', True]]):
                objs.append({'kind': 'mech', 'ops': [list(o) for o in seq]})
                objs.append({'kind': 'mech', 'ops': [list(o) for o in seq]
                             + [['rel']]})
    # sub-models constructed for their own numbers of individuals
    ctor = []
    # (a covariate model around a heterogeneous model has no subpopulation
    # distribution to shift and is not part of the alphabet, cf. hier.KINDS)
    sub_kinds = [('H', 1), ('CompH', 1), ('RedH', 1), ('H', 2)]
    for k in (2, 3):
        for kinds_ in itertools.product(sub_kinds, repeat=k - 1):
            for ns in itertools.product((1, 2, 3), repeat=k - 1):
                if len(set(n for n in ns if n > 1)) > 1:
                    continue        # the constructor refuses differing counts > 1
                for pos in range(k):
                    subs = [[kd[0], kd[1], n] for kd, n in zip(kinds_, ns)]
                    subs.insert(pos, ['G', 2, 1])
                    thens = [[], [1], [2], [3], [2, 1], [3, 2], [3, 1]]
                    for then in (thens if tier == 'thorough' or k == 2
                                 else thens[:4] + thens[6:]):
                        ctor.append({'subs': subs, 'then': then})
    # covariate models on their own: every history of <= 2 selections out of a menu
    # of selections of 1-3 pairs, 1-2 covariates
    sels = [[[0, 0]], [[1, 0]], [[0, 0], [1, 0]], [[0, 1], [1, 0], [0, 0]],
            [[1, 1], [0, 1]]]
    covm = [{'n_cov': nc_, 'history': [list(h_) for h_ in hist_]}
            for nc_ in (1, 2) for n_h in (1, 2)
            for hist_ in itertools.product(sels, repeat=n_h)]
    return {
        'parts': [
            Part('covmodel', covm, w_covmodel,
                 'LinearCovariateModel alone: histories of selections'),
            Part('ctor_n_ids', ctor, w_ctor,
                 'composed models of heterogeneous sub-models (plain, nested) '
                 'constructed for their own numbers of individuals, '
                 'then set_n_ids sequences'),
            Part('hierarchical', hc, w_hier,
                 'all population compositions in likelihood / posterior'),
            Part('objects', objs, w_objects,
                 'likelihood, predictive model, controller, mechanistic model '
                 'after reconfiguration calls'),
        ],
        'searches': [make_search(b, depth) for b in bases],
        'bounds': {'kinds': kinds, 'n_ids_max': max_ids,
                   'pop_history_depth': depth, 'pop_ops': POP_OPS},
        'rule': 'complete composition space (C02) + BFS over reconfiguration '
                'histories up to the depth bound + op sequences up to length 2-3 '
                'on the other objects',
        'min_outcomes': {'hierarchical': 50},
        'assumptions': ['the reconfiguration alphabet is the one the property names',
                        'SBML model on RefSimulation'],
    }


META = {
    'technique': 'bounded exhaustive enumeration of compositions plus explicit-state '
                 'BFS over reconfiguration histories on the real objects, invariant '
                 'checking in every state',
    'level_text': 'In every composition of the C02 space and after every '
                  'reconfiguration history (set_n_ids, set_dim_names, '
                  'set_parameter_names, wrap+fix / release, '
                  'set_population_parameters; fix_parameters, set_outputs, '
                  'set_administration on the other objects) up to the depth bound, '
                  'the reported count, the number of names, IDs, the accepted vector '
                  'length and the gradient length are compared, IDs must mark '
                  'exactly the individual-level entries and ID-prefixed default '
                  'names must be distinct.',
    'level_note': 'Depth-bounded for histories (bound in evidence); exhaustive over '
                  'compositions within the alphabet.',
}
META['level_text'] += (
    ' Also: custom parameter names of exactly n_parameters() entries in the populat'
    'ion histories, renames in the mechanistic histories, nested compositions with '
    "the special dimension first, relabelled log-likelihoods, the controller's indi"
    'vidual-level counts.')
META['level_text'] += (' Wave 9: selection of both parameters of the last dimension with name oracle, covariate models on their own under histories of selections.')
