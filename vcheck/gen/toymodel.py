"""chi.MechanisticModel wrapper around the closed-form toy model (ref.toy)."""
import copy

import numpy as np

import chi

from ..ref import toy


class ToyModel(chi.MechanisticModel):
    """n_params parameters 'p0'.., n_outputs outputs 'o0'.. (all selected by
    default). Counts simulate calls."""

    def __init__(self, n_params=2, n_outputs=1):
        super(ToyModel, self).__init__()
        self._n_params = int(n_params)
        self._all_outputs = ['o%d' % j for j in range(n_outputs)]
        self._outputs = list(self._all_outputs)
        self._names = ['p%d' % i for i in range(n_params)]
        self._sens = False
        self._sens_idx = list(range(self._n_params))
        self.n_calls = 0

    def copy(self):
        return copy.deepcopy(self)

    def enable_sensitivities(self, enabled, parameter_names=None):
        # documented contract: sensitivities w.r.t. `parameter_names` (default all)
        self._sens = bool(enabled)
        if parameter_names is None:
            self._sens_idx = list(range(self._n_params))
        else:
            self._sens_idx = [self._names.index(str(n)) for n in parameter_names]

    def has_sensitivities(self):
        return self._sens

    def n_outputs(self):
        return len(self._outputs)

    def n_parameters(self):
        return self._n_params

    def outputs(self):
        return list(self._outputs)

    def parameters(self):
        return list(self._names)

    def set_outputs(self, outputs):
        outputs = list(outputs)
        for o in outputs:
            if o not in self._all_outputs:
                raise KeyError(o)
        self._outputs = outputs

    def set_parameter_names(self, names):
        self._names = [names.get(n, n) for n in self._names]

    def set_output_names(self, names):
        self._all_outputs = [names.get(n, n) for n in self._all_outputs]
        self._outputs = [names.get(n, n) for n in self._outputs]

    def simulate(self, parameters, times):
        self.n_calls += 1
        parameters = np.asarray(parameters, dtype=float)
        if len(parameters) != self._n_params:
            raise ValueError('wrong number of toy parameters')
        idx = [self._all_outputs.index(o) for o in self._outputs]
        full = toy.evaluate(parameters, times, len(self._all_outputs))
        out = np.real(full[idx])
        if not self._sens:
            return out
        S = toy.sensitivities(parameters, times, len(self._all_outputs))
        return out, S[:, idx, :][:, :, self._sens_idx]
