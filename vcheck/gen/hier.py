"""Hierarchical fixtures shared by C02 / C03 / C17 / C18: a toy bottom level (toy
mechanistic model + error model per individual with individual-specific data) under
a population model given by a reference spec."""
import itertools

import numpy as np
import pints

import chi

from ..core import vals
from ..ref import errors as rerr, populations as rp, toy
from . import popbuild, popvals
from .toymodel import ToyModel

# quick alphabet: one representative of every mechanism (centred, non-centred,
# truncated, pooled, heterogeneous, covariate x {centred, non-centred, pooled})
KINDS6 = ['G', 'Gnc', 'LNnc', 'TG', 'P', 'H', 'Cov(G)', 'Cov(LNnc)', 'Cov(P)',
          'Cov(TG)']
KINDS10 = KINDS6 + ['LN', 'Cov(LN)', 'Cov(Gnc)']


def make_case(spec, n_ids, seed, n_mech=2, err='G', ids=None, prior=False):
    """JSON-able hierarchical case at a generic in-support vector."""
    n_err = rerr.N_PARAMS[err]
    assert rp.n_dim(spec) == n_mech + n_err
    top = popvals.top_values(spec, n_ids, seed, positive=True)
    cov = popvals.covariates(spec, n_ids, seed)
    obs = popvals.obs_values(spec, top, n_ids, cov, seed, positive=True)
    hier = [x is None for x in rp.special(spec)]
    bottom = obs[:, hier].flatten().tolist()
    data = []
    for i in range(n_ids):
        nt = [2, 3, 1][i % 3]
        times = sorted(vals.reals('hier.t%d' % i, nt, 0.1, 3.0, seed))
        y = vals.reals('hier.y%d' % i, nt, 0.8, 7.0, seed)
        data.append({'times': times, 'obs': y})
    return {'spec': spec, 'n_ids': n_ids, 'n_mech': n_mech, 'err': err,
            'vec': bottom + list(top), 'cov': None if cov is None else cov.tolist(),
            'data': data, 'ids': ids, 'prior': prior}


def build_likelihoods(case):
    lls = []
    for i, d in enumerate(case['data']):
        ll = chi.LogLikelihood(
            ToyModel(case['n_mech'], 1),
            getattr(chi, rerr.CHI_CLASS[case['err']])(), d['obs'], d['times'])
        if case.get('ids'):
            ll.set_id(case['ids'][i])
        lls.append(ll)
    return lls


def build(case):
    # Reduced wrappers are created around a model that already knows n_ids (the
    # fixed names of heterogeneous dimensions only exist then); everything else is
    # told n_ids by the hierarchical likelihood itself.
    if case.get('early'):
        # ... except here: wrapper built and parameters fixed for one individual,
        # the hierarchical likelihood then sets the number of individuals
        pop = popbuild.build_early(case['spec'], case['n_ids'])
    else:
        pop = popbuild.build(
            case['spec'], case['n_ids'] if case['spec']['kind'] == 'Red' else None)
    if case.get('rename_reset'):
        # user-given parameter / dimension names that are reset to the defaults
        # again before the model is used
        pop.set_n_ids(case['n_ids'])
        n_ = len(pop.get_parameter_names())
        pop.set_parameter_names(['custom %d' % i for i in range(n_)])
        pop.set_parameter_names(None)
        pop.set_dim_names(['dd%d' % i for i in range(pop.n_dim())])
        pop.set_dim_names(None)
    if case.get('used_before'):
        # the same population model object served a hierarchical log-likelihood of
        # another number of individuals before
        k = case['used_before']
        lls_k = build_likelihoods(dict(case, data=[case['data'][0]] * k,
                                       ids=None))
        cov_k = None if case['cov'] is None else np.array(
            [case['cov'][0]] * k) + 0.1
        try:
            chi.HierarchicalLogLikelihood(lls_k, pop, cov_k)
        except Exception:
            pass
    cov = None if case['cov'] is None else np.array(case['cov'])
    if cov is None and case.get('extra_cov'):
        # covariates are handed over although the population model uses none
        cov = np.full((case['n_ids'], 1), 2.0)
    return chi.HierarchicalLogLikelihood(build_likelihoods(case), pop, cov)


PRIOR_MEAN, PRIOR_SD = 1.0, 3.0


def build_prior(n_top):
    return pints.ComposedLogPrior(*[
        pints.GaussianLogPrior(PRIOR_MEAN + 0.05 * i, PRIOR_SD + 0.1 * i)
        for i in range(n_top)])


def ref_prior(top):
    tot = 0
    for i, v in enumerate(top):
        m, s = PRIOR_MEAN + 0.05 * i, PRIOR_SD + 0.1 * i
        tot = tot - 0.5 * np.log(2 * np.pi) - np.log(s) - (v - m) ** 2 / (2 * s * s)
    return tot


def ref_individual(case, i, psi_i):
    d = case['data'][i]
    nm = case['n_mech']
    ybar = toy.evaluate(psi_i[:nm], d['times'], 1)[0]
    return np.sum(rerr.pointwise(case['err'], psi_i[nm:], ybar,
                                 np.asarray(d['obs'])))


def ref_parts(case, vec):
    """(population log-density, [individual log-likelihoods], psi matrix)."""
    spec, n_ids = case['spec'], case['n_ids']
    vec = np.asarray(vec)
    sp = rp.special(spec)
    hier = np.array([x is None for x in sp])
    nb = n_ids * int(hier.sum())
    cov = None if case['cov'] is None else np.array(case['cov'])
    obs = np.zeros((n_ids, len(sp)), dtype=complex)
    obs[:, hier] = vec[:nb].reshape(n_ids, int(hier.sum()))
    top = vec[nb:]
    psi = rp.psi_of(spec, top, obs, cov)
    obs[:, ~hier] = psi[:, ~hier]
    pop = rp.logpop(spec, top, obs, cov)
    ind = [ref_individual(case, i, psi[i]) for i in range(n_ids)]
    return pop, ind, psi, top


def ref_score(case, vec, with_prior=False):
    pop, ind, psi, top = ref_parts(case, vec)
    tot = pop + sum(ind)
    if with_prior:
        tot = tot + ref_prior(top)
    return tot


def ref_names(case, include_ids=True):
    """Published names / IDs per position of the hierarchical vector."""
    spec, n_ids = case['spec'], case['n_ids']
    sp = rp.special(spec)
    bottom_names = ['p%d' % i for i in range(case['n_mech'])] + \
        rerr.DEFAULT_NAMES[case['err']]
    ids = case.get('ids') or ['Log-likelihood %d' % (i + 1) for i in range(n_ids)]
    ids = [str(int(x)) if isinstance(x, float) else str(x) for x in ids]
    names, idl = [], []
    for i in range(n_ids):
        for dname, kind in zip(bottom_names, sp):
            if kind is None:
                names.append((ids[i] + ' ' if include_ids else '') + dname)
                idl.append(ids[i])
    pop_names = rp.names(spec, n_ids)
    names += pop_names
    idl += [None] * len(pop_names)
    return names, idl


def compositions(total_dim, kinds, max_part_dim=3):
    return popbuild.compositions(total_dim, kinds, max_part_dim)


def structures(total_dim, kinds):
    """Every sequence of sub-models with dims summing to total_dim (wrapped in a
    composed model) plus the bare single models of dimension total_dim."""
    out = []
    for parts in compositions(total_dim, kinds):
        out.append(rp.Comp(parts))
        if len(parts) == 1:
            out.append(parts[0])
    return out
