"""Generic in-support values for population specs (deterministic, seed-rotated)."""
import numpy as np

from ..core import vals
from ..ref import populations as rp


def top_values(spec, n_ids, seed=0, tag='t', positive=False):
    k = spec['kind']
    if k == 'G':
        d = spec['n_dim']
        return vals.reals(tag + 'Gm', d, 1.2 if positive else 0.6, 3.0, seed) + \
            vals.reals(tag + 'Gs', d, 0.3, 1.5, seed)
    if k == 'LN':
        d = spec['n_dim']
        return vals.reals(tag + 'Lm', d, -0.5, 1.0, seed) + \
            vals.reals(tag + 'Ls', d, 0.2, 0.8, seed)
    if k == 'TG':
        d = spec['n_dim']
        return vals.reals(tag + 'Tm', d, 0.3, 2.5, seed) + \
            vals.reals(tag + 'Ts', d, 0.4, 1.5, seed)
    if k == 'P':
        return vals.reals(tag + 'P', spec['n_dim'], 0.5, 3.0, seed)
    if k == 'H':
        return vals.reals(tag + 'H', spec['n_dim'] * n_ids, 0.5, 3.0, seed)
    if k == 'Cov':
        inner = top_values(spec['inner'], n_ids, seed, tag + 'c', positive)
        nb = len(rp.selection(spec)) * spec['n_cov']
        return inner + vals.reals(tag + 'beta', nb, -0.08, 0.12, seed)
    if k == 'Comp':
        out = []
        for i, p in enumerate(spec['parts']):
            out += top_values(p, n_ids, seed, '%s.%d' % (tag, i), positive)
        return out
    if k == 'Red':
        full = top_values(spec['inner'], n_ids, seed, tag, positive)
        return [v for i, v in enumerate(full) if str(i) not in spec['fixed']]
    raise ValueError(k)


def covariates(spec, n_ids, seed=0, tag='cov'):
    c = rp.n_cov(spec)
    if c == 0:
        return None
    v = vals.reals(tag, n_ids * c, 0.2, 1.5, seed)
    return np.array(v).reshape(n_ids, c)


def raw_obs(spec, n_ids, seed=0, tag='o', positive=False):
    """Generic 'observations' (psi or eta) per dimension kind; P/H columns are
    placeholders to be overwritten by `obs_values`."""
    k = spec['kind']
    if k == 'Comp':
        cols = [raw_obs(p, n_ids, seed, '%s.%d' % (tag, i), positive)
                for i, p in enumerate(spec['parts'])]
        return np.concatenate(cols, axis=1)
    if k in ('Cov', 'Red'):
        return raw_obs(spec['inner'], n_ids, seed, tag + 'i', positive)
    d = spec['n_dim']
    n = n_ids * d
    if k in ('G', 'LN') and not spec['centered']:
        v = vals.reals(tag + 'eta', n, -0.3 if positive else -1.5, 1.5, seed)
    elif k == 'G':
        v = vals.reals(tag + 'g', n, 0.4 if positive else -1.0,
                       3.0 if positive else 4.0, seed)
    elif k == 'LN':
        v = vals.reals(tag + 'l', n, 0.3, 4.0, seed)
    elif k == 'TG':
        v = vals.reals(tag + 'tg', n, 0.2, 4.0, seed)
    else:
        v = [0.0] * n
    return np.array(v, dtype=float).reshape(n_ids, d)


def obs_values(spec, top, n_ids, cov=None, seed=0, tag='o', positive=False):
    """Observations in the support: pooled / heterogeneous columns equal the values
    the population parameters dictate."""
    obs = raw_obs(spec, n_ids, seed, tag, positive)
    sp = rp.special(spec)
    if any(x is not None for x in sp):
        psi = np.real(rp.psi_of(spec, np.asarray(top, dtype=float), obs, cov))
        for j, kind in enumerate(sp):
            if kind is not None:
                obs[:, j] = psi[:, j]
    return obs
