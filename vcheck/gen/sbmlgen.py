"""Generates SBML files of linear compartment models (and the descriptor the
reference closed form consumes). Identifier sets are chosen so that alphabetical
order, declaration order and myokit's state order all differ."""
import itertools
import os

HEAD = '''<?xml version="1.0" encoding="UTF-8"?>
<sbml xmlns="http://www.sbml.org/sbml/level3/version2/core" level="3" version="2">
  <model id="%s" timeUnits="day">
    <listOfUnitDefinitions>
      <unitDefinition id="day"><listOfUnits><unit kind="second" exponent="1" scale="0" multiplier="86400"/></listOfUnits></unitDefinition>
    </listOfUnitDefinitions>
'''
M = 'xmlns="http://www.w3.org/1998/Math/MathML"'


def xml(desc):
    s = HEAD % desc['id']
    s += '    <listOfCompartments>\n'
    for c in desc['comps']:
        s += '      <compartment id="%s" name="%s" size="1" constant="true"/>\n' % (
            c['id'], c['id'])
    s += '    </listOfCompartments>\n    <listOfSpecies>\n'
    for sp in desc['species']:
        s += ('      <species id="drug_%s" name="drug" compartment="%s" '
              'initialAmount="0" hasSubstanceUnits="false" boundaryCondition="false"'
              ' constant="false"/>\n' % (sp, sp))
    s += '    </listOfSpecies>\n    <listOfParameters>\n'
    for p in desc['params']:
        if p in desc.get('derived', {}):
            s += '      <parameter id="%s" constant="true"/>\n' % p
        elif p in desc.get('inter', {}):
            s += '      <parameter id="%s" constant="false"/>\n' % p
        else:
            s += '      <parameter id="%s" value="1" constant="true"/>\n' % p
    s += '    </listOfParameters>\n'
    if desc.get('derived'):
        s += '    <listOfInitialAssignments>\n'
        for name, terms in desc['derived'].items():
            s += ('      <initialAssignment symbol="%s"><math %s><apply><plus/>%s'
                  '</apply></math></initialAssignment>\n' % (
                      name, M, ''.join('<ci>%s</ci>' % t for t in terms)))
        s += '    </listOfInitialAssignments>\n'
    if desc.get('inter'):
        s += '    <listOfRules>\n'
        for name, cs in desc['inter'].items():
            terms = ''.join('<apply><times/><ci>drug_%s</ci><ci>%s</ci></apply>'
                            % (c, c) for c in cs)
            if len(cs) > 1:
                terms = '<apply><plus/>%s</apply>' % terms
            s += ('      <assignmentRule variable="%s"><math %s>%s</math>'
                  '</assignmentRule>\n' % (name, M, terms))
        s += '    </listOfRules>\n'
    s += '    <listOfReactions>\n'
    for i, r in enumerate(desc['reactions']):
        s += '      <reaction id="r%d" reversible="false">\n' % i
        s += ('        <listOfReactants><speciesReference species="drug_%s" '
              'constant="true"/></listOfReactants>\n' % r['from'])
        if r.get('to') is not None:
            s += ('        <listOfProducts><speciesReference species="drug_%s" '
                  'constant="true"/></listOfProducts>\n' % r['to'])
        s += ('        <kineticLaw><math %s><apply><times/><ci>%s</ci><ci>%s</ci>'
              '<ci>drug_%s</ci></apply></math></kineticLaw>\n      </reaction>\n'
              % (M, r['from'], r['k'], r['from']))
    s += '    </listOfReactions>\n  </model>\n</sbml>\n'
    return s


TOPOLOGIES = {
    # name: (compartments, reactions [(from, to, k)], derived, intermediates)
    'one': (['mid'], [('mid', None, 'k_e')], {}, {}),
    'chain2': (['zeta', 'alpha'],
               [('zeta', 'alpha', 'b_za'), ('alpha', None, 'ksum')],
               {'ksum': ['k_e', 'b_za']}, {'total': ['zeta', 'alpha']}),
    # identifiers in mixed case: upper-case letters sort before lower-case ones
    'chain2mixed': (['Zeta', 'alpha'],
                    [('Zeta', 'alpha', 'B_za'), ('alpha', None, 'ksum')],
                    {'ksum': ['k_e', 'B_za']}, {'Total': ['Zeta', 'alpha']}),
    # a compartment that is itself called 'dose' (the name chi gives to the depot of
    # an indirect route, which then has to get another name)
    'chain2dose': (['dose', 'alpha'],
                   [('dose', 'alpha', 'b_da'), ('alpha', None, 'ksum')],
                   {'ksum': ['k_e', 'b_da']}, {'total': ['dose', 'alpha']}),
    'mam2': (['mid', 'beta'],
             [('mid', 'beta', 'q_mb'), ('beta', 'mid', 'a_bm'), ('mid', None, 'k_e')],
             {}, {'total': ['mid', 'beta']}),
    'chain3': (['zeta', 'mid', 'alpha'],
               [('zeta', 'mid', 'w_zm'), ('mid', 'alpha', 'c_ma'),
                ('alpha', None, 'k_e')], {}, {'outer': ['zeta', 'alpha']}),
    'mam3': (['mid', 'zeta', 'alpha'],
             [('mid', 'zeta', 'q_mz'), ('zeta', 'mid', 'a_zm'),
              ('mid', 'alpha', 'h_ma'), ('alpha', 'mid', 'b_am'),
              ('mid', None, 'ktot')],
             {'ktot': ['k_e', 'h_ma']}, {'total': ['mid', 'zeta', 'alpha']}),
}


def descriptor(topology, comp_perm=None, species_perm=None, param_perm=None):
    comps, reacts, derived, inter = TOPOLOGIES[topology]
    literal = []
    for _, _, k in reacts:
        for p in (derived.get(k) or [k]):
            if p not in literal:
                literal.append(p)
    for terms in derived.values():
        for p in terms:
            if p not in literal:
                literal.append(p)
    params = literal + list(derived) + list(inter)

    def perm(lst, p):
        return [lst[i] for i in p] if p is not None else list(lst)
    tag = '%s_%s_%s_%s' % (
        topology, ''.join(map(str, comp_perm or [])),
        ''.join(map(str, species_perm or [])), ''.join(map(str, param_perm or [])))
    return {
        'id': 'gen_' + tag, 'topology': topology,
        'comps': [{'id': c} for c in perm(comps, comp_perm)],
        'species': perm(comps, species_perm),
        'params': perm(params, param_perm),
        'literal': literal,
        'derived': dict(derived), 'inter': dict(inter),
        'reactions': [{'from': a, 'to': b, 'k': k} for a, b, k in reacts]}


def all_descriptors(topologies, full_perms):
    """Every declaration order of compartments, species and parameters (full_perms)
    or the identity + reversed + one rotation (otherwise)."""
    out = []
    for topo in topologies:
        comps, reacts, derived, inter = TOPOLOGIES[topo]
        n = len(comps)
        base = descriptor(topo)
        npar = len(base['params'])

        def perms(k):
            if k == 1:
                return [None]
            if full_perms and k <= 3:
                return [list(p) for p in itertools.permutations(range(k))]
            ident = list(range(k))
            return [ident, ident[::-1], ident[1:] + ident[:1]]
        for cp in perms(n):
            for sp in perms(n):
                for pp in (perms(npar) if npar <= 3 and full_perms
                           else [None, list(range(npar))[::-1],
                                 list(range(1, npar)) + [0]]):
                    out.append(descriptor(topo, cp, sp, pp))
    return out


def write(desc, directory):
    path = os.path.join(directory, desc['id'] + '.xml')
    with open(path, 'w') as f:
        f.write(xml(desc))
    return path
