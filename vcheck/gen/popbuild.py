"""Builds real chi population models from reference specs, and enumerates specs."""
import itertools

import chi

from ..ref import populations as rp


def build(spec, n_ids=None):
    """Returns a fresh chi population model for `spec`. `n_ids` is applied through
    the constructor for heterogeneous models and through set_n_ids at the top."""
    m = _build(spec, n_ids or 1)
    if n_ids is not None:
        m.set_n_ids(n_ids)
    return m


def build_early(spec, n_ids):
    """A Red spec whose wrapper is created and whose parameters are fixed (by name)
    while the wrapped model still has one individual; whoever receives the model
    sets the number of individuals afterwards. Returns None when a fixed name does
    not exist yet for one individual."""
    names_full = _build(spec['inner'], n_ids).get_parameter_names()
    inner = _build(spec['inner'], 1)
    have = inner.get_parameter_names()
    fix = {names_full[int(i)]: v for i, v in spec['fixed'].items()}
    if any(n not in have for n in fix):
        return None
    m = chi.ReducedPopulationModel(inner)
    m.fix_parameters(fix)
    return m


_INNER_CACHE = None


def _build(spec, n_ids):
    global _INNER_CACHE
    k = spec['kind']
    if k == 'G':
        return chi.GaussianModel(n_dim=spec['n_dim'], centered=spec['centered'])
    if k == 'LN':
        return chi.LogNormalModel(n_dim=spec['n_dim'], centered=spec['centered'])
    if k == 'TG':
        return chi.TruncatedGaussianModel(n_dim=spec['n_dim'])
    if k == 'P':
        return chi.PooledModel(n_dim=spec['n_dim'])
    if k == 'H':
        return chi.HeterogeneousModel(n_dim=spec['n_dim'], n_ids=n_ids)
    if k == 'Cov':
        inner = _build(spec['inner'], n_ids)
        if _INNER_CACHE is not None:
            # one and the same base model object handed to several covariate models
            import json
            inner = _INNER_CACHE.setdefault(
                json.dumps(spec['inner'], sort_keys=True), inner)
        m = chi.CovariatePopulationModel(
            inner, chi.LinearCovariateModel(n_cov=spec['n_cov']))
        if spec.get('sel') is not None:
            m.set_population_parameters([list(p) for p in spec['sel']])
        return m
    if k == 'Comp':
        if spec.get('shared_inner'):
            _INNER_CACHE = {}
            try:
                return chi.ComposedPopulationModel(
                    [_build(p, n_ids) for p in spec['parts']])
            finally:
                _INNER_CACHE = None
        if spec.get('shared'):
            # equal parts are one and the same object listed several times
            import json
            made = {}
            subs = []
            for p in spec['parts']:
                key = json.dumps(p, sort_keys=True)
                if key not in made:
                    made[key] = _build(p, n_ids)
                subs.append(made[key])
            return chi.ComposedPopulationModel(subs)
        return chi.ComposedPopulationModel(
            [_build(p, n_ids) for p in spec['parts']])
    if k == 'Red':
        inner = _build(spec['inner'], n_ids)
        m = chi.ReducedPopulationModel(inner)
        names = inner.get_parameter_names()
        m.fix_parameters(
            {names[int(i)]: v for i, v in spec['fixed'].items()})
        return m
    raise ValueError(k)


def elementary(max_dim, kinds=('G', 'Gnc', 'LN', 'LNnc', 'TG', 'P', 'H')):
    out = []
    for d in range(1, max_dim + 1):
        for k in kinds:
            out.append(elem(k, d))
    return out


def elem(k, d=1):
    if k == 'G':
        return rp.G(d)
    if k == 'Gnc':
        return rp.G(d, False)
    if k == 'LN':
        return rp.LN(d)
    if k == 'LNnc':
        return rp.LN(d, False)
    if k == 'TG':
        return rp.TG(d)
    if k == 'P':
        return rp.P(d)
    if k == 'H':
        return rp.H(d)
    if k.startswith('Cov('):
        return rp.Cov(elem(k[4:-1], d), 1)
    raise ValueError(k)


def label(spec):
    k = spec['kind']
    if k in ('G', 'LN'):
        return '%s%s%d' % (k, '' if spec['centered'] else 'nc', spec['n_dim'])
    if k in ('TG', 'P', 'H'):
        return '%s%d' % (k, spec['n_dim'])
    if k == 'Cov':
        sel = '' if spec.get('sel') is None else repr(spec['sel']).replace(' ', '')
        return 'Cov(%s,c%d%s)' % (label(spec['inner']), spec['n_cov'], sel)
    if k == 'Comp':
        return '[' + '+'.join(label(p) for p in spec['parts']) + ']'
    if k == 'Red':
        return 'Red(%s;%s)' % (label(spec['inner']), ','.join(sorted(spec['fixed'])))
    return k


def compositions(total_dim, kinds, max_part_dim=3):
    """All sequences of elementary specs whose dimensions sum to total_dim."""
    out = []

    def rec(remaining, acc):
        if remaining == 0:
            out.append(list(acc))
            return
        for d in range(1, min(remaining, max_part_dim) + 1):
            for k in kinds:
                acc.append(elem(k, d))
                rec(remaining - d, acc)
                acc.pop()
    rec(total_dim, [])
    return out
