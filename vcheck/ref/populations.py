"""Reference semantics of chi's population models (never imports chi).

A population model is described by a JSON-able *spec*:

  {'kind': 'G' | 'LN', 'n_dim': d, 'centered': bool}   Gaussian / log-normal
  {'kind': 'TG', 'n_dim': d}                            Gaussian truncated at 0
  {'kind': 'P', 'n_dim': d}                             pooled (point mass at theta)
  {'kind': 'H', 'n_dim': d}                             heterogeneous (own value per id)
  {'kind': 'Cov', 'inner': spec, 'n_cov': c, 'sel': [[p, d], ...] | None}
  {'kind': 'Comp', 'parts': [spec, ...]}
  {'kind': 'Red', 'inner': spec, 'fixed': {str(index): value}}

Published layouts (typed from the class documentation):
* elementary parameters, flat: parameter-major  [p0 d0, p0 d1, ..., p1 d0, ...];
  G: (mean, std), LN: (log mean, log std), TG: (mu, sigma), P: (value),
  H: one row per individual [id0 d0, id0 d1, ..., id1 d0, ...];
* covariate model: inner parameters, then for every selected (parameter, dimension)
  pair -- sorted by parameter then dimension, duplicates removed -- one beta per
  covariate;
* composed: concatenation over parts, each with its own dims/covariate columns;
* reduced: the free parameters in original order.

"Observations" of a population model are psi for centred and eta for non-centred models.
All arithmetic is analytic so that complex-step differentiation applies.
"""
import numpy as np
from scipy.special import erfc

LOG2PI = np.log(2 * np.pi)


# ------------------------------------------------------------------ structure

def G(d=1, centered=True):
    return {'kind': 'G', 'n_dim': d, 'centered': centered}


def LN(d=1, centered=True):
    return {'kind': 'LN', 'n_dim': d, 'centered': centered}


def TG(d=1):
    return {'kind': 'TG', 'n_dim': d}


def P(d=1):
    return {'kind': 'P', 'n_dim': d}


def H(d=1):
    return {'kind': 'H', 'n_dim': d}


def Cov(inner, n_cov=1, sel=None):
    return {'kind': 'Cov', 'inner': inner, 'n_cov': n_cov, 'sel': sel}


def Comp(parts):
    return {'kind': 'Comp', 'parts': list(parts)}


def Red(inner, fixed):
    return {'kind': 'Red', 'inner': inner,
            'fixed': {str(k): v for k, v in fixed.items()}}


def n_dim(s):
    k = s['kind']
    if k == 'Comp':
        return sum(n_dim(p) for p in s['parts'])
    if k in ('Cov', 'Red'):
        return n_dim(s['inner'])
    return s['n_dim']


def n_cov(s):
    k = s['kind']
    if k == 'Comp':
        return sum(n_cov(p) for p in s['parts'])
    if k == 'Cov':
        return s['n_cov']
    if k == 'Red':
        return n_cov(s['inner'])
    return 0


def per_dim(s):
    """parameters per dimension of an elementary model (H: needs n_ids)."""
    return {'G': 2, 'LN': 2, 'TG': 2, 'P': 1}[s['kind']]


def selection(s):
    """Sorted unique (parameter, dimension) pairs of a covariate spec."""
    inner = s['inner']
    d = n_dim(inner)
    if s.get('sel') is None:
        # default: all parameters of the inner model
        ppd = per_dim(inner)
        pairs = [(p, k) for p in range(ppd) for k in range(d)]
    else:
        pairs = sorted(set((int(p), int(k)) for p, k in s['sel']))
    return pairs


def n_top(s, n_ids):
    k = s['kind']
    if k in ('G', 'LN', 'TG'):
        return 2 * s['n_dim']
    if k == 'P':
        return s['n_dim']
    if k == 'H':
        return n_ids * s['n_dim']
    if k == 'Cov':
        return n_top(s['inner'], n_ids) + len(selection(s)) * s['n_cov']
    if k == 'Comp':
        return sum(n_top(p, n_ids) for p in s['parts'])
    if k == 'Red':
        return n_top(s['inner'], n_ids) - len(s['fixed'])
    raise ValueError(k)


def special(s):
    """Per dimension: None (hierarchical), 'P' (pooled) or 'H' (heterogeneous)."""
    k = s['kind']
    if k == 'Comp':
        out = []
        for p in s['parts']:
            out += special(p)
        return out
    if k in ('Cov', 'Red'):
        return special(s['inner'])
    if k in ('P', 'H'):
        return [k] * s['n_dim']
    return [None] * s['n_dim']


def n_hier_dim(s):
    return sum(1 for x in special(s) if x is None)


def n_bottom(s, n_ids):
    return n_ids * n_hier_dim(s)


def noncentered_dims(s):
    """Per dimension: True where the 'observation' is eta (non-centred)."""
    k = s['kind']
    if k == 'Comp':
        out = []
        for p in s['parts']:
            out += noncentered_dims(p)
        return out
    if k in ('Cov', 'Red'):
        return noncentered_dims(s['inner'])
    if k in ('G', 'LN'):
        return [not s['centered']] * s['n_dim']
    return [False] * s['n_dim']


# ---------------------------------------------------------------------- names

_BASE = {'G': ['Mean', 'Std.'], 'LN': ['Log mean', 'Log std.'],
         'TG': ['Mu', 'Sigma'], 'P': ['Pooled']}


def _names(s, n_ids, dims):
    """Default parameter names given the dimension names `dims` of this model."""
    k = s['kind']
    if k in _BASE:
        return [b + ' ' + dn for b in _BASE[k] for dn in dims]
    if k == 'H':
        return ['ID %d %s' % (i + 1, dn) for i in range(n_ids) for dn in dims]
    if k == 'Cov':
        inner = _names(s['inner'], n_ids, dims)
        d = n_dim(s['inner'])
        out = list(inner)
        for (p, kdim) in selection(s):
            for c in range(s['n_cov']):
                out.append('%s Cov. %d' % (inner[p * d + kdim], c + 1))
        return out
    if k == 'Comp':
        out = []
        start = 0
        for p in s['parts']:
            d = n_dim(p)
            out += _names(p, n_ids, dims[start:start + d])
            start += d
        return out
    if k == 'Red':
        inner = _names(s['inner'], n_ids, dims)
        return [n for i, n in enumerate(inner) if str(i) not in s['fixed']]
    raise ValueError(k)


def local_dims(s):
    k = s['kind']
    if k == 'Comp':
        out = []
        for p in s['parts']:
            out += local_dims(p)
        return out
    if k in ('Cov', 'Red'):
        return local_dims(s['inner'])
    return ['Dim. %d' % (i + 1) for i in range(s['n_dim'])]


def names(s, n_ids):
    """Default names as chi publishes them: sub-model-local dimension names unless that
    makes names collide inside a composed model, in which case dimensions are numbered
    globally (documented behaviour of ComposedPopulationModel)."""
    dims = local_dims(s)
    out = _names(s, n_ids, dims)
    if _has_comp(s) and len(set(out)) != len(out):
        dims = ['Dim. %d' % (i + 1) for i in range(n_dim(s))]
        out = _names(s, n_ids, dims)
    return out


def _has_comp(s):
    if s['kind'] == 'Comp':
        return True
    if s['kind'] in ('Cov', 'Red'):
        return _has_comp(s['inner'])
    return False


# ------------------------------------------------------------------ semantics

def _norm_logcdf_pos(x):
    """log Phi(x) via erfc (complex-safe)."""
    return np.log(0.5 * erfc(-x / np.sqrt(2)))


def expand(s, top, n_ids):
    """Full inner parameter vector of a reduced spec (fixed values substituted)."""
    if s['kind'] != 'Red':
        return np.asarray(top)
    n_full = n_top(s['inner'], n_ids)
    top = np.asarray(top)
    full = np.zeros(n_full, dtype=complex if np.iscomplexobj(top) else float)
    it = iter(top)
    for i in range(n_full):
        if str(i) in s['fixed']:
            full[i] = s['fixed'][str(i)]
        else:
            full[i] = next(it)
    return full


def vartheta(s, top, cov, n_ids):
    """Per-individual parameter tensor (n_ids, per_dim, n_dim) of an elementary or
    covariate spec."""
    k = s['kind']
    top = np.asarray(top)
    if k == 'Cov':
        inner = s['inner']
        d = n_dim(inner)
        n_in = n_top(inner, n_ids)
        base = vartheta(inner, top[:n_in], None, n_ids)
        base = np.array(base, dtype=complex if (
            np.iscomplexobj(top) or np.iscomplexobj(cov)) else float)
        beta = top[n_in:].reshape(len(selection(s)), s['n_cov'])
        cov = np.asarray(cov).reshape(n_ids, s['n_cov'])
        for j, (p, kd) in enumerate(selection(s)):
            base[:, p, kd] = base[:, p, kd] + cov @ beta[j]
        return base
    if k == 'H':
        # (n_ids individuals, n_ids rows, n_dim): the same table for everybody
        tab = top.reshape(n_ids, s['n_dim'])
        return np.broadcast_to(tab[np.newaxis], (n_ids,) + tab.shape)
    ppd = per_dim(s)
    tab = top.reshape(ppd, s['n_dim'])
    return np.broadcast_to(tab[np.newaxis], (n_ids,) + tab.shape)


def _elem_kind(s):
    return s['inner']['kind'] if s['kind'] == 'Cov' else s['kind']


def _elem(s):
    return s['inner'] if s['kind'] == 'Cov' else s


def psi_of(s, top, obs, cov=None):
    """Individual parameters (n_ids, n_dim) from the population parameters and the
    'observations' (psi for centred dims, eta for non-centred, ignored for P/H)."""
    obs = np.asarray(obs)
    n_ids = obs.shape[0]
    k = s['kind']
    if k == 'Red':
        return psi_of(s['inner'], expand(s, top, n_ids), obs, cov)
    if k == 'Comp':
        outs = []
        t0 = d0 = c0 = 0
        for p in s['parts']:
            nt, d, c = n_top(p, n_ids), n_dim(p), n_cov(p)
            sub_cov = None if cov is None or c == 0 else \
                np.asarray(cov)[:, c0:c0 + c]
            outs.append(psi_of(p, np.asarray(top)[t0:t0 + nt],
                               obs[:, d0:d0 + d], sub_cov))
            t0, d0, c0 = t0 + nt, d0 + d, c0 + c
        return np.concatenate(outs, axis=1)
    th = vartheta(s, top, cov, n_ids)
    e = _elem(s)
    ek = e['kind']
    if ek == 'P':
        return th[:, 0, :] + 0 * obs
    if ek == 'H':
        return np.array([th[i, i, :] for i in range(n_ids)]) + 0 * obs
    if ek in ('G', 'LN') and not e['centered']:
        if ek == 'G':
            return th[:, 0, :] + th[:, 1, :] * obs
        return np.exp(th[:, 0, :] + th[:, 1, :] * obs)
    return obs


def logpop(s, top, obs, cov=None):
    """Population log-density of the 'observations' (sum over individuals, dims)."""
    obs = np.asarray(obs)
    n_ids = obs.shape[0]
    k = s['kind']
    if k == 'Red':
        return logpop(s['inner'], expand(s, top, n_ids), obs, cov)
    if k == 'Comp':
        tot = 0
        t0 = d0 = c0 = 0
        for p in s['parts']:
            nt, d, c = n_top(p, n_ids), n_dim(p), n_cov(p)
            sub_cov = None if cov is None or c == 0 else \
                np.asarray(cov)[:, c0:c0 + c]
            tot = tot + logpop(p, np.asarray(top)[t0:t0 + nt],
                               obs[:, d0:d0 + d], sub_cov)
            t0, d0, c0 = t0 + nt, d0 + d, c0 + c
        return tot
    th = vartheta(s, top, cov, n_ids)
    e = _elem(s)
    ek = e['kind']
    if ek in ('P', 'H'):
        want = psi_of(s, top, obs, cov)
        return 0.0 if np.all(np.real(obs) == np.real(want)) else -np.inf
    if ek in ('G', 'LN') and not e['centered']:
        return np.sum(-0.5 * LOG2PI - obs ** 2 / 2)
    mu, sig = th[:, 0, :], th[:, 1, :]
    if np.any(np.real(sig) <= 0):
        return -np.inf
    if ek == 'G':
        return np.sum(-0.5 * LOG2PI - np.log(sig) - (obs - mu) ** 2 / (2 * sig ** 2))
    if ek == 'LN':
        if np.any(np.real(obs) <= 0):
            return -np.inf
        lo = np.log(obs)
        return np.sum(-0.5 * LOG2PI - np.log(sig) - lo
                      - (lo - mu) ** 2 / (2 * sig ** 2))
    if ek == 'TG':
        if np.any(np.real(obs) < 0):
            return -np.inf
        return np.sum(-0.5 * LOG2PI - np.log(sig) - (obs - mu) ** 2 / (2 * sig ** 2)
                      - _norm_logcdf_pos(mu / sig))
    raise ValueError(ek)


# ---------------------------------------------- hierarchical (bottom, top) form

def hier_split(s, vec, n_ids):
    """Splits a hierarchical vector (bottom entries individual-major over the
    hierarchical dims, then top) into an obs matrix (n_ids, n_dim) -- P/H columns
    filled from the top parameters -- and the top vector."""
    vec = np.asarray(vec)
    nb = n_bottom(s, n_ids)
    bottom = vec[:nb].reshape(n_ids, n_hier_dim(s)) if nb else \
        np.zeros((n_ids, 0))
    top = vec[nb:]
    sp = special(s)
    obs = np.zeros((n_ids, len(sp)), dtype=vec.dtype)
    j = 0
    for dcol, kind in enumerate(sp):
        if kind is None:
            obs[:, dcol] = bottom[:, j]
            j += 1
    # P/H columns: psi is determined by top; fill obs with it (so logpop is 0)
    full = psi_of(s, top, obs, None) if n_cov(s) == 0 else None
    return obs, top, full


def elementary_parts(s):
    """Flattened list of non-composed parts (nested compositions unrolled)."""
    if s['kind'] == 'Comp':
        out = []
        for p in s['parts']:
            out += elementary_parts(p)
        return out
    return [s]
