"""Documented error-model densities (reference; never imports chi).

G  : y ~ N(ybar, sigma^2)
M  : y ~ N(ybar, (sigma_rel*ybar)^2)
CM : y ~ N(ybar, (sigma_base + sigma_rel*ybar)^2)
LN : log y ~ N(log ybar - sigma^2/2, sigma^2)   (mean of y equals ybar)
"""
import numpy as np

MODELS = ('G', 'M', 'CM', 'LN')
N_PARAMS = {'G': 1, 'M': 1, 'CM': 2, 'LN': 1}
CHI_CLASS = {
    'G': 'GaussianErrorModel', 'M': 'MultiplicativeGaussianErrorModel',
    'CM': 'ConstantAndMultiplicativeGaussianErrorModel',
    'LN': 'LogNormalErrorModel'}
DEFAULT_NAMES = {
    'G': ['Sigma'], 'M': ['Sigma rel.'], 'CM': ['Sigma base', 'Sigma rel.'],
    'LN': ['Sigma log']}
LOG2PI = np.log(2 * np.pi)


def in_support(model, params, ybar):
    """Parameters/outputs for which the documented density exists."""
    p = np.real(np.asarray(params))
    yb = np.real(np.asarray(ybar))
    if np.any(p <= 0):
        return False
    if model == 'LN' and np.any(yb <= 0):
        return False
    return True


def pointwise(model, params, ybar, y):
    """Pointwise log-density; -inf outside the support named by the property.
    Complex-safe inside the support."""
    ybar = np.asarray(ybar)
    y = np.asarray(y)
    if not in_support(model, params, ybar):
        return np.full(len(ybar), -np.inf)
    if model == 'G':
        s = params[0] + 0 * ybar
        return -0.5 * LOG2PI - np.log(s) - (y - ybar) ** 2 / (2 * s ** 2)
    if model == 'M':
        s = params[0] * ybar
        return -0.5 * LOG2PI - np.log(s) - (y - ybar) ** 2 / (2 * s ** 2)
    if model == 'CM':
        s = params[0] + params[1] * ybar
        return -0.5 * LOG2PI - np.log(s) - (y - ybar) ** 2 / (2 * s ** 2)
    if model == 'LN':
        s = params[0]
        mu = np.log(ybar) - s ** 2 / 2
        return -0.5 * LOG2PI - np.log(s) - np.log(y) \
            - (np.log(y) - mu) ** 2 / (2 * s ** 2)
    raise ValueError(model)


def total(model, params, ybar, y):
    return np.sum(pointwise(model, params, ybar, y))


def std_positive(model, params, ybar):
    """Whether the documented standard deviation is positive at every output."""
    yb = np.asarray(ybar, dtype=float)
    if model == 'M':
        return bool(np.all(params[0] * yb > 0))
    if model == 'CM':
        return bool(np.all(params[0] + params[1] * yb > 0))
    return True


def generative(model, params, ybar, z):
    """Documented generative map y = T(ybar, sigma, z), z standard normal."""
    ybar = np.asarray(ybar)
    if model == 'G':
        return ybar + params[0] * z
    if model == 'M':
        return ybar + params[0] * ybar * z
    if model == 'CM':
        return ybar + (params[0] + params[1] * ybar) * z
    if model == 'LN':
        return ybar * np.exp(-params[0] ** 2 / 2 + params[0] * z)
    raise ValueError(model)


def mean_std(model, params, ybar):
    ybar = np.asarray(ybar, dtype=float)
    if model == 'G':
        return ybar, np.full(ybar.shape, params[0])
    if model == 'M':
        return ybar, params[0] * ybar
    if model == 'CM':
        return ybar, params[0] + params[1] * ybar
    if model == 'LN':
        return ybar, ybar * np.sqrt(np.exp(params[0] ** 2) - 1)
