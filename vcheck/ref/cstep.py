"""Exact gradients of reference densities by complex-step differentiation.

Reference functions are written as plain analytic numpy arithmetic, so
Im f(x + i h e_k) / h with h = 1e-30 is the k-th partial derivative to machine
precision (no subtraction, no step-size trade-off)."""
import numpy as np

H = 1e-30


def grad(f, x):
    """Gradient of scalar function f at real vector x (f must accept complex arrays)."""
    x = np.asarray(x, dtype=float)
    g = np.empty(x.shape)
    flat = x.reshape(-1)
    for k in range(flat.size):
        z = flat.astype(complex)
        z[k] += 1j * H
        g.reshape(-1)[k] = np.imag(f(z.reshape(x.shape))) / H
    return g


def jac(f, x):
    """Jacobian of vector function f: R^n -> R^m, shape (m, n)."""
    x = np.asarray(x, dtype=float)
    cols = []
    flat = x.reshape(-1)
    for k in range(flat.size):
        z = flat.astype(complex)
        z[k] += 1j * H
        cols.append(np.imag(np.asarray(f(z.reshape(x.shape)))).reshape(-1) / H)
    return np.array(cols).T
