"""Schedule semantics of dosing regimens (reference; never imports chi).

A regimen (dose, start, duration, period, num) delivers `dose` at constant rate
dose/duration during [start + n*period, start + n*period + duration) for
n = 0 .. num-1 (num None/0 with a period: indefinitely; no period: once)."""


def occurrences(dose, start, duration, period, num, horizon):
    """[(time, duration, rate)] of all administrations starting before `horizon`."""
    rate = dose / duration
    if period is None or period == 0:
        return [(start, duration, rate)] if start < horizon else []
    out = []
    n = 0
    while True:
        t = start + n * period
        if t >= horizon:
            break
        if num not in (None, 0) and n >= num:
            break
        out.append((t, duration, rate))
        n += 1
    return out


def table(dose, start, duration, period, num, final_time):
    """Rows (time, duration, amount) of the dose events with time <= final_time;
    final_time None: all events of a finite regimen, the first one of an indefinite
    regimen (documented)."""
    if period is None or period == 0:
        rows = [(start, duration, dose)]
    elif num in (None, 0):
        if final_time is None:
            rows = [(start, duration, dose)]
        else:
            rows = []
            n = 0
            while start + n * period <= final_time:
                rows.append((start + n * period, duration, dose))
                n += 1
    else:
        rows = [(start + n * period, duration, dose) for n in range(num)]
    if final_time is not None:
        rows = [r for r in rows if r[0] <= final_time]
    return rows
