"""Closed-form toy 'mechanistic model' (reference side; never imports chi).

n parameters psi_0..psi_{n-1} (n >= 2), k outputs:

  y_j(t) = psi_0 * exp(-psi_1 * t * (j + 1) / 2) + sum_i psi_i * g_ji(t),
  g_ji(t) = (0.3 + 0.1 i + 0.05 j) * (1 + 0.2 (i + 1) t)

Positive for positive psi; every parameter enters every output with its own weight,
so that any mix-up of parameter positions, outputs or time points changes the value.
Analytic in psi (complex-step differentiable)."""
import numpy as np


def evaluate(psi, times, n_outputs):
    psi = np.asarray(psi)
    t = np.asarray(times, dtype=float)
    n = len(psi)
    out = []
    for j in range(n_outputs):
        y = psi[0] * np.exp(-psi[1] * t * (j + 1) / 2)
        for i in range(n):
            y = y + psi[i] * (0.3 + 0.1 * i + 0.05 * j) * (1 + 0.2 * (i + 1) * t)
        out.append(y)
    return np.array(out)


def sensitivities(psi, times, n_outputs):
    """d y_j(t) / d psi_i, shape (n_times, n_outputs, n_params), by complex step."""
    psi = np.asarray(psi, dtype=float)
    n = len(psi)
    h = 1e-30
    S = np.empty((len(times), n_outputs, n))
    for i in range(n):
        z = psi.astype(complex)
        z[i] += 1j * h
        S[:, :, i] = (np.imag(evaluate(z, times, n_outputs)) / h).T
    return S
