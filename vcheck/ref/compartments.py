"""Closed-form solutions of linear compartment models with piecewise-constant input
(reference; never imports chi). Complex-safe in the parameter values."""
import numpy as np
from scipy.linalg import expm


def state_name(comp):
    return '%s.drug_%s_amount' % (comp, comp)


def conc_name(comp):
    return '%s.drug_%s_concentration' % (comp, comp)


def rate_value(desc, values, k):
    if k in desc.get('derived', {}):
        return sum(values['global.' + p] for p in desc['derived'][k])
    if k.endswith('.absorption_rate'):
        return values[k]
    return values['global.' + k]


def matrix(desc, values, comps):
    n = len(comps)
    dt = complex if any(np.iscomplexobj(v) for v in values.values()) else float
    M = np.zeros((n, n), dtype=dt)
    for r in desc['reactions']:
        kv = rate_value(desc, values, r['k'])
        i = comps.index(r['from'])
        M[i, i] -= kv
        if r.get('to') is not None:
            M[comps.index(r['to']), i] += kv
    return M


def solve(desc, values, times, dosed=None, events=(), depot=False,
          depot_name='dose'):
    """Returns dict qname -> array over `times` for amounts, concentrations and
    intermediates. `values`: qname -> value (initial amounts, sizes, rate constants;
    with depot also 'dose.drug_amount', 'dose.absorption_rate').
    `events`: [(start, duration, rate)] infusions into compartment `dosed` (or into
    the depot feeding it when depot=True)."""
    comps = [c['id'] for c in desc['comps']]
    d = dict(desc)
    names = [state_name(c) for c in comps]
    DEPOT = '<depot>'
    if depot:
        # (the depot is called `depot_name` in the published names: 'dose', or
        # 'dose_1' when the model has a compartment of that name itself)
        comps = comps + [DEPOT]
        names = names + [depot_name + '.drug_amount']
        d['reactions'] = list(desc['reactions']) + [
            {'from': DEPOT, 'to': dosed, 'k': depot_name + '.absorption_rate'}]
    M = matrix(d, values, comps)
    n = len(comps)
    x = np.array([values[nm] for nm in names], dtype=M.dtype)
    target = None
    if dosed is not None:
        target = comps.index(DEPOT if depot else dosed)
    times = np.asarray(times, dtype=float)
    brk = set()
    for s, du, r in events:
        brk.update([s, s + du])
    pts = sorted(set([0.0]) | set(t for t in brk if t > 0) | set(times.tolist()))
    out = np.zeros((len(times), n), dtype=M.dtype)
    cur_t = 0.0
    cur_x = x
    lookup = {}
    if 0.0 in times:
        lookup[0.0] = cur_x
    for p in pts:
        if p <= cur_t:
            continue
        mid = 0.5 * (cur_t + p)
        u = np.zeros(n, dtype=M.dtype)
        for s, du, r in events:
            if s <= mid < s + du:
                u[target] += r
        A = np.zeros((n + 1, n + 1), dtype=M.dtype)
        A[:n, :n] = M
        A[:n, n] = u
        E = expm(A * (p - cur_t))
        cur_x = E[:n, :n] @ cur_x + E[:n, n]
        cur_t = p
        lookup[p] = cur_x
    for i, t in enumerate(times):
        out[i] = lookup[float(t)]
    res = {}
    for j, c in enumerate(comps):
        res[names[j]] = out[:, j]
        if c != DEPOT:
            res[conc_name(c)] = out[:, j] / values[c + '.size']
    for name, cs in desc.get('inter', {}).items():
        res['global.' + name] = sum(out[:, comps.index(c)] for c in cs)
    return res


def cumulative_input(events, t):
    """Total amount delivered by the infusion events up to time t."""
    tot = 0.0
    for s, du, r in events:
        tot += r * max(0.0, min(t, s + du) - s)
    return tot
