"""Documented population-filter densities (reference; never imports chi).

data y: (n_ids, n_obs, T) with NaN = missing; sim: (n_sim, n_obs, T).
All statistics are the documented empirical estimates from the *simulated* values of
the same observable and time point (variance with n_s - 1). Complex-safe in `sim`."""
import numpy as np

LOG2PI = np.log(2 * np.pi)


def _norm_logpdf(y, mu, var):
    return -0.5 * LOG2PI - 0.5 * np.log(var) - (y - mu) ** 2 / (2 * var)


def _lse(a, axis=0):
    m = np.max(np.real(a), axis=axis, keepdims=True)
    return np.log(np.sum(np.exp(a - m), axis=axis)) + np.squeeze(m, axis=axis)


def _mean_var(x, axis=0):
    n = x.shape[axis]
    mu = np.sum(x, axis=axis, keepdims=True) / n
    var = np.sum((x - mu) ** 2, axis=axis, keepdims=True) / (n - 1)
    return mu, var


def pointwise(kind, y, sim, n_kernels=2):
    """log-density of every measurement (NaN where the measurement is missing)."""
    y = np.asarray(y, dtype=float)
    sim = np.asarray(sim)
    n_sim = sim.shape[0]
    miss = np.isnan(y)
    ysafe = np.where(miss, 1.0, y)
    if kind == 'G':
        mu, var = _mean_var(sim)
        out = _norm_logpdf(ysafe, mu, var)
    elif kind == 'LN':
        mu, var = _mean_var(np.log(sim))
        out = _norm_logpdf(np.log(ysafe), mu, var) - np.log(ysafe)
    elif kind == 'GKDE':
        _, var = _mean_var(sim)
        bw2 = (4 / 3 / n_sim) ** 0.4 * var
        comp = _norm_logpdf(ysafe[np.newaxis], sim[:, np.newaxis], bw2[np.newaxis])
        out = _lse(comp, 0) - np.log(n_sim)
    elif kind == 'LNKDE':
        ls = np.log(sim)
        _, var = _mean_var(ls)
        bw2 = (4 / 3 / n_sim) ** 0.4 * var
        comp = _norm_logpdf(np.log(ysafe)[np.newaxis], ls[:, np.newaxis],
                            bw2[np.newaxis])
        out = _lse(comp, 0) - np.log(n_sim) - np.log(ysafe)
    elif kind == 'GM':
        K = n_kernels
        per = n_sim // K
        comps = []
        for m in range(K):
            mu, var = _mean_var(sim[m * per:(m + 1) * per])
            comps.append(_norm_logpdf(ysafe, mu, var))
        out = _lse(np.array(comps), 0) - np.log(K)
    else:
        raise ValueError(kind)
    out = np.array(out, dtype=complex if np.iscomplexobj(sim) else float)
    out[miss] = np.nan
    return out


def total(kind, y, sim, n_kernels=2):
    pw = pointwise(kind, y, sim, n_kernels)
    return np.nansum(pw) if not np.iscomplexobj(pw) else \
        np.sum(np.where(np.isnan(np.real(pw)), 0, pw))


def composed_total(blocks, y, sim):
    """blocks: list of (kind, n_times, n_kernels) over consecutive time blocks."""
    tot = 0
    t0 = 0
    for kind, nt, nk in blocks:
        tot = tot + total(kind, y[..., t0:t0 + nt], sim[..., t0:t0 + nt], nk)
        t0 += nt
    return tot
