"""RefSimulation (environment model) against closed forms."""
import numpy as np


def _one_comp(A0, V, k, t, dose_events=()):
    """Amount in a one-compartment model with first-order elimination and
    piecewise-constant infusions [(start, duration, rate)], closed form."""
    t = np.asarray(t, dtype=float)
    out = A0 * np.exp(-k * t)
    for s, d, r in dose_events:
        for i, ti in enumerate(t):
            if ti <= s:
                continue
            te = min(ti, s + d)
            # contribution of infusion over [s, te], decayed until ti
            out[i] += r / k * (1 - np.exp(-k * (te - s))) * np.exp(-k * (ti - te))
    return out


def test_refsim_one_compartment_values_and_sensitivities():
    import chi
    import chi.library
    import vcheck  # noqa: installs the stand-in
    m = chi.library.ModelLibrary().one_compartment_pk_model()
    m.set_outputs(['central.drug_amount', 'central.drug_concentration'])
    names = m.parameters()
    assert names == ['central.drug_amount', 'central.size',
                     'global.elimination_rate'], names
    A0, V, k = 2.3, 1.7, 0.6
    t = np.array([0.0, 0.4, 1.0, 2.5])
    y = m.simulate([A0, V, k], t)
    e = _one_comp(A0, V, k, t)
    assert np.allclose(y[0], e, rtol=1e-8, atol=1e-10), (y[0], e)
    assert np.allclose(y[1], e / V, rtol=1e-8, atol=1e-10)
    # dosing, direct
    m.set_administration('central', direct=True)
    m.set_dosing_regimen(dose=3.0, start=0.5, duration=0.25, period=1.0, num=2)
    y = m.simulate([A0, V, k], t)
    ev = [(0.5, 0.25, 12.0), (1.5, 0.25, 12.0)]
    e = _one_comp(A0, V, k, t, ev)
    assert np.allclose(y[0], e, rtol=1e-7, atol=1e-9), (y[0], e)
    # sensitivities vs complex step of the closed form
    m.enable_sensitivities(True)
    y2, S = m.simulate([A0, V, k], t)
    assert np.allclose(y2, y, rtol=1e-9)
    assert S.shape == (len(t), 2, 3)
    h = 1e-30
    for j, p in enumerate([A0, V, k]):
        z = [A0, V, k]
        z[j] = p + 1j * h
        ez = _one_comp(z[0], z[1], z[2], t, ev)
        dA = np.imag(ez) / h
        dC = np.imag(ez / z[1]) / h
        assert np.allclose(S[:, 0, j], dA, rtol=1e-6, atol=1e-8), (j, S[:, 0, j], dA)
        assert np.allclose(S[:, 1, j], dC, rtol=1e-6, atol=1e-8), (j, S[:, 1, j], dC)


def test_refsim_indirect_and_fault_injection():
    import chi
    import chi.library
    import myokit
    from vcheck.env import refsim
    m = chi.library.ModelLibrary().one_compartment_pk_model()
    m.set_administration('central', direct=False)
    m.set_dosing_regimen(dose=2.0, start=0.0, duration=0.1)
    names = m.parameters()
    assert names == ['central.drug_amount', 'dose.drug_amount', 'central.size',
                     'dose.absorption_rate', 'global.elimination_rate'], names
    # no elimination: depot + central holds the cumulative input
    m.set_outputs(['central.drug_amount', 'dose.drug_amount'])
    t = np.array([0.05, 0.1, 0.5, 3.0])
    y = m.simulate([0, 0, 1.0, 1.3, 0.0], t)
    tot = y[0] + y[1]
    assert np.allclose(tot, [1.0, 2.0, 2.0, 2.0], rtol=1e-7), tot
    refsim.Counters.reset()
    refsim.Counters.fail_runs = {1}
    m.simulate([0, 0, 1.0, 1.3, 0.0], t)
    try:
        m.simulate([0, 0, 1.0, 1.3, 0.0], t)
        raise AssertionError('injected failure did not fire')
    except myokit.SimulationError:
        pass
    refsim.Counters.reset()
