"""Self-tests of the engine and the environment models (run by MANIFEST.setup_cmd)."""
import sys

import numpy as np


def test_engine_detects_planted_bug():
    from vcheck.core import engine

    def worker(case):
        # toy 'implementation': a counter with a planted off-by-one at 3
        x = 0
        for op in case:
            x += op
            if x == 3:
                x += 1
        exp = sum(case)
        v = []
        if x != exp:
            v.append({'message': 'planted', 'expected': exp, 'observed': x})
        return {'outcome': x, 'violations': v}
    import itertools
    cases = [list(c) for n in range(4) for c in itertools.product([1, 2], repeat=n)]
    stats = engine.explore([engine.Part('toy', cases, worker)], workers=2)
    nv = len(stats['toy']['violations'])
    assert nv > 0, 'planted bug not found'
    stats2 = engine.explore([engine.Part('toy', cases, worker)], workers=1)
    assert [v['case'] for v in stats['toy']['violations']] == \
        [v['case'] for v in stats2['toy']['violations']], 'nondeterministic merge'


def test_cstep():
    from vcheck.ref import cstep
    g = cstep.grad(lambda x: np.sum(np.exp(x) * x[0]), np.array([0.3, 1.1]))
    e = np.array([np.exp(0.3) * 0.3 + np.exp(0.3) + np.exp(1.1), np.exp(1.1) * 0.3])
    assert np.allclose(g, e, rtol=1e-13), (g, e)


def main():
    tests = [v for k, v in sorted(globals().items()) if k.startswith('test_')]
    for mod in ('vcheck.tests.test_refsim',):
        try:
            m = __import__(mod, fromlist=['x'])
        except ImportError:
            continue
        tests += [getattr(m, k) for k in sorted(dir(m)) if k.startswith('test_')]
    for t in tests:
        t()
        print('ok', t.__name__)
    print('selftest passed (%d tests)' % len(tests))


if __name__ == '__main__':
    main()
    sys.exit(0)
