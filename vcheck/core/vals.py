"""Deterministic 'generic' value alphabets. VERIF_SEED rotates them inside declared
safe intervals; it never changes which structures are enumerated."""
import math
import zlib

_PHI = (math.sqrt(5) - 1) / 2
_S2 = math.sqrt(2) - 1


def frac(x):
    return x - math.floor(x)


def reals(label, k, lo, hi, seed=0):
    """k pairwise distinct reals in (lo, hi): a Kronecker sequence whose offset depends
    on (label, seed). Rounded to 6 decimals so that cases print compactly."""
    off = frac(zlib.crc32(str(label).encode()) * _S2 + seed * 0.137035999)
    out = []
    i = 0
    while len(out) < k:
        i += 1
        v = round(lo + (hi - lo) * frac(off + i * _PHI), 6)
        if lo < v < hi and all(abs(v - w) > 1e-4 * (hi - lo) for w in out):
            out.append(v)
    return out


def real(label, lo, hi, seed=0):
    return reals(label, 1, lo, hi, seed)[0]
