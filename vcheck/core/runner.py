"""CLI driver: run a check, attribute violations, write replays and evidence."""
import importlib
import json
import os
import subprocess
import sys
import time

from . import engine
from .engine import VERIF, jsonable, key_of

FINDINGS_FILE = os.path.join(VERIF, 'known_findings.json')
MAX_PRINTED = 40


def load_findings():
    if not os.path.exists(FINDINGS_FILE):
        return []
    with open(FINDINGS_FILE) as f:
        return json.load(f).get('findings', [])


def _sub_match(pattern, value):
    """pattern ⊆ value, recursively on dicts; scalars by equality."""
    if isinstance(pattern, dict):
        if not isinstance(value, dict):
            return False
        return all(k in value and _sub_match(p, value[k])
                   for k, p in pattern.items())
    if isinstance(pattern, list) and pattern and pattern[0] == '$in':
        return value in pattern[1:]
    return pattern == value


def attribute(prop, violation, findings):
    """Returns the open known finding that this violation *is*, or None."""
    for f in findings:
        if f.get('status') != 'open' or f.get('property') != prop:
            continue
        m = f.get('match', {})
        if 'part' in m and m['part'] != violation.get('part'):
            continue
        # the behaviour tag is computed by the check from what was *observed*
        if m.get('behaviour') is None or \
                m['behaviour'] != violation.get('behaviour'):
            continue
        if 'case' in m and not _sub_match(m['case'], violation.get('case')):
            continue
        return f
    return None


def load_check(prop):
    return importlib.import_module('vcheck.checks.%s' % prop.lower())


def write_replay(prop, v):
    d = os.path.join(VERIF, 'replays', prop)
    os.makedirs(d, exist_ok=True)
    body = {
        'property': prop, 'part': v['part'], 'case': v['case'],
        'message': v.get('message'), 'expected': v.get('expected'),
        'observed': v.get('observed'), 'behaviour': v.get('behaviour'),
        'how_to_replay': 'cd /verif && /venv/bin/python -m vcheck replay <this file>',
    }
    name = '%s-%s.json' % (v['part'], key_of([v['case'], v.get('message')]))
    path = os.path.join(d, name)
    with open(path, 'w') as f:
        json.dump(jsonable(body), f, indent=1)
    return path


def validate_evidence(path):
    schema = '/root/.vp/EVIDENCE.schema.json'
    if not os.path.exists(schema) or not os.path.exists('/opt/veriftools/pyvenv'):
        return
    code = (
        "import json,jsonschema,sys;"
        "jsonschema.validate(json.load(open(sys.argv[1])),"
        "json.load(open(sys.argv[2])))")
    try:
        r = subprocess.run(
            ['python3-vt', '-c', code, path, schema],
            capture_output=True, text=True, timeout=60)
    except Exception:  # tool not there: nothing to validate with
        return
    if r.returncode != 0:
        raise engine.HarnessError(
            'evidence file does not validate: ' + r.stderr[-800:])


def run(prop, tier, seed, workers=None):
    t0 = time.time()
    mod = load_check(prop)
    spec = mod.build(tier, seed)
    parts = list(spec.get('parts', []))
    stats = engine.explore(parts, workers) if parts else {}
    # explicit-state searches (BFS over histories) run their own exploration
    for search in spec.get('searches', []):
        part, st = search(workers)
        parts.append(part)
        stats[part.name] = st
    findings = load_findings()

    n_cases = sum(s['cases'] for s in stats.values())
    states = sum(len(s['states']) for s in stats.values())
    transitions = sum(s['transitions'] for s in stats.values())
    outcomes = sum(len(s['outcomes']) for s in stats.values())

    new, known = [], {}
    for p in parts:
        for v in stats[p.name]['violations']:
            f = attribute(prop, v, findings)
            if f is None:
                new.append(v)
            else:
                known.setdefault(f['id'], [f, 0])[1] += 1

    # vacuity guards declared by the check
    harness_errors = []
    for p in parts:
        s = stats[p.name]
        if s['cases'] == 0:
            harness_errors.append('part %s enumerated no case' % p.name)
        min_out = spec.get('min_outcomes', {}).get(p.name)
        if min_out is not None and len(s['outcomes']) < min_out \
                and not s['violations']:
            harness_errors.append(
                'part %s: only %d distinct outcomes (< %d): vacuous exploration'
                % (p.name, len(s['outcomes']), min_out))

    printed = 0
    seen_kinds = set()
    for v in new:
        kind = (v['part'], v.get('behaviour'), (v.get('message') or '')[:60])
        if kind in seen_kinds and printed >= 8:
            continue
        seen_kinds.add(kind)
        if printed < MAX_PRINTED:
            path = write_replay(prop, v)
            print('VIOLATION property=%s replay=%s' % (prop, path))
            print('   part=%s %s' % (v['part'], (v.get('message') or '')[:240]))
            printed += 1
    if new:
        groups = {}
        for v in new:
            g = (v['part'], v.get('sub'), v.get('behaviour'),
                 (v.get('message') or '')[:110])
            groups.setdefault(g, 0)
            groups[g] += 1
        print('violation groups (part, sub, behaviour, message): count')
        for g, n in sorted(groups.items(), key=lambda x: str(x[0]))[:60]:
            print('   %5d  %s' % (n, g))
    for fid, (f, n) in sorted(known.items()):
        print('KNOWN-FINDING: property=%s %s [%s; %d explored cases show it]'
              % (prop, f['what'], fid, n))
    # open findings that were expected but did not show are reported (not an error)
    for f in findings:
        if f.get('status') == 'open' and f.get('property') == prop \
                and f['id'] not in known and tier in f.get('tiers', [tier]):
            print('note: open finding %s was not observed in this run' % f['id'])

    samples = []
    for p in parts:
        cs = p.cases
        if cs:
            samples.append({'part': p.name, 'case': jsonable(cs[0])})
            if len(cs) > 2:
                samples.append({'part': p.name,
                                'case': jsonable(cs[len(cs) // 2])})
    wall = time.time() - t0
    evidence = {
        'property_id': prop, 'tier': tier, 'seed': int(seed),
        'level': 'model_checking',
        'coverage': {
            'states': states, 'transitions': transitions,
            'traces_validated_against_impl': n_cases,
            'evaluations': n_cases,
            'distinct_nontrivial': outcomes,
            'rule': spec.get('rule', ''),
            'exhaustive': bool(spec.get('exhaustive', True)),
            'bounds': jsonable(spec.get('bounds', {})),
            'caps_hit': jsonable(spec.get('caps', [])),
            'distinct_outcomes': outcomes,
            'parts': {
                p.name: {
                    'descr': p.descr,
                    'cases': stats[p.name]['cases'],
                    'states': len(stats[p.name]['states']),
                    'transitions': stats[p.name]['transitions'],
                    'distinct_outcomes': len(stats[p.name]['outcomes']),
                    'violations': len(stats[p.name]['violations']),
                    'info': jsonable(stats[p.name]['info']),
                } for p in parts},
            'samples': samples[:12],
            'known_findings_observed': {
                fid: n for fid, (f, n) in sorted(known.items())},
            'explanation': spec.get('explanation', ''),
        },
        'assumptions': spec.get('assumptions', []),
        'wall_s': round(wall, 2),
        'violations': len(new),
    }
    os.makedirs(os.path.join(VERIF, 'evidence'), exist_ok=True)
    epath = os.path.join(VERIF, 'evidence', '%s.json' % prop)
    with open(epath, 'w') as f:
        json.dump(evidence, f, indent=1)
    validate_evidence(epath)

    print('%s tier=%s seed=%s: cases=%d states=%d transitions=%d '
          'distinct_outcomes=%d violations=%d known=%d wall=%.1fs'
          % (prop, tier, seed, n_cases, states, transitions, outcomes,
             len(new), sum(n for _, n in known.values()), wall))
    for p in parts:
        s = stats[p.name]
        print('   part %-28s cases=%-7d states=%-7d outcomes=%-7d viol=%d %s'
              % (p.name, s['cases'], len(s['states']), len(s['outcomes']),
                 len(s['violations']), jsonable(s['info']) or ''))
    if harness_errors:
        for h in harness_errors:
            print('HARNESS-ERROR: ' + h)
        return 2
    return 1 if new else 0


def replay(path):
    with open(path) as f:
        body = json.load(f)
    prop = body['property']
    mod = load_check(prop)
    worker = mod.WORKERS[body['part']]
    part = engine.Part(body['part'], [body['case']], worker)
    res = engine.run_case(part, body['case'])
    findings = load_findings()
    bad = 0
    for v in res['violations']:
        v = dict(v)
        v['part'] = body['part']
        v['case'] = body['case']
        f = attribute(prop, v, findings)
        if f is None:
            bad += 1
            print('VIOLATION property=%s replay=%s' % (prop, path))
        else:
            print('KNOWN-FINDING: property=%s %s' % (prop, f['what']))
        print(json.dumps(jsonable({k: v.get(k) for k in (
            'message', 'expected', 'observed', 'behaviour')}), indent=1))
    if not res['violations']:
        print('replay: no violation on this tree')
    return 1 if bad else 0


def main(argv=None):
    import argparse
    ap = argparse.ArgumentParser(prog='vcheck')
    sub = ap.add_subparsers(dest='cmd', required=True)
    r = sub.add_parser('run')
    r.add_argument('property')
    r.add_argument('--tier', default=os.environ.get('VERIF_TIER', 'quick'))
    r.add_argument('--seed', type=int,
                   default=int(os.environ.get('VERIF_SEED', '0') or 0))
    r.add_argument('--workers', type=int, default=None)
    p = sub.add_parser('replay')
    p.add_argument('path')
    a = ap.parse_args(argv)
    if a.cmd == 'run':
        tier = a.tier if a.tier in ('quick', 'thorough') else 'quick'
        return run(a.property.upper(), tier, a.seed, a.workers)
    return replay(a.path)
