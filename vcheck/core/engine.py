"""
Exploration engine: runs the parts of a check over their completely enumerated case
lists (16 forked workers, deterministic chunk order), merges statistics, attributes
violations to known findings, writes replay files and the evidence file.

A *part* is (name, cases, worker). `cases` is a list of JSON-able objects; `worker(case)`
executes the case on the real chi code and returns a dict

    {'state': <canonical key of the configuration/state the case builds>  (str or list),
     'transitions': <number of real-code operations executed>,
     'outcome': <canonical string of what was observed>,
     'violations': [ {'message', 'expected', 'observed', 'behaviour'?, 'sub'?}, ... ]}

Any exception escaping a worker is reported as a violation of the case (the unchanged
tree runs every case without exception, see DESIGN §6).
"""
import hashlib
import json
import math
import multiprocessing
import os
import sys
import time
import traceback
import warnings

import numpy as np

VERIF = os.path.dirname(os.path.dirname(os.path.dirname(os.path.abspath(__file__))))
N_WORKERS = int(os.environ.get('VCHECK_WORKERS', '16'))


class HarnessError(Exception):
    """The harness itself misbehaved (never a VIOLATION of chi)."""


class Part(object):
    def __init__(self, name, cases, worker, descr='', serial=False):
        self.name = name
        self.cases = list(cases)
        self.worker = worker
        self.descr = descr
        # serial parts run in the parent process (needed when a case itself starts
        # multiprocessing children, which daemonic pool workers may not do)
        self.serial = serial


def jsonable(x):
    if isinstance(x, dict):
        return {str(k): jsonable(v) for k, v in x.items()}
    if isinstance(x, (list, tuple, set, frozenset)):
        return [jsonable(v) for v in x]
    if isinstance(x, np.ndarray):
        return jsonable(x.tolist())
    if isinstance(x, (np.bool_,)):
        return bool(x)
    if isinstance(x, (np.integer,)):
        return int(x)
    if isinstance(x, (float, np.floating)):
        x = float(x)
        if math.isnan(x):
            return 'nan'
        if math.isinf(x):
            return 'inf' if x > 0 else '-inf'
        return x
    if isinstance(x, complex):
        return [x.real, x.imag]
    if x is None or isinstance(x, (int, str, bool)):
        return x
    return repr(x)


def key_of(x):
    return hashlib.sha1(
        json.dumps(jsonable(x), sort_keys=True).encode()).hexdigest()[:16]


_PARTS = None


def _install_warning_policy():
    warnings.filterwarnings(
        'error', message='An error occured while solving the mechanistic')


def run_case(part, case):
    """Runs one case; never raises (except HarnessError)."""
    t0 = time.perf_counter()
    try:
        with warnings.catch_warnings():
            warnings.simplefilter('ignore')
            _install_warning_policy()
            res = part.worker(case)
    except HarnessError:
        raise
    except Exception as e:  # noqa
        tb = traceback.format_exc()
        res = {
            'state': 'EXC', 'transitions': 1,
            'outcome': 'exception:' + type(e).__name__,
            'violations': [{
                'message': 'unexpected exception while running the case: %s: %s'
                % (type(e).__name__, str(e)[:300]),
                'expected': 'case runs as on the unchanged tree',
                'observed': tb[-3000:],
                'behaviour': 'exception:' + type(e).__name__,
            }]}
    res.setdefault('violations', [])
    res.setdefault('transitions', 1)
    res.setdefault('state', key_of(case))
    res.setdefault('outcome', '')
    res['wall'] = time.perf_counter() - t0
    return res


def _work(task):
    pi, start, stop = task
    part = _PARTS[pi]
    out = []
    for ci in range(start, stop):
        res = run_case(part, part.cases[ci])
        st = res['state']
        if not isinstance(st, (list, tuple)):
            st = [st]
        out.append((
            ci, [str(s) for s in st], int(res['transitions']),
            hashlib.sha1(str(res['outcome']).encode()).hexdigest()[:12],
            jsonable(res['violations']), res.get('info')))
    return pi, out


def explore(parts, workers=None, records=None):
    """Runs all cases of all parts. Returns merged statistics. If `records` is a
    dict, records[part.name] receives the per-case (index, states, outcome-hash)."""
    global _PARTS
    _PARTS = parts
    workers = workers or N_WORKERS
    tasks = []
    for pi, part in enumerate(parts):
        n = len(part.cases)
        if n == 0:
            continue
        chunk = max(1, min(200, n // (workers * 4) or 1))
        for s in range(0, n, chunk):
            tasks.append((pi, s, min(n, s + chunk)))
    stats = {
        p.name: {'cases': len(p.cases), 'states': set(), 'transitions': 0,
                 'outcomes': set(), 'violations': [], 'info': {}}
        for p in parts}
    par_tasks = [t for t in tasks if not parts[t[0]].serial]
    ser_tasks = [t for t in tasks if parts[t[0]].serial]
    results = None
    if workers > 1 and len(par_tasks) > 1:
        # (results do not depend on the number of workers; when the machine cannot
        # give us a pool -- fork / pipe failures under load -- fewer workers and
        # finally this process do the same work)
        for w in (workers, max(2, workers // 4)):
            try:
                ctx = multiprocessing.get_context('fork')
                with ctx.Pool(w) as pool:
                    results = list(pool.imap(_work, par_tasks, chunksize=1))
                break
            except (OSError, EOFError, BrokenPipeError, MemoryError) as e:
                import sys
                sys.stderr.write('vcheck: worker pool failed (%s: %s); retrying\n'
                                 % (type(e).__name__, e))
                results = None
    if results is None:
        results = [_work(t) for t in par_tasks]
    results += [_work(t) for t in ser_tasks]
    for pi, out in results:
        part = parts[pi]
        st = stats[part.name]
        for ci, states, ntr, outcome, viols, info in out:
            if records is not None:
                records.setdefault(part.name, []).append((ci, states, outcome))
            st['states'].update(states)
            st['transitions'] += ntr
            st['outcomes'].add(outcome)
            for v in viols:
                v = dict(v)
                v['part'] = part.name
                v['case_index'] = ci
                v['case'] = jsonable(part.cases[ci])
                st['violations'].append(v)
            if info:
                for k, val in info.items():
                    st['info'][k] = st['info'].get(k, 0) + val
    return stats


def bfs(name, worker, ops, depth, seeds=((),), workers=None, descr='',
        enabled=None):
    """Explicit-state breadth-first search over operation histories on the real
    object. A state is the history reaching it (`worker(history)` builds a fresh
    object, replays the history and returns the canonical observation as 'state').
    Histories whose canonical state was seen before are not extended. Returns
    (Part with all executed histories, stats) in the format of `explore`."""
    seen = set()
    paths = {}          # canonical state -> first (shortest) history reaching it
    frontier = [list(s) for s in seeds]
    all_cases = []
    merged = {'cases': 0, 'states': set(), 'transitions': 0, 'outcomes': set(),
              'violations': [], 'info': {'levels': 0}}
    levels = []
    # level 0: the seeds themselves
    level_cases = list(frontier)
    for d in range(depth + 1):
        if not level_cases:
            break
        part = Part(name, level_cases, worker, descr)
        rec = {}
        st = explore([part], workers, records=rec)[name]
        next_frontier = []
        for ci, states, outcome in sorted(rec.get(name, [])):
            key = states[0]
            if key not in seen and not key.startswith('EXC'):
                seen.add(key)
                next_frontier.append(level_cases[ci])
                paths[key] = level_cases[ci]
        for v in st['violations']:
            v['case_index'] += len(all_cases)
        all_cases += level_cases
        merged['cases'] += st['cases']
        merged['states'] |= st['states']
        merged['transitions'] += st['transitions']
        merged['outcomes'] |= st['outcomes']
        merged['violations'] += st['violations']
        levels.append({'depth': d, 'histories': len(level_cases),
                       'new_states': len(next_frontier)})
        if d == depth:
            break
        level_cases = []
        for h in next_frontier:
            for op in ops:
                if enabled is not None and not enabled(h, op):
                    continue
                level_cases.append(list(h) + [op])
    merged['info'] = {'levels': levels, 'closed': not level_cases or all(
        lv['new_states'] == 0 for lv in levels[-1:])}
    part = Part(name, all_cases, worker, descr)
    part.paths = paths
    return part, merged
