"""Fixed tolerance policy and float comparison by class (finite / -inf / +inf / nan)."""
import math
import numpy as np

# closed form vs closed form
REL = 1e-9
ABS = 1e-11
# anything through an ODE solve
ODE_REL = 1e-6
ODE_ABS = 1e-8
# finite differences
FD_REL = 1e-5
FD_ABS = 1e-7


def fclass(x):
    x = float(x)
    if math.isnan(x):
        return 'nan'
    if x == math.inf:
        return '+inf'
    if x == -math.inf:
        return '-inf'
    return 'finite'


def close(a, b, rel=REL, abs_=ABS):
    """Scalar comparison: same class, and if finite, within tolerance."""
    ca, cb = fclass(a), fclass(b)
    if ca != cb:
        return False
    if ca != 'finite':
        return True
    a = float(a)
    b = float(b)
    return abs(a - b) <= abs_ + rel * max(abs(a), abs(b))


def allclose(a, b, rel=REL, abs_=ABS):
    """Array comparison: same shape, entrywise `close`."""
    a = np.asarray(a, dtype=float)
    b = np.asarray(b, dtype=float)
    if a.shape != b.shape:
        return False
    if a.size == 0:
        return True
    fa = np.isfinite(a)
    fb = np.isfinite(b)
    if not np.array_equal(fa, fb):
        return False
    # non finite entries must be of the same class
    na, nb = a[~fa], b[~fb]
    if na.size:
        if not np.array_equal(np.isnan(na), np.isnan(nb)):
            return False
        m = ~np.isnan(na)
        if not np.array_equal(na[m], nb[m]):
            return False
    x, y = a[fa], b[fb]
    return bool(np.all(np.abs(x - y) <= abs_ + rel * np.maximum(
        np.abs(x), np.abs(y))))


def maxdiff(a, b):
    a = np.asarray(a, dtype=float)
    b = np.asarray(b, dtype=float)
    if a.shape != b.shape:
        return 'shape %s vs %s' % (a.shape, b.shape)
    with np.errstate(all='ignore'):
        d = np.abs(a - b)
    if d.size == 0:
        return 0.0
    d = d[np.isfinite(d)]
    return float(d.max()) if d.size else float('nan')


def rnd(x, sig=10):
    """Round floats (recursively) to `sig` significant digits for canonical forms."""
    if isinstance(x, (list, tuple)):
        return tuple(rnd(v, sig) for v in x)
    if isinstance(x, np.ndarray):
        if x.ndim == 0:
            return rnd(x.tolist(), sig)
        return tuple(rnd(v, sig) for v in x.tolist())
    if isinstance(x, (float, np.floating)):
        x = float(x)
        if not math.isfinite(x):
            return repr(x)
        if abs(x) < 1e-12:
            return 0.0          # numerical noise must not split canonical states
        return float('%.*e' % (sig - 1, x))
    if isinstance(x, (int, np.integer)):
        return int(x)
    if isinstance(x, dict):
        return tuple(sorted((str(k), rnd(v, sig)) for k, v in x.items()))
    return x
