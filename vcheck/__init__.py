"""vcheck: bounded exhaustive exploration of DavAug/chi (see /verif/DESIGN.md)."""
import os
import sys

os.environ.setdefault('PYTHONHASHSEED', '0')
# /repo's working tree is what gets explored (editable install points there as well).
# VCHECK_TREE is a development aid only (a scratch checkout while /repo is busy); no
# registered command sets it.
_TREE = os.environ.get('VCHECK_TREE', '/repo')
if _TREE not in sys.path:
    sys.path.insert(0, _TREE)

# the solver stand-in must be in place before chi constructs any simulation
from .env import refsim as _refsim  # noqa: E402
_refsim.install()
